"""C18 — VRU clustering state machine stays consistent and never silences a VRU for good.

Theorems: lean/Props/C18.lean about lean/FlexModel/Vru/Cluster.lean (model of VBSClusteringManager).
Tie: (i) differential correspondence model vs real manager after EVERY event — exhaustive event sequences over a
fixed alphabet from several roots (pruned by the canonical state; below a mismatch the real side is explored further
and judged by the oracle), random sequences to length 400 in three profiles (mixed / long passive membership / long
leadership), exact clock (fractions.Fraction seconds) and float clock; every received VAM went through the real UPER
coder first; after every event the VAM the station WOULD EMIT — real VAMTransmissionManagement (gate, container
attachment) + real coder, decoded again — is compared with the model's `emitVam`, the function the two-station
theorems compose with `recv`;
(ii) closed loops of 2-3 real stations (manager + VAMTransmissionManagement + VAMReceptionManagement + real coder);
(iii) two real threads on one manager under harness/dsched.py (pre-emption at every attribute access inside the
manager, scheduler-aware RLock): the outcome of every explored schedule must be the outcome of one of the two
sequential orders (themselves compared with the model) — the behavioural side of `public_methods_atomic`, whose
structural facts gen_vru.lock_facts regenerates from the source.
Oracle: `Oracle` below — the invariants and deadlines of the property text / TS 103 300-3 clause 5.4.2.2 as a trace
checker over the public API log; it does not look at the model and keeps its own notion of membership, leader
silence (only cluster VAMs OF THE JOINED CLUSTER FROM ITS LEADER count), notification windows (every leave notice due
must be on the air for its full duration without interruption; overlapping notices may go out in any order).
"""
from __future__ import annotations

import copy
import datetime
import logging
import math
import re
import random as _random
import types
from fractions import Fraction

from common import Infra, corpus
import realstack as rs
import gen_vru
import dsched

from flexstack.facilities.vru_awareness_service import vru_clustering as vc
from flexstack.facilities.vru_awareness_service import vam_constants as K
from flexstack.facilities.vru_awareness_service.vam_coder import VAMCoder
from flexstack.facilities.vru_awareness_service.vam_transmission_management import (
    VAMMessage, VAMTransmissionManagement, DeviceDataProvider)
from flexstack.facilities.vru_awareness_service.vam_reception_management import VAMReceptionManagement

MODULES = ["Props.C18"]
DRIVERS = ["Cluster"]
TRUSTED = [
    "modelled rather than verified: float seconds of time_fn (correspondence uses an exact Fraction clock on all "
    "boundary cases and a float clock kept >= 1 ms away from every timer threshold); haversine distance (integer cm grid, "
    "positions kept >= 10 cm away from MAX_CLUSTER_DISTANCE); asn1tools UPER codec (every VAM fed to a manager is the "
    "output of the real decoder; the codec itself is observed, not proved)",
    "random.randint(1, 255) for the cluster id is replaced by harness-chosen draws in 1..255 (also given to the model)",
    "harness/gen_vru.py lock_facts (ast pass: body of every public method under `with self._lock`), harness/dsched.py "
    "(deterministic scheduler; pre-emption points = attribute access / call bytecodes inside VBSClusteringManager)",
]
ASSUMPTIONS = [
    "NOBODY IN THE REPOSITORY CALLS VBSClusteringManager.update(), try_create_cluster() or initiate_join(): every 'by the "
    "next update' statement (leader lost, end of a notification, failed join) is about the manager driven by an "
    "application that calls update() periodically - here the harness (every 100 ms in the closed loops); "
    "VAMTransmissionManagement only reads should_transmit_vam() and the two containers",
    "the clock read by the manager never goes backwards and is a POSIX clock (a join started at exactly t = 0 s is "
    "'falsy' in `self._join_started or now`; compared with the model, not judged)",
    "cluster ids handed to initiate_join() are ClusterId values 0..255 (they come from received cluster VAMs); other "
    "integers are accepted by the code and make the individual VAMs unencodable for the 3 s + 1 s of the notices - "
    "compared with the model, emission tie skipped",
    "fix C18-F6 (fixes/C18-6-leave-notice-before-cancelled-join.diff, commit 1ed843d) is part of the code under test; on a "
    "tree without it the model runs in its `cancelHidesLeave` variant and the oracle reports leave-notification-cut-short",
    "known finding C18-KF1: a break-up announced with reason receptionOfCpmContainingCluster leaves members passive "
    "(deliberate reading of clause 5.4.2.2); they are released by the leader-lost timer once cluster VAMs stop",
    "becoming idle (role off) ends every notification; a cluster cannot be created while a join/leave notification runs",
]

ST = {vc.VBSState.VRU_IDLE: "I", vc.VBSState.VRU_ACTIVE_STANDALONE: "S", vc.VBSState.VRU_ACTIVE_CLUSTER_LEADER: "L",
      vc.VBSState.VRU_PASSIVE: "P"}
LEAVE_CODE, BRK_CODE, LEAVE_ASN, BRK_ASN = gen_vru.reason_codes()
LEAVE_BY_NAME = {e.value: LEAVE_CODE[e.name] for e in vc.ClusterLeaveReason}
BRK_BY_NAME = {e.value: BRK_CODE[e.name] for e in vc.ClusterBreakupReason}
LEAVE_ENUM = {LEAVE_CODE[e.name]: e for e in vc.ClusterLeaveReason}
BRK_ENUM = {BRK_CODE[e.name]: e for e in vc.ClusterBreakupReason}
BRK_NAME_BY_CODE = {v: k for k, v in BRK_ASN.items()}
LEAVE_NAME_BY_CODE = {v: k for k, v in LEAVE_ASN.items()}
CPM = BRK_CODE["RECEPTION_OF_CPM_CONTAINING_CLUSTER"]

# durations of the property text (Table 15), in ms
T_JOIN = round(K.TIME_CLUSTER_JOIN_NOTIFICATION * 1000)
T_SUCC = round(K.TIME_CLUSTER_JOIN_SUCCESS * 1000)
T_LEAVE = round(K.TIME_CLUSTER_LEAVE_NOTIFICATION * 1000)
T_BRK = round(K.TIME_CLUSTER_BREAKUP_WARNING * 1000)
T_CONT = round(K.TIME_CLUSTER_CONTINUITY * 1000)
THRESHOLDS = sorted({T_JOIN, T_SUCC, T_LEAVE, T_BRK, T_CONT, int(K.T_GENVAMMAX),
                     round(K.TIME_CLUSTER_UNIQUENESS_THRESHOLD * 1000)})

CODER = VAMCoder()
_NOW = [0, "fraction"]    # clock read by every manager under test (set before each call)


def _time_fn():
    return Fraction(_NOW[0], 1000) if _NOW[1] == "fraction" else _NOW[0] / 1000.0


class Rand:
    """stand-in for the `random` module inside vru_clustering: randint returns the harness-chosen draws"""

    def __init__(self):
        self.q, self.last = [], 1

    def randint(self, a, b):
        if self.q:
            self.last = self.q.pop(0)
        return self.last


RAND = Rand()

# ------------------------------------------------------------------------------------------------ geometry
LAT0, LON0 = 41.5, 2.1
M_PER_DEG = 6371000.0 * math.pi / 180.0


def pos_deg(x_cm, y_cm):
    return (LAT0 + (y_cm / 100.0) / M_PER_DEG, LON0 + (x_cm / 100.0) / (M_PER_DEG * math.cos(math.radians(LAT0))))


def pos_int(x_cm, y_cm):
    la, lo = pos_deg(x_cm, y_cm)
    return round(la * 1e7), round(lo * 1e7)


def _hav_m(lat1, lon1, lat2, lon2):
    p1, p2 = math.radians(lat1), math.radians(lat2)
    a = math.sin(math.radians(lat2 - lat1) / 2) ** 2 + math.cos(p1) * math.cos(p2) * math.sin(math.radians(lon2 - lon1) / 2) ** 2
    return 6371000.0 * 2.0 * math.atan2(math.sqrt(a), math.sqrt(1.0 - a))


def pair_ok(own, other):
    """grid distance and float distance agree about the 5 m threshold with a 10 cm margin"""
    la, lo = pos_deg(*own)
    ia, io = pos_int(*other)
    d_real = _hav_m(la, lo, ia / 1e7, io / 1e7) * 100.0
    d_grid = math.hypot(own[0] - other[0], own[1] - other[1])
    lim = K.MAX_CLUSTER_DISTANCE * 100.0
    return abs(d_real - lim) > 10.0 and abs(d_grid - lim) > 10.0 and ((d_real <= lim) == (d_grid <= lim))


VAM_POS = [(0, 0), (300, 0), (0, 480), (300, 380), (-340, -340), (520, 0), (0, 2000), (1000, 100)]
OWN_POS = [(0, 0), (1000, 0), (100, 100)]

# ------------------------------------------------------------------------------------------------ VAMs
_VAM_CACHE = {}
ALLOW_LEGACY = [True]     # dict-shaped bounding boxes only against code that accepts decoded tuples as well


def _freeze(x):
    return tuple(_freeze(y) for y in x) if isinstance(x, (list, tuple)) else x


def vam_key(sender, pos, info=None, opc=None, legacy=False, extra=None):
    """info = None | (cid|None, card, 'a'|'c'|'o');  opc = None | (join_cid|None, leave_cid|None, breakup_code|None);
    extra = None | ((path, value), ...): fields of the VAM set to a given value of their ASN.1 domain before encoding
    (path as in gen_vru.VamAsn, below the VAM root; value = ENUMERATED identifier | ('bits', int, nbits) |
    ('alt',) for "the minimal instance of the CHOICE alternative the path ends in").  The model's `recv` line does not
    mention them: the model gives these fields no meaning (break-up reasons travel in `opc` as their ASN.1 number)."""
    return (sender, tuple(pos), tuple(info) if info else None, tuple(opc) if opc else None, bool(legacy),
            _freeze(extra) if extra else None)


def _asn_value(v):
    if isinstance(v, tuple) and v and v[0] == "bits":
        n = v[2]
        return (int(v[1]).to_bytes((n + 7) // 8, "big"), n)
    if isinstance(v, tuple) and v and v[0] == "alt":
        return None           # minimal instance of the alternative (VamAsn.minimal with value None)
    return v


def build_vam(key):
    """full VAM dict for `key`, passed through the real coder (encode -> decode): what a manager really receives"""
    if key in _VAM_CACHE:
        return _VAM_CACHE[key]
    sender, pos, info, opc, legacy, extra = key
    vam = copy.deepcopy(VAMMessage().vam)
    vam["header"]["stationId"] = sender
    la, lo = pos_int(*pos)
    params = vam["vam"]["vamParameters"]
    params["basicContainer"]["stationType"] = 1
    params["basicContainer"]["referencePosition"]["latitude"] = la
    params["basicContainer"]["referencePosition"]["longitude"] = lo
    params["vruHighFrequencyContainer"]["speed"]["speedValue"] = 120
    params["vruHighFrequencyContainer"]["heading"]["value"] = 900
    if info is not None:
        cid, card, shape = info
        vci = {"clusterCardinalitySize": card, "clusterProfiles": (b"\x80", 4)}
        if cid is not None:
            vci["clusterId"] = cid
        if shape == "c":
            vci["clusterBoundingBoxShape"] = ("circular", {"radius": 5})
        elif shape == "o":
            vci["clusterBoundingBoxShape"] = ("rectangular", {"semiLength": 5, "semiBreadth": 4})
        params["vruClusterInformationContainer"] = {"vruClusterInformation": vci}
    if opc is not None:
        j, l, b = opc
        oc = {}
        if j is not None:
            oc["clusterJoinInfo"] = {"clusterId": j, "joinTime": 8}
        if l is not None:
            oc["clusterLeaveInfo"] = {"clusterId": l, "clusterLeaveReason": "notProvided"}
        if b is not None:
            oc["clusterBreakupInfo"] = {"clusterBreakupReason": BRK_NAME_BY_CODE[b], "breakupTime": 8}
        params["vruClusterOperationContainer"] = oc
    if extra:
        asn = gen_vru.VamAsn.get()
        for path, value in extra:
            vam = asn.graft(vam, {"type": "VAM"}, tuple(path), _asn_value(value))
    dec = CODER.decode(CODER.encode(vam))
    if legacy and ALLOW_LEGACY[0] and info is not None and info[2] == "c":
        # the dict form the repository's own unit tests feed (never produced by the decoder)
        dec["vam"]["vamParameters"]["vruClusterInformationContainer"]["vruClusterInformation"][
            "clusterBoundingBoxShape"] = {"circular": {"radius": 5}}
    _VAM_CACHE[key] = dec
    return dec


def vam_line(key):
    sender, pos, info, opc = key[:4]
    o = lambda v: "-" if v is None else str(v)
    i = "-" if info is None else f"{o(info[0])},{info[1]},{info[2]}"
    c = "-" if opc is None else ",".join(o(v) for v in opc)
    return f"recv {sender} {pos[0]} {pos[1]} {i} {c}"


def op_line(op):
    k = op[0]
    if k == "create":
        return f"create {op[1]} {op[2]} {','.join(map(str, op[3])) or '-'}"
    if k in ("join", "leave", "brk"):
        return f"{k} {op[1]}"
    if k == "recv":
        return vam_line(vam_key(*op[1]))
    return k


# ------------------------------------------------------------------------------------------------ real side
def _shape_radius(x):
    if isinstance(x, tuple):
        return x[1].get("radius") if x[0] == "circular" else None
    if isinstance(x, dict) and "circular" in x:
        return x["circular"].get("radius")
    return None


def canon_info(c):
    if c is None:
        return None
    v = c["vruClusterInformation"]
    p = v.get("clusterProfiles")
    pb = None if p is None else (p[0][0] if isinstance(p, tuple) else p[0])
    return (v.get("clusterId"), _shape_radius(v.get("clusterBoundingBoxShape")), v.get("clusterCardinalitySize"), pb)


def canon_op(c):
    if c is None:
        return None
    out = {}
    if "clusterJoinInfo" in c:
        out["j"] = (c["clusterJoinInfo"]["clusterId"], c["clusterJoinInfo"]["joinTime"])
    if "clusterLeaveInfo" in c:
        out["l"] = (c["clusterLeaveInfo"]["clusterId"], LEAVE_BY_NAME.get(c["clusterLeaveInfo"]["clusterLeaveReason"], -1))
    if "clusterBreakupInfo" in c:
        out["b"] = (BRK_BY_NAME.get(c["clusterBreakupInfo"]["clusterBreakupReason"], -1), c["clusterBreakupInfo"]["breakupTime"])
    return out


def observe(m, ret=None, exc=None):
    o = {"ret": ret, "exc": exc}
    try:
        o["st"] = ST[m.state]
        o["tx"] = bool(m.should_transmit_vam())
        o["cid"] = m.get_cluster_id()
        o["info"] = canon_info(m.get_cluster_information_container())
        o["op"] = canon_op(m.get_cluster_operation_container())
        o["nv"], o["nc"] = m.get_nearby_vru_count(), m.get_nearby_cluster_count()
    except Exception as e:  # a query raised: reported by the oracle
        o.setdefault("st", "?")
        for k in ("tx", "cid", "info", "op", "nv", "nc"):
            o.setdefault(k, None)
        o["exc"] = "query:" + type(e).__name__
    # private membership fields, read only if they exist (oracle clause "known leader and armed timer")
    o["priv"] = tuple(getattr(m, a, "n/a") for a in ("_joined_cluster_id", "_leader_station_id", "_last_leader_vam_time"))
    return o


def obs_line(o):
    s = lambda v: "-" if v is None else str(v)
    ret = {None: "N", True: "T", False: "F"}.get(o["ret"], "?")
    info = "-" if o["info"] is None else ",".join(s(v) for v in o["info"])
    if not o["op"]:
        op = "-"
    else:
        op = "/".join(f"{k}:{o['op'][k][0]}:{o['op'][k][1]}" for k in ("j", "l", "b") if k in o["op"])
    err = 1 if (o["exc"] or "").endswith("AssertionError") else 0
    priv = o.get("priv") or ()
    if len(priv) == 3 and all(p != "n/a" for p in priv):
        # private membership fields (compared with the model only while the attributes exist under these names)
        last = "-" if priv[2] is None else str(round((_time_fn() - priv[2]) * 1000))
        mem = f"{s(priv[0])},{s(priv[1])},{last}"
    else:
        mem = "?"
    return (f"ret={ret} st={o['st']} tx={1 if o['tx'] else 0} cid={s(o['cid'])} info={info} op={op} "
            f"nv={o['nv']} nc={o['nc']} err={err} mem={mem}")


def same_obs(real_line, model_line):
    if real_line.endswith("mem=?"):
        return real_line.rsplit(" mem=", 1)[0] == model_line.rsplit(" mem=", 1)[0]
    return real_line == model_line


class Real:
    """one real VBSClusteringManager under a harness clock"""

    def __init__(self, now_ms, clock="fraction", own=1, profile="pedestrian"):
        self.ms, self.clock = now_ms, clock
        _NOW[0], _NOW[1] = now_ms, clock
        self.m = vc.VBSClusteringManager(own, profile, time_fn=_time_fn)

    def clone(self):
        n = Real.__new__(Real)
        n.ms, n.clock = self.ms, self.clock
        n.m = object.__new__(type(self.m))
        for k, v in self.m.__dict__.items():
            try:
                n.m.__dict__[k] = copy.deepcopy(v)
            except TypeError:       # the RLock
                n.m.__dict__[k] = v
        return n

    @classmethod
    def from_path(cls, base, path, clock="fraction"):
        r = cls(base, clock)
        for d, op in path:
            r.apply(d, op, observe_after=False)
        return r

    def apply(self, d, op, observe_after=True):
        self.ms += d
        _NOW[0], _NOW[1] = self.ms, self.clock
        ret, exc = call_op(self.m, op)
        return observe(self.m, ret, exc) if observe_after else None


def call_op(m, op):
    """one public-API call on a real manager; returns (return value, exception name)"""
    k, ret, exc = op[0], None, None
    try:
        if k == "on":
            m.set_vru_role_on()
        elif k == "off":
            m.set_vru_role_off()
        elif k == "create":
            RAND.q = list(op[3])
            la, lo = pos_deg(op[1], op[2])
            ret = m.try_create_cluster(la, lo)
        elif k == "join":
            ret = m.initiate_join(op[1])
        elif k == "cancel":
            m.cancel_join()
        elif k == "jfail":
            m.confirm_join_failed()
        elif k == "leave":
            m.trigger_leave_cluster(LEAVE_ENUM[op[1]])
        elif k == "brk":
            ret = m.trigger_breakup_cluster(BRK_ENUM[op[1]])
        elif k == "upd":
            la, lo = pos_deg(0, 0)
            m.update(la, lo, 1.2, 90.0)
        elif k == "recv":
            m.on_received_vam(build_vam(vam_key(*op[1])))
        elif k != "nop":
            raise Infra(f"unknown op {op}")
    except Infra:
        raise
    except dsched.SchedAbort:
        raise
    except Exception as e:
        exc = type(e).__name__
    return ret, exc


# ------------------------------------------------------------------------------------------------ oracle
class Oracle:
    """Trace checker transcribing the property text / TS 103 300-3 clause 5.4.2.2 (times: integer ms).
    Consumes (time, event, observation-after-event) of ONE station; `bad` collects (kind, detail)."""

    def __init__(self, float_clock=False):
        self.prev = "S"
        self.member = None    # {leader, cid, last}: joined cluster as the oracle understands it
        self.join = None      # {cid, t0, phase: notify|waiting, tw}
        self.notices = []     # pending leave notices {t, cid, reason, since}: each must be on the air for T_LEAVE
        self.brk = None       # {t, r}
        self.free = None      # break-up heard from the leader: must be free by the end of the next update
        self.qtol = 1 if float_clock else 0
        self.bad = []

    def clone(self):
        n = copy.copy(self)
        n.member, n.join, n.brk, n.free = (copy.copy(x) for x in (self.member, self.join, self.brk, self.free))
        n.notices = [dict(x) for x in self.notices]
        n.bad = []
        return n

    def _q(self, got, want):
        return abs(got - want) <= self.qtol

    @staticmethod
    def _matches(n, shown):
        return shown[0] == (n["cid"] or 0) and (n["reason"] is None or shown[1] == n["reason"])

    def _notice(self, t, cid, reason):
        """a leave notice is due: `clusterLeaveInfo` (cid, reason) has to be transmitted for timeClusterLeaveNotification"""
        self.notices.append({"t": t, "cid": cid, "reason": reason, "since": None})

    def event(self, t, op, o):
        bad = []
        k, st, prev, ret = op[0], o["st"], self.prev, o["ret"]
        vam = vam_key(*op[1]) if k == "recv" else None
        info = vam[2] if vam else None
        opc = vam[3] if vam else None
        sender = vam[0] if vam else None
        opo = o["op"] or {}
        if o["exc"]:
            bad.append(("api-raised", o["exc"]))
            self.bad += bad
            return bad
        # ---- consistency of the state (first sentence of the property)
        if (st == "L") != (o["info"] is not None):
            bad.append(("leader-iff-owns-cluster", f"state {st}, information container {o['info']}"))
        if o["info"] is not None:
            cid, _rad, card, _p = o["info"]
            if not (isinstance(cid, int) and 1 <= cid <= 255):
                bad.append(("leader-cluster-id-range", cid))
            if not (isinstance(card, int) and card >= 1):
                bad.append(("leader-cardinality", card))
            if o["cid"] != cid:
                bad.append(("leader-cluster-id-mismatch", (o["cid"], cid)))
        priv = o.get("priv", ())
        have_priv = priv and all(p != "n/a" for p in priv)
        if st == "P":
            if o["cid"] is None:
                bad.append(("passive-without-cluster", None))
            if have_priv and (priv[1] is None or priv[2] is None):
                bad.append(("passive-without-leader-or-timer", priv[1:]))
        else:
            if st != "L" and o["cid"] is not None:
                bad.append(("cluster-id-outside-membership", o["cid"]))
            if have_priv and any(p is not None for p in priv):
                bad.append(("membership-outside-passive", f"state {st}, joined/leader/timer {priv}"))
        if not o["tx"] and st not in ("I", "P"):
            bad.append(("suppressed-outside-passive-idle", st))
        # ---- entering / keeping membership
        if st == "P" and prev != "P":
            if k != "recv" or info is None:
                bad.append(("passive-without-cluster-vam", k))
                self.member = {"leader": None, "cid": o["cid"], "last": t}
            else:
                self.member = {"leader": sender, "cid": info[0] or 0, "last": t}
        # ---- join towards an advertised cluster completes on that cluster's VAM
        if (k == "recv" and self.join and self.join["phase"] == "waiting" and prev == "S" and info is not None
                and (info[0] or 0) == self.join["cid"]):
            brk_same = opc is not None and opc[2] is not None
            if st != "P" and not brk_same:
                bad.append(("join-not-completed", f"cluster VAM of {self.join['cid']} from {sender}, state stays {st}"))
            elif st == "P" and o["cid"] != self.join["cid"]:
                bad.append(("join-completed-wrong-cluster", o["cid"]))
            if brk_same and st == "S" and "l" in opo and opo["l"][0] == self.join["cid"]:
                # admitted and disbanded by the same cluster VAM: a leave notification for that cluster starts
                self._notice(t, self.join["cid"], LEAVE_CODE["CLUSTER_DISBANDED_BY_LEADER"])
                self.join = None
        # ---- leader silence
        if k == "upd" and prev == "P" and self.member is not None:
            silent = t - self.member["last"]
            if silent >= T_CONT and (st == "P" or not o["tx"]):
                bad.append(("leader-lost-not-detected", f"no cluster VAM for {silent} ms, state {st}, tx {o['tx']}"))
            if silent < T_CONT and st != "P" and self.member["leader"] is not None and self.free is None:
                # an update releases a member for ONE reason only: the leader was silent for timeClusterContinuity.  A
                # cluster VAM of the joined cluster from its leader (through the real coder) is a heartbeat whatever
                # else it carries ("cluster VAMs ... drive the peer's state machine")
                bad.append(("leader-lost-too-early", f"leader's cluster VAM heard {silent} ms ago (< {T_CONT}), state {st} after update"))
        # ---- break-up heard from the leader
        if k == "upd" and self.free is not None:
            if st == "P" or (st != "I" and not o["tx"]):
                bad.append(("breakup-not-freed", self.free["reason"]))
            self.free = None
        if k == "recv" and prev == "P" and self.member and sender == self.member["leader"] and opc and opc[2] is not None and st == "P":
            self.free = {"t": t, "reason": opc[2]}
        if k == "recv" and st == "P" and self.member and sender == self.member["leader"] and info is not None \
                and (info[0] or 0) == self.member["cid"]:
            self.member["last"] = t
        if prev == "P" and st != "P":
            cid = self.member["cid"] if self.member else None
            self.member, self.free = None, None
            if st == "S":
                why = op[1] if k == "leave" else LEAVE_CODE["CLUSTER_LEADER_LOST"] if k == "upd" else \
                    LEAVE_CODE["CLUSTER_DISBANDED_BY_LEADER"] if k == "recv" else None
                self._notice(t, cid, why)
        # ---- cluster creation / break-up warning
        if k == "create" and ret is True and (self.join is not None or self.notices):
            bad.append(("cluster-created-during-notification", "join" if self.join else "leave"))
        if prev == "L" and st == "S" and not (k == "upd" and self.brk is not None and t - self.brk["t"] >= T_BRK):
            bad.append(("cluster-dropped-without-breakup-warning", k))
        if k == "brk" and ret is True:
            self.brk = {"t": t, "r": op[1]}
        if self.brk is not None:
            el = t - self.brk["t"]
            if k == "off":
                self.brk = None
            elif el < T_BRK:
                want = max(1, min(127, (T_BRK - el) // 250))     # DeltaTimeQuarterSecond ::= INTEGER (1..255)
                if st != "L" or "b" not in opo or opo["b"][0] != self.brk["r"] or not self._q(opo["b"][1], want):
                    bad.append(("breakup-warning-cut-short", f"{el} ms after break-up: state {st}, container {opo}"))
            elif k == "upd":
                if st != "S" or o["info"] is not None or not o["tx"]:
                    bad.append(("breakup-warning-overrun", f"{el} ms after break-up: state {st}"))
                self.brk = None
        elif "b" in opo:
            bad.append(("breakup-info-without-breakup", opo))
        for tag in ("j", "b"):
            if tag in opo and not (1 <= opo[tag][1] <= 255):
                bad.append(("notification-time-not-encodable", opo))
        # ---- join notification
        if k == "off" or st == "I":
            self.join, self.notices = None, []
        if k == "join" and ret is True:
            if prev != "S":
                bad.append(("join-accepted-outside-standalone", prev))
            self.join = {"cid": op[1], "t0": t, "phase": "notify", "tw": None}
        elif self.join is not None:
            j = self.join
            if st == "P" or st == "L":
                self.join = None
            elif k == "cancel" or (k == "leave" and j["phase"] == "notify" and prev == "S"):
                self._notice(t, j["cid"], LEAVE_CODE["CANCELLED_JOIN"])
                self.join = None
            elif k == "jfail" and j["phase"] == "waiting":
                self._notice(t, j["cid"], LEAVE_CODE["FAILED_JOIN"])
                self.join = None
            elif k == "upd":
                if j["phase"] == "notify" and t - j["t0"] >= T_JOIN:
                    j["phase"], j["tw"] = "waiting", t
                elif j["phase"] == "waiting" and t - j["tw"] >= T_SUCC:
                    self._notice(t, j["cid"], LEAVE_CODE["FAILED_JOIN"])
                    self.join = None
        if st == "S":
            j = self.join
            if j is not None and j["phase"] == "notify":
                el = t - j["t0"]
                if el < T_JOIN:
                    want = max(1, min(127, (T_JOIN - el) // 250))
                    if "j" not in opo or opo["j"][0] != j["cid"] or not self._q(opo["j"][1], want):
                        bad.append(("join-notification-cut-short", f"{el} ms after initiate_join({j['cid']}): container {opo}"))
            elif "j" in opo:
                bad.append(("join-info-after-notification", opo))
            # ---- leave notifications.  Every notice due (cluster left / cancelled join / failed join) has to be on the
            # air for timeClusterLeaveNotification WITHOUT interruption once it has started; a VAM has one
            # `clusterLeaveInfo`, so notices that overlap go out one after the other (any order); a notice ends at the
            # first update after its duration.
            shown = opo.get("l")
            if k == "upd":
                for n in self.notices:
                    if n["since"] is not None and t - n["since"] >= T_LEAVE:
                        n["done"] = True
                        if shown is not None and self._matches(n, shown) and \
                                not any(self._matches(x, shown) for x in self.notices if x is not n and not x.get("done")):
                            bad.append(("leave-notification-overrun", f"{t - n['since']} ms on the air: {opo}"))
                self.notices = [n for n in self.notices if not n.get("done")]
            cur = None
            if shown is not None:
                cur = next((n for n in self.notices if self._matches(n, shown)), None)
                if cur is None:
                    bad.append(("leave-info-without-leave", opo))
                elif cur["since"] is None:
                    cur["since"] = t
            for n in self.notices:
                if n is cur:
                    continue
                if n["since"] is not None:
                    if t - n["since"] < T_LEAVE:
                        bad.append(("leave-notification-cut-short",
                                    f"{t - n['since']} ms after it started (leaving {n['cid']}, reason {n['reason']}): container {opo}"))
                        n["since"], n["flagged"] = None, True
                    else:
                        n["done"] = True        # had its full duration, replaced by the next one / gone
                elif cur is None and not n.get("flagged"):
                    bad.append(("leave-notification-cut-short",
                                f"{t - n['t']} ms after leaving {n['cid']} (reason {n['reason']}): nothing on the air, container {opo}"))
                    n["flagged"] = True
            self.notices = [n for n in self.notices if not n.get("done")]
        elif st in ("P", "L"):
            self.notices = []
        self.prev = st
        self.bad += bad
        return bad


def classify(kind, detail):
    """known-finding id whose signature the violation falls under (decided here, not in the JSON)"""
    if kind == "breakup-not-freed" and detail == CPM:
        return "C18-KF1"
    return None


def regression_of(kind, detail):
    """fixed finding a violation of this kind would be a regression of (a label only: fixed entries suppress nothing)"""
    if kind == "leave-notification-cut-short":
        m = re.search(r"'l': \((\d+), (\d+)\)", str(detail))
        if m and int(m.group(2)) in (LEAVE_CODE["CANCELLED_JOIN"], LEAVE_CODE["FAILED_JOIN"]):
            return "C18-F6"
    return REGRESSION_OF.get(kind)


REGRESSION_OF = {   # violation kind -> fixed finding it would be a regression of (fixed entries suppress nothing)
    "join-not-completed": "C18-F1", "cluster-vam-not-encodable": "C18-F1", "leader-lost-not-detected": "C18-F2",
    "leave-notification-cut-short": "C18-F3", "cluster-created-during-notification": "C18-F4",
    "join-info-after-notification": "C18-F4", "leave-info-without-leave": "C18-F4",
    "join-notification-cut-short": "C18-F5", "breakup-warning-cut-short": "C18-F5", "vam-not-encodable": "C18-F5",
    "notification-time-not-encodable": "C18-F5",
}


# ------------------------------------------------------------------------------------------------ variant detection
def _passive_real(clock="fraction"):
    r = Real(1_000_000, clock)
    r.apply(0, ("join", 9))
    r.apply(T_JOIN, ("upd",))
    o = r.apply(50, ("recv", (21, (300, 0), (9, 2, "o"))))
    return r, o


def detect_variant():
    """which variant of the model the code in $FLEXSTACK_REPO matches (each decided by running its witness)"""
    r, o = _passive_real()
    if o["st"] != "P":
        raise Infra("cannot reach VRU_PASSIVE through the public API (rectangular-shaped cluster VAM)")
    cpm = r.clone().apply(50, ("recv", (21, (300, 0), (9, 2, "o"), (None, None, CPM))))["st"] != "P"
    r2 = r.clone()
    r2.apply(T_CONT - 500, ("recv", (21, (300, 0))))
    hb_any = r2.apply(600, ("upd",))["st"] == "P"
    w = Real(1_000_000)
    w.apply(0, ("join", 9))
    w.apply(T_JOIN, ("upd",))
    tup = w.apply(50, ("recv", (21, (300, 0), (9, 2, "c"))))["st"] != "P"
    r3 = r.clone()
    r3.apply(0, ("leave", 0))
    hide = "l" not in (r3.apply(50, ("join", 5))["op"] or {})
    c = Real(1_000_000)
    for i, p in enumerate(VAM_POS[:3]):
        c.apply(0, ("recv", (30 + i, p)))
    c.apply(0, ("join", 9))
    cdn = c.apply(50, ("create", 0, 0, [7]))["ret"] is True
    r4 = r.clone()
    r4.apply(0, ("leave", 0))
    r4.apply(50, ("join", 5))
    chl = (r4.apply(50, ("cancel",))["op"] or {}).get("l", (None,))[0] == 5     # cancelled-join notice replaces the leave notice
    return {"cpmFrees": cpm, "hbAny": hb_any, "tupleFails": tup, "joinHidesLeave": hide, "createDuringNotify": cdn,
            "cancelHidesLeave": chl}


def new_line(var, now_ms, profiles=0x80):
    b = lambda k: 1 if var[k] else 0
    return (f"new {b('cpmFrees')} {b('hbAny')} {b('tupleFails')} {b('joinHidesLeave')} {b('createDuringNotify')} "
            f"{b('cancelHidesLeave')} {profiles} {now_ms}")


def encode_witness():
    """the leader's cluster VAM through the real coder; returns None if fine, else the error kind"""
    c = Real(1_000_000)
    for i, p in enumerate(VAM_POS[:3]):
        c.apply(0, ("recv", (30 + i, p)))
    if c.apply(50, ("create", 0, 0, [7]))["ret"] is not True:
        return "create-refused"
    vam = copy.deepcopy(VAMMessage().vam)
    vam["vam"]["vamParameters"]["vruClusterInformationContainer"] = c.m.get_cluster_information_container()
    try:
        dec = CODER.decode(CODER.encode(vam))
    except Exception as e:
        return type(e).__name__
    got = canon_info(dec["vam"]["vamParameters"].get("vruClusterInformationContainer"))
    return None if got == (7, 5, 1, 0x80) else f"decoded {got}"


# ------------------------------------------------------------------------------------------------ sequences
class Batch:
    """sequence cases whose model runs are batched into ONE driver call (start-up dominates)"""

    def __init__(self):
        self.lines, self.items = [], []

    def add(self, case, lines, expect):
        """lines: driver input of the case (first one is `new`); expect: [(index into lines, op index, real line)]"""
        self.items.append((case, len(self.lines), expect))
        self.lines += lines

    def flush(self, ctx, var):
        if not self.items or not ctx.model_ok:
            return
        out = ctx.model("Cluster", self.lines)
        for case, start, expect in self.items:
            for li, oi, a in expect:
                b = out[start + li].split(" # ")[0]
                if not same_obs(a, b):
                    ctx.mismatch("cluster.emit" if a.startswith(("recv", "none")) else "cluster.seq",
                                 {"clock": case.get("clock", "fraction"), "base": case.get("base", 1_000_000),
                                  "ops": case["ops"][:oi + 1]}, a, b)
                    break
        self.lines, self.items = [], []


class Emitter:
    """the real transmission path of ONE manager: VAMTransmissionManagement (gate `should_transmit_vam`, attachment of
    the two cluster containers) and the real coder.  `emit` forces the generation condition (no VAM sent yet) so that the
    VAM the station WOULD put on the air now is produced, decodes it and renders it in the syntax of the `recv` op."""
    _cache = {}

    def __init__(self, mgr, sid=1):
        self.mgr, self.sid, self.btp = mgr, sid, _Btp()
        self.tm = VAMTransmissionManagement(btp_router=self.btp, vam_coder=CODER,
                                            device_data_provider=DeviceDataProvider(station_id=sid, station_type=1),
                                            clustering_manager=mgr)

    def emit(self, now_ms, o):
        """returns (line, error): line as the model's `emit <sid> 0 0` prints it"""
        key = (self.sid, o["st"], o["tx"], o["info"], tuple(sorted((o["op"] or {}).items())))
        if key in Emitter._cache:
            return Emitter._cache[key]
        self.tm.last_vam_generation_delta_time = None
        la, lo = pos_deg(0, 0)
        tpv = {"class": "TPV", "time": datetime.datetime.fromtimestamp(now_ms / 1000.0, datetime.timezone.utc).isoformat().replace("+00:00", "Z"),
               "lat": la, "lon": lo, "speed": 1.2, "track": 90.0, "altHAE": 12.0, "epx": 1.0, "epy": 1.0, "epv": 1.0}
        try:
            with rs.quiet():
                self.tm.location_service_callback(tpv)
            sent = self.btp.take()
            if not sent:
                res = ("none", None)
            else:
                sender, info, opc = summarise(CODER.decode(sent[-1]))
                res = (vam_line(vam_key(sender, (0, 0), info, opc)), None)
        except Exception as e:
            self.btp.take()
            res = (None, f"{type(e).__name__}: {str(e)[:120]}")
        Emitter._cache[key] = res
        return res


def ids_encodable(o):
    """cluster ids handed to initiate_join are ClusterId values (0..255) - recorded assumption; outside it the
    operation container is not a VAM container and the emission tie is skipped"""
    return all(isinstance(v[0], int) and 0 <= v[0] <= 255 for tag, v in (o["op"] or {}).items() if tag in ("j", "l"))


PROFILE_MASK = {"pedestrian": 0x80, "bicyclistAndLightVruVehicle": 0x40, "motorcyclist": 0x20, "animal": 0x10, "unheardOf": 0}


def run_seq(ctx, var, case, batch=None, record=None, emit=True):
    """one event sequence on the real manager (+ oracle); model comparison deferred to `batch`.  Returns oracle findings.
    After every event the VAM the station would emit (real gate + containers + real coder) is compared with the
    model's `emitVam` (tie of the two-station composition theorems) and must be encodable."""
    clock, base = case.get("clock", "fraction"), case.get("base", 1_000_000)
    ops = [(d, _tup(op)) for d, op in case["ops"]]
    profile = case.get("profile", "pedestrian")
    real, orc = Real(base, clock, profile=profile), Oracle(clock == "float")
    em = Emitter(real.m) if emit else None
    judge = case.get("judge", True)      # False: correspondence only (input outside the oracle's assumptions)
    lines, expect, found = [new_line(var, base, PROFILE_MASK[profile]) if var else "new"], [], []
    with rs.VClock(base) as vclock:
        for i, (d, op) in enumerate(ops):
            o = real.apply(d, op)
            for b in (orc.event(real.ms, op, o) if judge else ()):
                found.append((i, b))
            lines.append(f"{d} {op_line(op)}")
            expect.append((len(lines) - 1, i, obs_line(o)))
            if em is not None and not o["exc"] and ids_encodable(o):
                vclock.ms = real.ms
                line, err = em.emit(real.ms, o)
                if err:
                    found.append((i, ("vam-not-encodable", f"state {o['st']}, containers {o['info']} {o['op']}: {err}")))
                else:
                    lines.append("emit 1 0 0")
                    expect.append((len(lines) - 1, i, line))
                    if (line != "none") != bool(o["tx"]):
                        found.append((i, ("emitted-while-suppressed" if line != "none" else "allowed-but-silent",
                                          f"state {o['st']}, should_transmit {o['tx']}, emitted {line}")))
            if record is not None:
                record.append((real.ms, op, o))
    ctx.evals(len(ops))
    ctx.cover("emit_checks", sum(1 for e in expect if e[2].startswith(("recv", "none"))))
    if batch is not None:
        batch.add(case, lines, expect)
    return found


def _tup(op):
    op = list(op)
    if op[0] == "recv":
        v = list(op[1])
        v[1] = tuple(v[1])
        for i in (2, 3):
            if len(v) > i and v[i] is not None:
                v[i] = tuple(v[i])
        if len(v) > 5 and v[5] is not None:
            v[5] = _freeze(v[5])
        op[1] = tuple(v)
    elif op[0] == "create":
        op[3] = list(op[3])
    return tuple(op)


def first_of_kind(ctx, kind, detail):
    """one witness per violation kind is reported (the pipeline prints the first three violations: they should be three
    different kinds, not three histories of the same defect); cases under a known finding are always counted"""
    if classify(kind, detail) is not None:
        return True
    seen = ctx.__dict__.setdefault("_c18_kinds_reported", set())
    if kind in seen:
        ctx.cover("further_witnesses_" + kind)
        return False
    seen.add(kind)
    return True


def report(ctx, case, found, shrink=True):
    """turn oracle findings of a sequence case into ctx.violation calls (shrunk replay)"""
    seen = set()
    for i, (kind, detail) in found:
        if kind in seen or not first_of_kind(ctx, kind, detail):
            continue
        seen.add(kind)
        small = dict(case, ops=[list(x) for x in case["ops"][:i + 1]])
        if shrink:
            small = shrink_seq(small, kind)
        fid = classify(kind, detail) or regression_of(kind, detail)
        ctx.violation(f"{kind}: {detail}", dict(small, kind="seq", expect=kind), fid)


class _NoCtx:
    def evals(self, n=1):
        pass

    def cover(self, *a):
        pass


def seq_kinds(case):
    return [b[0] for _, b in run_seq(_NoCtx(), None, case)]


def shrink_seq(case, kind, budget=300):
    ops = list(case["ops"])
    i = 0
    while i < len(ops) and budget > 0:
        trial = ops[:i] + ops[i + 1:]
        if i < len(ops) - 1 and trial:     # keep elapsed time: move the removed step's delay to the next op
            trial[i] = [trial[i][0] + ops[i][0], trial[i][1]]
        budget -= 1
        if trial and kind in seq_kinds(dict(case, ops=trial)):
            ops = trial
        else:
            i += 1
    return dict(case, ops=ops)


# alphabet of the exhaustive exploration: own station 1, cluster A = 9 led by station 21, bystander 22, own cluster id 7
A, LDR, OTH = 9, 21, 22
P_L, P_O = (300, 0), (0, 480)


def alphabet(thorough):
    ops = [("on",), ("off",), ("create", 0, 0, [7]), ("join", A), ("cancel",), ("jfail",), ("leave", 0), ("brk", CPM),
           ("upd",),
           ("recv", (LDR, P_L)), ("recv", (OTH, P_O)),
           ("recv", (LDR, P_L, (A, 2, "c"))), ("recv", (OTH, P_O, (A, 3, "o"))), ("recv", (LDR, P_L, (7, 1, "c"))),
           ("recv", (OTH, P_O, None, (7, None, None))),
           ("recv", (LDR, P_L, (A, 2, "c"), (None, None, 1))), ("recv", (LDR, P_L, (A, 2, "c"), (None, None, CPM))),
           ("recv", (OTH, P_O, None, (None, None, 2)))]
    if thorough:
        ops += [("brk", 1), ("recv", (OTH, P_O, None, (None, 7, None))), ("create", 1000, 0, [A, 7]), ("join", 0), ("leave", 8),
                ("recv", (23, (300, 380))), ("recv", (OTH, P_O, (7, 1, "a"))), ("recv", (LDR, P_L, (None, 1, "c"))),
                ("recv", (LDR, P_L, None, (None, None, 1))), ("recv", (23, (300, 380), None, (7, 7, None)))]
    return ops


TICKS = (50, 250, 1000, 3000)
NEIGH = [(0, ("recv", (31, (0, 0)))), (0, ("recv", (32, (300, 0)))), (0, ("recv", (33, (0, 480))))]
ROOTS = {
    "fresh": [],
    "neighbours": NEIGH,
    "leader": NEIGH + [(50, ("create", 0, 0, [7]))],
    "waiting": [(0, ("join", A)), (T_JOIN, ("upd",))],
    "passive": [(0, ("join", A)), (T_JOIN, ("upd",)), (50, ("recv", (LDR, P_L, (A, 2, "o"))))],
}


def explore(ctx, var, jobs, alpha):
    """Level-synchronous exhaustive exploration (one model call per level for all jobs).
    job = {root, depth, cap, exact}; children are pruned by the model's canonical state:
    exact=True  : the whole state (ages relative to now capped at their threshold, dead fields dropped) - a
                  bisimulation quotient, so the enumeration is complete for that depth;
    exact=False : control state only (state, sub-states, timers, own cluster, membership) plus table sizes -
                  deeper, but sequences differing only in table ages are represented by one of them."""
    base = 1_000_000
    edges = [(d, op) for op in alpha for d in TICKS]
    for job in jobs:
        root_ops = ROOTS[job["root"]]
        real, orc = Real(base), Oracle()
        for d, op in root_ops:
            orc.event(real.ms + d, op, real.apply(d, op))
        if orc.bad:
            report(ctx, {"clock": "fraction", "base": base, "ops": [[d, list(op)] for d, op in root_ops]},
                   [(len(root_ops) - 1, b) for b in orc.bad])
        job.update(frontier=[(orc, list(root_ops))], seen=set(), edges=0, complete=True)
    level = 0
    while any(j["frontier"] and level < j["depth"] for j in jobs):
        lines, recs = [], []
        for ji, job in enumerate(jobs):
            if level >= job["depth"]:
                job["frontier"] = []
            for (orc, path) in job["frontier"]:
                lines.append(new_line(var, base))
                lines += [f"{d} {op_line(op)}" for d, op in path]
                lines.append("save")
                for d, op in edges:
                    r2, o2 = Real.from_path(base, path), orc.clone()
                    obs = r2.apply(d, op)
                    bad = o2.event(r2.ms, op, obs)
                    if bad:
                        report(ctx, {"clock": "fraction", "base": base, "ops": [[x, list(y)] for x, y in path + [(d, op)]]},
                               [(len(path), b) for b in bad])
                    lines.append(f"@ {d} {op_line(op)}")
                    recs.append((len(lines) - 1, ji, o2, path + [(d, op)], obs_line(obs), op[0], obs["st"]))
                job["edges"] += len(edges)
        ctx.evals(len(recs))
        nxt = [[] for _ in jobs]
        if ctx.model_ok:
            out = ctx.model("Cluster", lines)
            for (idx, ji, o2, path, a, kind, st) in recs:
                job = jobs[ji]
                b, _, dig = out[idx].partition(" # ")
                if not job["exact"]:
                    dig = dig.split(" ## ")[0] + " " + " ".join(t for t in b.split() if t[:3] in ("nv=", "nc="))
                if not same_obs(a, b):
                    ctx.mismatch("cluster.exhaustive", {"root": job["root"], "ops": [[x, list(y)] for x, y in path]}, a, b)
                    # model and code have parted: keep exploring the REAL side below this point (judged by the oracle
                    # only, pruned by the real observation) so that the concrete failing history is found here
                    key = ("diverged", a, sum(x for x, _ in path), o2.prev, bool(o2.member), bool(o2.join), len(o2.notices))
                    if key not in job["seen"] and len([1 for k in job["seen"] if isinstance(k, tuple)]) < 400:
                        job["seen"].add(key)
                        nxt[ji].append((o2, path))
                    continue
                ctx.cover(f"ex_{kind}_{st}")
                if dig not in job["seen"]:
                    job["seen"].add(dig)
                    ctx.nontrivial(("state", job["exact"], dig))
                    nxt[ji].append((o2, path))
        else:
            for (idx, ji, o2, path, a, kind, st) in recs:
                nxt[ji].append((o2, path))
        level += 1
        for ji, job in enumerate(jobs):
            if len(nxt[ji]) > job["cap"] or (not ctx.model_ok and nxt[ji]):
                job["complete"] = False
                ctx.rng.shuffle(nxt[ji])
                nxt[ji] = nxt[ji][:job["cap"] if ctx.model_ok else 40]
            job["frontier"] = nxt[ji]
            if level <= job["depth"]:
                ctx.cover(f"ex_{'exact' if job['exact'] else 'ctrl'}_{job['root']}_level{level}_states", len(nxt[ji]))
    return jobs


def random_case(ctx, length, clock, profile="mixed"):
    """profile 'mixed': uniform over the API; 'member': starts as a passive member of cluster A led by LDR and mostly
    hears VAMs (of its leader for A / for other cluster ids, of other stations for A, individual VAMs) and updates, so
    that long passive histories are explored; 'leader': starts as the leader of cluster 7 and mostly hears join / leave
    notices, break-up commands and updates"""
    rng = ctx.rng
    ids = [A, 7, 0, rng.randrange(1, 256), 255, 300]
    senders = [LDR, OTH, 23, 24, 1]
    boundary = [t + e for t in THRESHOLDS for e in (-1, 0, 1)]
    ops, now, armed = [], 1_000_000, {1_000_000}
    prefix = {"member": ROOTS["passive"], "leader": ROOTS["leader"]}.get(profile, [])
    for d, op in prefix:
        now += d
        armed.add(now)
        ops.append([d, _listify(op)])
    while len(ops) < length:
        if profile != "mixed" and len(ops) % 50 == 49:
            # back to the profile's state (role off/on forgets everything, then the root again)
            for d, op in [(0, ("off",)), (0, ("on",))] + list(prefix):
                now += d
                armed.add(now)
                ops.append([d, _listify(op)])
            continue
        r = rng.random()
        if profile != "mixed" and r < 0.75:
            d = rng.choice((0, 50, 100, 250, 400, 500, 900, 1000)) if r < 0.6 else rng.choice(boundary[:9] + [1999, 2000, 2001])
        elif r < 0.35:
            d = rng.choice(TICKS)
        elif r < 0.6:
            d = rng.choice(boundary)
        elif r < 0.7:
            d = 0
        else:
            d = rng.randrange(1, 4000)
        if clock == "float":
            # float seconds: stay >= 1 ms away from every (earlier event time + threshold) and from the
            # quarter-second steps of joinTime/breakupTime counted from an earlier event
            while any((now + d) - a in THRESHOLDS or ((now + d) != a and ((now + d) - a) % 250 == 0) for a in armed):
                d += 1
        now += d
        armed = {a for a in armed if now - a <= THRESHOLDS[-1] + 1000} | {now}
        x = rng.random()
        if profile == "member" and x < 0.85:
            if x < 0.25:
                op = ("upd",)
            else:
                sender = rng.choice([LDR, LDR, LDR, OTH, 23])
                info = None
                if rng.random() < 0.75:
                    info = (rng.choice([A, A, A, 7, 0, None, rng.randrange(0, 256)]), rng.choice([1, 2, 20]), rng.choice("aco"))
                opc = None
                if rng.random() < 0.12:
                    opc = (rng.choice([None, 7, A]), rng.choice([None, A]), rng.choice([None, None, 1, CPM]))
                op = ("recv", (sender, P_L if sender == LDR else rng.choice(VAM_POS), info, opc))
        elif profile == "leader" and x < 0.85:
            if x < 0.25:
                op = ("upd",)
            elif x < 0.32:
                op = ("brk", rng.randrange(0, 6))
            else:
                sender = rng.choice([OTH, 23, 24, 31, 32])
                info = (rng.choice([7, A, None]), rng.choice([1, 2]), rng.choice("aco")) if rng.random() < 0.2 else None
                opc = (rng.choice([None, 7, 7, A]), rng.choice([None, None, 7]), rng.choice([None, None, None, 1]))
                op = ("recv", (sender, rng.choice(VAM_POS), info, opc))
        elif x < 0.22:
            op = ("upd",)
        elif x < 0.27:
            op = ("on",) if rng.random() < 0.6 else ("off",)
        elif x < 0.34:
            op = ("create", *rng.choice(OWN_POS), [rng.choice([7, A, rng.randrange(1, 256)]) for _ in range(rng.randrange(1, 4))])
        elif x < 0.42:
            op = ("join", rng.choice(ids))
        elif x < 0.46:
            op = ("cancel",)
        elif x < 0.49:
            op = ("jfail",)
        elif x < 0.54:
            op = ("leave", rng.randrange(0, 9))
        elif x < 0.60:
            op = ("brk", rng.randrange(0, 6))
        else:
            sender = rng.choice(senders)
            pos = rng.choice(VAM_POS)
            info = None
            if rng.random() < 0.5:
                info = (rng.choice([A, A, 7, 0, None, rng.randrange(0, 256)]), rng.choice([0, 1, 2, 20, 255]), rng.choice("aco"))
            opc = None
            if rng.random() < 0.4:
                opc = (rng.choice([None, 7, A]), rng.choice([None, None, 7, A]),
                       rng.choice([None, None, 0, 1, CPM, rng.randrange(0, 6)]))
            v = (sender, pos, info, opc)
            if info is not None and info[2] == "c" and rng.random() < 0.15:
                v = v + (True,)      # legacy dict-shaped bounding box
            op = ("recv", v)
        ops.append([d, _listify(op)])
    return {"clock": clock, "base": 1_000_000, "ops": ops}


def _listify(op):
    return list(op)


PROFILES = ("mixed", "member", "mixed", "leader", "member", "mixed")


def special_cases(ctx):
    """inputs the random generator does not produce: clock origin 0 / 1 ms (the `started or now` idiom), the 100-draw
    limit of the cluster-id generator, own profiles other than pedestrian"""
    out = []
    # manager created at the epoch: join started at t = 0 is 'falsy' (`self._join_started or now`): joinTime does not
    # count down - outside the recorded assumption (POSIX clock, hypothesis `0 < t0` of join_notification_lasts):
    # model and code are compared, the oracle is not asked
    out.append({"clock": "fraction", "base": 0, "judge": False,
                "ops": [[0, ["join", 9]], [500, ["upd"]], [2400, ["nop"]], [100, ["upd"]], [400, ["upd"]], [100, ["upd"]]]})
    c = random_case(ctx, 120, "fraction")
    out.append(dict(c, base=1))
    # cluster-id generator: 100 draws that are all recently seen ids, the 101st would be free -> creation fails
    seen_ids = [A, 7]
    pre = [[0, ["recv", [31, [0, 0], None, None]]], [0, ["recv", [32, [300, 0], None, None]]], [0, ["recv", [33, [0, 480], None, None]]],
           [0, ["recv", [LDR, list(P_L), [A, 2, "c"], None]]], [0, ["recv", [OTH, list(P_O), [7, 2, "c"], None]]]]
    out.append({"clock": "fraction", "base": 1_000_000,
                "ops": pre + [[50, ["create", 0, 0, [seen_ids[i % 2] for i in range(100)] + [55]]], [50, ["create", 0, 0, [A] * 99 + [55]]],
                              [0, ["upd"]]]})
    for prof in ("bicyclistAndLightVruVehicle", "animal", "unheardOf"):
        out.append(dict(random_case(ctx, 150, "fraction", "leader"), profile=prof))
    return out


def check_positions():
    for own in OWN_POS:
        for p in VAM_POS:
            if not pair_ok(own, p):
                raise Infra(f"grid positions {own}/{p} too close to MAX_CLUSTER_DISTANCE for the float/grid tie")


# ------------------------------------------------------------------------------------------------ closed loops
class _Btp:
    def __init__(self):
        self.sent = []

    def btp_data_request(self, req):
        self.sent.append(bytes(req.data))

    def register_indication_callback_btp(self, port, callback):
        self.cb = callback

    def take(self):
        s, self.sent = self.sent, []
        return s


def summarise(vam):
    """(sender, info, opc) of a decoded VAM, read by the harness from the decoder's output"""
    p = vam["vam"]["vamParameters"]
    info = opc = None
    ci = p.get("vruClusterInformationContainer")
    if ci:
        v = ci["vruClusterInformation"]
        sh = v.get("clusterBoundingBoxShape")
        info = (v.get("clusterId"), v.get("clusterCardinalitySize"),
                "a" if sh is None else "c" if (isinstance(sh, tuple) and sh[0] == "circular") else "o")
    oc = p.get("vruClusterOperationContainer")
    if oc:
        opc = (oc.get("clusterJoinInfo", {}).get("clusterId"), oc.get("clusterLeaveInfo", {}).get("clusterId"),
               BRK_ASN.get(oc["clusterBreakupInfo"]["clusterBreakupReason"], -1) if "clusterBreakupInfo" in oc else None)
    return vam["header"]["stationId"], info, opc


class Station:
    def __init__(self, sid, pos):
        self.sid, self.pos, self.alive, self.in_range = sid, pos, True, True
        self.mgr = vc.VBSClusteringManager(sid, "pedestrian", time_fn=_time_fn)
        self.btp = _Btp()
        self.tm = VAMTransmissionManagement(btp_router=self.btp, vam_coder=CODER,
                                            device_data_provider=DeviceDataProvider(station_id=sid, station_type=1),
                                            clustering_manager=self.mgr)
        self.rm = VAMReceptionManagement(vam_coder=CODER, btp_router=self.btp, clustering_manager=self.mgr)
        self.orc = Oracle(float_clock=True)
        self.bad = []
        self.last_tx = None
        self.trace = []

    def ev(self, t, op, ret=None, exc=None):
        o = observe(self.mgr, ret, exc)
        self.trace.append((t, op[0], o["st"]))
        for b in self.orc.event(t, op, o):
            self.bad.append((t, b))
        return o


def run_loop(ctx, case, verbose=False):
    """closed loop of real stations; returns list of (station, time, (kind, detail))"""
    rng = _random.Random(case["seed"])
    n, scen, loss = case["n"], case["scenario"], case.get("loss", 0.0)
    reason = case.get("reason", 1)
    base = 1_700_000_000_000 + rng.randrange(0, 1000) * 1000
    _NOW[0], _NOW[1] = base, "float"
    found = []
    pts = [(0, 0), (300, 0), (0, 300)]
    sts = [Station(101 + i, pts[i]) for i in range(n)]
    a, b = sts[0], sts[1]
    ghosts = [(201 + i, p) for i, p in enumerate([(100, 100), (-100, 100), (100, -100)])]
    with rs.VClock(base) as vclock:
        t_end = base + case.get("duration", 14000)
        script = {}          # time offset (ms) -> list of actions
        cid_pick = rng.randrange(1, 256)
        t_create = 1037
        t_join = t_create + 500 + rng.randrange(0, 8) * 100
        t_act = t_join + T_JOIN + 1500 + rng.randrange(0, 10) * 100
        script[t_create] = [("create", a)]
        script[t_join] = [("join", b)] + ([("join", sts[2])] if n == 3 and rng.random() < 0.6 else [])
        script[t_act] = [(scen, None)]
        now = base
        step = 100
        while now < t_end:
            for off in sorted(k for k in script if now - base <= k < now - base + step):
                vclock.ms = _NOW[0] = base + off
                for act, who in script[off]:
                    if act == "create":
                        RAND.q = [cid_pick]
                        la, lo = pos_deg(*who.pos)
                        who.ev(_NOW[0], ("create", who.pos[0], who.pos[1], [cid_pick]), who.mgr.try_create_cluster(la, lo))
                    elif act == "join":
                        seen = [c for c in who.mgr._nearby_clusters] if hasattr(who.mgr, "_nearby_clusters") else [cid_pick]
                        target = seen[0] if seen else cid_pick
                        who.ev(_NOW[0], ("join", target), who.mgr.initiate_join(target))
                    elif act == "silence":
                        a.alive = False
                    elif act == "outofrange":
                        a.in_range = False
                    elif act == "breakup":
                        a.ev(_NOW[0], ("brk", reason), a.mgr.trigger_breakup_cluster(BRK_ENUM[reason]))
                    elif act == "leave":
                        b.mgr.trigger_leave_cluster(LEAVE_ENUM[reason % 9])
                        b.ev(_NOW[0], ("leave", reason % 9))
                    elif act == "leader_off":
                        a.mgr.set_vru_role_off()
                        a.ev(_NOW[0], ("off",))
                    elif act == "cancel":
                        b.mgr.cancel_join()
                        b.ev(_NOW[0], ("cancel",))
                    elif act == "refound":
                        # the leader abandons its cluster without notice (role off/on) and founds a NEW cluster under
                        # another id within timeClusterContinuity: its cluster VAMs must not keep the old members passive
                        a.mgr.set_vru_role_off()
                        a.ev(_NOW[0], ("off",))
                        a.mgr.set_vru_role_on()
                        a.ev(_NOW[0], ("on",))
                        script.setdefault(off + 300 + 100 * rng.randrange(0, 8), []).append(("create2", a))
                    elif act == "create2":
                        cid2 = 1 + (cid_pick + 36) % 255
                        RAND.q = [cid2]
                        la, lo = pos_deg(*who.pos)
                        who.ev(_NOW[0], ("create", who.pos[0], who.pos[1], [cid2]), who.mgr.try_create_cluster(la, lo))
            now += step
            vclock.ms = _NOW[0] = now
            air = []
            if (now - base) % 1000 == 0:
                for gid, gp in ghosts:
                    air.append((None, CODER.encode(_plain_vam(gid, gp, now))))
            for s in sts:
                if not s.alive:
                    continue
                la, lo = pos_deg(*s.pos)
                exc = None
                try:
                    s.mgr.update(la, lo, 1.2, 90.0)
                except Exception as e:
                    exc = type(e).__name__
                o = s.ev(now, ("upd",), None, exc)
                tpv = {"class": "TPV", "time": datetime.datetime.fromtimestamp(now / 1000.0, datetime.timezone.utc).isoformat().replace("+00:00", "Z"),
                       "lat": la, "lon": lo, "speed": 1.2, "track": 90.0, "altHAE": 12.0, "epx": 1.0, "epy": 1.0, "epv": 1.0}
                try:
                    s.tm.location_service_callback(tpv)
                except Exception as e:
                    s.bad.append((now, ("cluster-vam-not-encodable" if o["st"] == "L" else "vam-not-encodable",
                                        f"{type(e).__name__}: {str(e)[:160]}")))
                for data in s.btp.take():
                    if not o["tx"]:
                        s.bad.append((now, ("emitted-while-suppressed", o["st"])))
                    s.last_tx = now
                    dec = CODER.decode(data)
                    _, info, opc = summarise(dec)
                    if (o["st"] == "L") != (info is not None) or (info is not None and o["info"] is not None and info[0] != o["info"][0]):
                        s.bad.append((now, ("emitted-vam-container-mismatch", f"state {o['st']}, info {info}")))
                    if bool(o["op"]) != (opc is not None):
                        s.bad.append((now, ("emitted-vam-container-mismatch", f"op container {o['op']} vs {opc}")))
                    if s.in_range:
                        air.append((s, data))
                # "transmitting again": a station allowed to transmit emits within T_GenVamMax
                if o["tx"] and s.last_tx is not None and now - s.last_tx > int(K.T_GENVAMMAX) + step:
                    s.bad.append((now, ("allowed-but-silent", now - s.last_tx)))
            for src, data in air:
                for s in sts:
                    if s is src or not s.alive or (src is not None and rng.random() < loss):
                        continue
                    sender, info, opc = summarise(CODER.decode(data))
                    exc = None
                    try:
                        with rs.quiet():
                            s.rm.reception_callback(types.SimpleNamespace(data=data))
                    except Exception as e:
                        exc = type(e).__name__
                    s.ev(now, ("recv", (sender, (0, 0), info, opc)), None, exc)
        # end-to-end expectations of the scenario (property text, last sentence)
        joined = [t for t, k, st in b.trace if st == "P"]
        if not joined and scen != "cancel" and loss == 0.0:
            b.bad.append((now, ("join-not-completed", f"station {b.sid} never became passive towards the advertised cluster")))
        for s in sts:
            if s.alive and s.mgr.state is not vc.VBSState.VRU_IDLE and \
                    not (a.alive and a.in_range and ST[a.mgr.state] == "L" and a.mgr.get_cluster_id() == s.mgr.get_cluster_id()):
                if ST[s.mgr.state] == "P" and scen in ("silence", "outofrange", "breakup", "leader_off", "refound"):
                    s.bad.append((now, ("silenced-for-good", f"station {s.sid} still passive {t_end - base - t_act} ms after '{scen}'")))
    for s in sts:
        for t, bd in s.bad:
            found.append((s.sid, t - base, bd))
        if verbose:
            print(s.sid, [(t - base, k, st) for (t, k, st) in s.trace if k != "upd"][:60])
    return found


def _plain_vam(sid, pos, now_ms):
    vam = copy.deepcopy(VAMMessage().vam)
    vam["header"]["stationId"] = sid
    la, lo = pos_int(*pos)
    p = vam["vam"]["vamParameters"]
    p["basicContainer"]["stationType"] = 1
    p["basicContainer"]["referencePosition"]["latitude"] = la
    p["basicContainer"]["referencePosition"]["longitude"] = lo
    vam["vam"]["generationDeltaTime"] = now_ms % 65536
    return vam


SCENARIOS = ["silence", "outofrange", "breakup", "leave", "leader_off", "cancel", "refound"]


def loop_cases(ctx, count):
    out = []
    for i in range(count):
        scen = SCENARIOS[i % len(SCENARIOS)]
        out.append({"kind": "loop", "seed": ctx.rng.randrange(1 << 30), "n": 2 + (i % 2), "scenario": scen,
                    "reason": (i // len(SCENARIOS)) % 6, "loss": 0.0 if i % 4 else 0.1})
    return out


def report_loop(ctx, case, found):
    seen = set()
    for sid, t, (kind, detail) in found:
        if kind in seen or not first_of_kind(ctx, kind, detail):
            continue
        seen.add(kind)
        fid = classify(kind, detail) or regression_of(kind, detail)
        ctx.violation(f"closed loop ({case['n']} stations, {case['scenario']}): station {sid} at +{t} ms: {kind}: {detail}",
                      dict(case, expect=kind), fid)


# ------------------------------------------------------------------------------------------------ threads
# The model makes every public method ONE transition.  Structural side: theorem `public_methods_atomic` over the facts
# regenerated by gen_vru.lock_facts (whole body under `with self._lock`).  Behavioural side (here): two real threads
# call the public API concurrently under the deterministic scheduler (pre-emption before every attribute access /
# call inside VBSClusteringManager, scheduler-aware RLock); whatever the schedule, the outcome (final public state,
# membership fields, return values) must be the outcome of ONE of the two sequential orders - which are compared
# with the model like every other sequence - and must satisfy the consistency clauses of the property.
CONC = [
    {"name": "roleoff-vs-join-completion", "root": "waiting", "dt": 50,
     "threads": [["recv", [LDR, list(P_L), [A, 2, "c"]]], ["off"]]},
    {"name": "roleoff-vs-leader-lost", "root": "passive", "dt": 2000, "threads": [["upd"], ["off"]]},
    {"name": "leave-vs-breakup-heard", "root": "passive", "dt": 50,
     "threads": [["recv", [LDR, list(P_L), [A, 2, "c"], [None, None, 1]]], ["leave", 0]]},
    {"name": "breakup-vs-join-notice", "root": "leader", "dt": 50,
     "threads": [["recv", [OTH, list(P_O), None, [7, None, None]]], ["brk", 1]]},
    {"name": "join-completion-vs-update", "root": "waiting", "dt": 500,
     "threads": [["recv", [LDR, list(P_L), [A, 2, "c"]]], ["upd"]]},
    {"name": "create-vs-join", "root": "neighbours", "dt": 50, "threads": [["create", 0, 0, [7]], ["join", A]]},
    {"name": "roleoff-vs-create", "root": "neighbours", "dt": 50, "threads": [["create", 0, 0, [7]], ["off"]]},
    {"name": "cancel-vs-update", "root": "waiting", "dt": 100, "threads": [["cancel"], ["upd"]]},
]
_conc_codes = None


def conc_codes():
    global _conc_codes
    if _conc_codes is None:
        out = []
        for f in vars(vc.VBSClusteringManager).values():
            f = getattr(f, "fget", f)
            f = getattr(f, "__func__", f)
            if hasattr(f, "__code__"):
                out.append(f.__code__)
        _conc_codes = out
    return _conc_codes


def consistency(o):
    """first sentence of the property on ONE observation (no history needed)"""
    bad = []
    if o["exc"]:
        return [("api-raised", o["exc"])]
    st, priv = o["st"], o.get("priv", ())
    have_priv = priv and all(p != "n/a" for p in priv)
    if (st == "L") != (o["info"] is not None):
        bad.append(("leader-iff-owns-cluster", f"state {st}, information container {o['info']}"))
    if st == "P":
        if o["cid"] is None:
            bad.append(("passive-without-cluster", None))
        if have_priv and (priv[1] is None or priv[2] is None):
            bad.append(("passive-without-leader-or-timer", priv[1:]))
    else:
        if st != "L" and o["cid"] is not None:
            bad.append(("cluster-id-outside-membership", o["cid"]))
        if have_priv and any(p is not None for p in priv):
            bad.append(("membership-outside-passive", f"state {st}, joined/leader/timer {priv}"))
    if not o["tx"] and st not in ("I", "P"):
        bad.append(("suppressed-outside-passive-idle", st))
    return bad


def conc_prefix(sc):
    return list(ROOTS[sc["root"]]) + [(sc["dt"], ("nop",))]


def conc_sequential(sc):
    """outcomes (final observation line, return values by thread) of the two sequential orders on the real manager"""
    outs = {}
    ops = [_tup(op) for op in sc["threads"]]
    for order in ((0, 1), (1, 0)):
        real = Real.from_path(1_000_000, conc_prefix(sc))
        rets = [None, None]
        for i in order:
            rets[i] = call_op(real.m, ops[i])
        _NOW[0] = real.ms
        outs[(obs_line(observe(real.m)), tuple(rets))] = order
    return outs


class ConcRun:
    def __init__(self, sc, policy):
        self.sc = sc
        ops = [_tup(op) for op in sc["threads"]]
        with dsched.patched([vc]):
            real = Real.from_path(1_000_000, conc_prefix(sc))      # its `_lock` is a scheduler-aware RLock
            if sc.get("nolock"):                                    # self-test: emulate dropped `with self._lock`
                real.m._lock = dsched.NoLock()
            self.rets = [None, None]
            sched = dsched.DSched(policy, line_files=[vc.__file__], opcode_codes=conc_codes(), max_steps=60000)

            def body(i):
                def f():
                    self.rets[i] = call_op(real.m, ops[i])
                return f
            for i in range(2):
                sched.spawn(body(i), name=f"T{i}")
            with rs.quiet():
                sched.run(timeout=30.0)
            self.s, self.steps, self.choices = sched, sched.steps, [c[0] for c in sched.steps]
            self.abort = sched.abort_reason
            _NOW[0] = real.ms
            try:
                self.obs = observe(real.m)
            except RuntimeError as e:          # lock still held by a dead thread
                self.obs, self.abort = None, f"lock-held: {e}"

    def judge(self, allowed):
        if self.abort:
            return [("threads-" + str(self.abort).split(":")[0], str(getattr(self.s, "deadlock", None)))]
        for i, ts in enumerate(self.s.threads):
            if ts.exc is not None:
                return [("api-raised", f"T{i}: {type(ts.exc).__name__}: {ts.exc}")]
        bad = consistency(self.obs)
        key = (obs_line(self.obs), tuple(self.rets))
        if key not in allowed:
            bad.append(("non-atomic-interleaving",
                        f"outcome {key[0]} rets {key[1]} is the outcome of neither sequential order: "
                        + " | ".join(f"{'T%d;T%d' % o}: {k[0]} rets {k[1]}" for k, o in allowed.items())))
        return bad


class _Found(Exception):
    pass


def conc_explore(ctx, sc, bound, cap, n_pct, allowed=None):
    """systematic schedules up to `bound` pre-emptions (capped), then PCT; stops at the first violating schedule"""
    allowed = allowed if allowed is not None else conc_sequential(sc)
    state = {"est": 300}

    def handle(run):
        ctx.evals()
        ctx.cover("conc_runs_" + sc["name"])
        ctx.cover("conc_preemptions_%d" % min(dsched.preemptions(run.steps), 3))
        bad = run.judge(allowed)
        ctx.nontrivial(("conc", sc["name"], obs_line(run.obs) if run.obs else None, tuple(run.rets)))
        state["est"] = max(state["est"], run.s.nsteps)
        if bad:
            kind, detail = bad[0]
            ctx.violation(f"threads {sc['name']} ({' || '.join(op_line(_tup(o)) for o in sc['threads'])}): {kind}: {detail}",
                          {"kind": "conc", "scenario": sc, "schedule": run.choices, "expect": kind}, None)
            raise _Found()
        return run

    try:
        def once(prefix):
            return handle(ConcRun(sc, dsched.Replay(prefix))).steps
        runs, exhausted = dsched.enumerate_schedules(once, bound, cap, ctx.rng)
        ctx.cover("conc_systematic_runs", runs)
        if exhausted:
            ctx.cover("conc_exhausted_bound_%d" % bound)
        for i in range(n_pct):
            handle(ConcRun(sc, dsched.PCT(ctx.rng, depth=2 + i % 3, est_steps=state["est"])))
        ctx.cover("conc_pct_runs", n_pct)
    except _Found:
        return True
    return False


def conc_model(ctx, var, scs):
    """the two sequential orders of every scenario on model and code (ordinary correspondence)"""
    lines, idx = [], []
    for sc in scs:
        ops = [_tup(op) for op in sc["threads"]]
        for order in ((0, 1), (1, 0)):
            real = Real(1_000_000)
            lines.append(new_line(var, 1_000_000))
            for d, op in conc_prefix(sc):
                real.apply(d, op, observe_after=False)
                lines.append(f"{d} {op_line(op)}")
            for i in order:
                o = real.apply(0, ops[i])
                lines.append(f"0 {op_line(ops[i])}")
                idx.append((len(lines) - 1, sc, order, obs_line(o)))
    if not ctx.model_ok:
        return
    out = ctx.model("Cluster", lines)
    for li, sc, order, a in idx:
        b = out[li].split(" # ")[0]
        if not same_obs(a, b):
            ctx.mismatch("cluster.conc", {"scenario": sc["name"], "order": list(order)}, a, b)
    ctx.evals(len(idx))


def run_threads(ctx, var, bound, cap, n_pct):
    conc_model(ctx, var, CONC)
    for sc in CONC:
        conc_explore(ctx, sc, bound, cap, n_pct)


# ------------------------------------------------------------------------------------------------ entry points
class _Patched:
    def __enter__(self):
        self.orig = vc.random
        vc.random = RAND
        self.lvl = logging.getLogger("vru_basic_service").level
        logging.getLogger("vru_basic_service").setLevel(logging.CRITICAL)
        return self

    def __exit__(self, *a):
        vc.random = self.orig
        logging.getLogger("vru_basic_service").setLevel(self.lvl)


def run_corpus(ctx, var, batch):
    n = 0
    for name, case in corpus("C18"):
        n += 1
        bad = replay_case(ctx, case, var, quiet=True, batch=batch)
        for kind, detail in bad:
            if not first_of_kind(ctx, kind, detail):
                continue
            fid = classify(kind, detail) or regression_of(kind, detail)   # never the label stored in the corpus file
            ctx.violation(f"corpus {name}: {kind}: {detail}", dict(case, expect=kind), fid)
    ctx.cover("corpus_cases", n)


def replay_case(ctx, case, var=None, quiet=False, batch=None):
    """returns list of (kind, detail) violations of the property on this case (real code, oracle only)"""
    kind = case.get("kind")
    if kind == "seq":
        found = run_seq(ctx, var or detect_variant(), case, batch=batch)
        return [b for _, b in found]
    if kind == "encode":
        err = encode_witness()
        return [("cluster-vam-not-encodable", err)] if err else []
    if kind == "loop":
        return [b for _, _, b in run_loop(ctx, case, verbose=not quiet)]
    if kind == "conc":
        sc = case["scenario"]
        ctx.evals()
        return ConcRun(sc, dsched.Replay(case.get("schedule", []))).judge(conc_sequential(sc))
    raise Infra(f"unknown replay kind {kind}")


def run(ctx):
    ctx.extra["rule"] = ("events on a real VBSClusteringManager compared with the model after every event (public API: return "
                         "value, state, should_transmit, cluster id, both containers, table sizes); exhaustive over the alphabet "
                         "x clock steps {50,250,1000,3000} ms from 5 roots, children pruned by canonical model state; random "
                         "sequences of 400 events (exact and float clock; profiles mixed / member / leader) with the emitted "
                         "VAM compared after every event; closed loops through the real coder; two-thread schedules. "
                         "distinct_nontrivial counts distinct canonical states reached plus distinct random/loop cases")
    check_positions()
    with _Patched():
        var = detect_variant()
        ctx.extra["variant"] = {k: bool(v) for k, v in var.items()}
        ALLOW_LEGACY[0] = not var["tupleFails"]
        ctx.extra["known_findings_variant"] = {"C18-KF1": "frees on CPM break-up (repaired)" if var["cpmFrees"] else "stays passive on CPM break-up (code as is)"}
        err = encode_witness()
        if err:
            ctx.violation(f"cluster-vam-not-encodable: leader's cluster VAM through the real coder: {err}", {"kind": "encode"}, "C18-F1")
        batch = Batch()
        run_corpus(ctx, var, batch)
        # (i) exhaustive
        alpha = alphabet(ctx.thorough)
        deep = ("fresh", "waiting", "passive")
        jobs = [{"root": r, "depth": 3 if (ctx.thorough and r in deep) else 2, "cap": 10 ** 9, "exact": True} for r in ROOTS] + \
               [{"root": r, "depth": ctx.scale(5, 7), "cap": ctx.scale(1500, 2000), "exact": False} for r in ROOTS]
        explore(ctx, var, jobs, alpha)
        for j in jobs:
            ctx.cover(f"exhaustive_edges_{'exact' if j['exact'] else 'ctrl'}_{j['root']}", j["edges"])
        ctx.exhaustive = all(j["complete"] for j in jobs if j["exact"]) and ctx.model_ok
        ctx.note(f"exhaustive: alphabet {len(alpha)} ops x {len(TICKS)} clock steps from {len(ROOTS)} roots; complete enumeration "
                 f"(exact state quotient) to depth 2{' (3 from fresh/waiting/passive)' if ctx.thorough else ''}; control-state pruned exploration to depth {ctx.scale(5, 7)} "
                 f"(frontier cap {'not hit' if all(j['complete'] for j in jobs) else 'hit: sampled beyond the cap'})")
        # random sequences
        for i in range(ctx.scale(24, 300)):
            clock = "float" if i % 3 == 2 else "fraction"
            case = random_case(ctx, 400, clock, PROFILES[i % len(PROFILES)])
            ctx.cover(f"random_profile_{PROFILES[i % len(PROFILES)]}")
            rec = []
            found = run_seq(ctx, var, case, batch=batch, record=rec)
            for (_, op, o) in rec:
                ctx.cover(f"rnd_{op[0]}_{o['st']}")
            ctx.cover(f"random_sequences_{clock}")
            ctx.nontrivial(("rnd", case["ops"][:6]))
            if found:
                report(ctx, case, found)
            if i == 0:
                ctx.sample("random", {"clock": clock, "ops": case["ops"][:8]})
        for case in special_cases(ctx):
            found = run_seq(ctx, var, case, batch=batch)
            ctx.cover("special_sequences")
            if found:
                report(ctx, case, found)
        batch.flush(ctx, var)
        # (ii) closed loops
        for case in loop_cases(ctx, ctx.scale(14, 240)):
            found = run_loop(ctx, case)
            ctx.evals()
            ctx.cover(f"loop_{case['scenario']}_{case['n']}")
            ctx.nontrivial(("loop", case["seed"]))
            report_loop(ctx, case, found)
        ctx.sample("loop", loop_cases(ctx, 1)[0])
        malformed(ctx)
        # (iii) two threads on one manager under the deterministic scheduler
        run_threads(ctx, var, bound=1, cap=ctx.scale(40, 600), n_pct=ctx.scale(3, 40))
        ctx.note("threads: %d two-thread scenarios, every schedule with <= 1 pre-emption (capped) + PCT; outcome must equal "
                 "one of the two sequential orders (which are compared with the model)" % len(CONC))


def malformed(ctx):
    """incomplete VAM dicts - in every root state (fresh, neighbours, leader, waiting, passive) - must not raise nor
    disturb the consistency clauses, and must not change state / membership (the model does not cover them)"""
    full = build_vam(vam_key(LDR, P_L, (A, 2, "c"), (7, 7, 1)))
    # (dict, inert): inert = nothing in it can legitimately act on the clustering state
    cases = [({}, True), ({"header": {}}, True), ({"header": {"stationId": 5}, "vam": {}}, True),
             ({"header": {"stationId": 5}, "vam": {"vamParameters": {}}}, True)]
    v = copy.deepcopy(full)
    v["vam"]["vamParameters"]["vruClusterInformationContainer"] = {"bogus": 1}      # KeyError after the nearby-VRU table
    cases.append((v, False))
    v = copy.deepcopy(full)
    v["vam"]["vamParameters"]["vruClusterOperationContainer"] = {"clusterBreakupInfo": {}}
    v["vam"]["vamParameters"].pop("vruClusterInformationContainer")
    cases.append((v, True))
    v = copy.deepcopy(full)
    v["vam"]["vamParameters"]["basicContainer"] = {}
    cases.append((v, True))
    # (containers of a non-dict type - e.g. clusterJoinInfo = "x" - raise AttributeError out of on_received_vam; the
    # decoder cannot produce them, so they are outside the property and not fed here)
    for root, path in ROOTS.items():
        real = Real.from_path(1_000_000, list(path))
        for c, inert in cases:
            before = observe(real.m)
            try:
                real.m.on_received_vam(copy.deepcopy(c))
                exc = None
            except Exception as e:
                exc = type(e).__name__
            o = observe(real.m, None, exc)
            for b in consistency(o):
                ctx.violation(f"malformed VAM in root {root}: {b}", {"kind": "malformed"})
            if inert and (o["st"], o["cid"], o["priv"][:2], o["info"]) != (before["st"], before["cid"], before["priv"][:2], before["info"]):
                ctx.violation(f"malformed VAM in root {root} changed the clustering state: {obs_line(before)} -> {obs_line(o)}",
                              {"kind": "malformed"})
            ctx.evals()
    ctx.cover("malformed_vams", len(cases) * len(ROOTS))


def search(ctx):
    """obligation/correspondence broken: 3x the random volume, judged on the real code by the oracle only"""
    with _Patched():
        var = detect_variant()
        for i in range(ctx.scale(72, 900)):
            case = random_case(ctx, 400, "float" if i % 3 == 2 else "fraction", PROFILES[i % len(PROFILES)])
            found = run_seq(ctx, var, case)
            if found:
                report(ctx, case, found)
        for case in loop_cases(ctx, ctx.scale(21, 120)):
            report_loop(ctx, case, run_loop(ctx, case))
        if not ctx.violations:
            for sc in CONC:
                if conc_explore(ctx, sc, bound=2, cap=ctx.scale(1500, 6000), n_pct=ctx.scale(40, 300)):
                    break


def replay(ctx, obj):
    case = obj.get("case", obj)
    with _Patched():
        if case.get("kind") == "malformed":
            malformed(ctx)
            return bool(ctx.violations)
        bad = replay_case(ctx, case)
    for b in bad[:10]:
        print("  oracle:", b)
    return bool(bad)

"""C15 — GeoNetworking router is safe under concurrent origination, reception and timers.

Theorems: lean/Props/C15.lean (every schedule of the block model lean/FlexModel/Conc/RouterConc.lean; LocTE life cycle and
duplicate detection: RouterLocTLemmas.lean; section = atomic block: RouterReduction.lean + Props/ConcReduction.lean).
Tie: (i) lean/Generated/Locks.lean regenerated from the source by harness/gen_locks.py – the block decomposition and
the lock map the model assumes are `decide`d against it; (ii) schedule-level correspondence: 2-4 REAL threads run
1-3 router operations each under the deterministic scheduler harness/dsched.py (pre-emption at every relevant
bytecode of the functions that touch shared state, at every line of the rest of router.py / location_table.py,
at every lock operation; timers are scheduler-driven threads; per scenario first the section-level schedules - threads
switched only at lock operations -, fewest pre-emptions first, then bytecode-level ones); every observed outcome must be one the Lean block
model can produce under SOME schedule of its blocks (driver `ConcRouter explore …`).
Oracle: `judge()` transcribes the property text on the recorded events, independently of the model.
"""
from __future__ import annotations

import os

import common
from common import Infra, corpus
import dsched
import gen_locks
import realstack as rs

import flexstack.geonet.router as router_mod
import flexstack.geonet.location_table as loct_mod
from flexstack.geonet.basic_header import BasicHeader
from flexstack.geonet.common_header import CommonHeader
from flexstack.geonet.gbc_extended_header import GBCExtendedHeader
from flexstack.geonet.mib import AreaForwardingAlgorithm
from flexstack.geonet.position_vector import LongPositionVector, TST
from flexstack.geonet.service_access_point import (
    GNDataRequest, PacketTransportType, HeaderType, HeaderSubType, GeoBroadcastHST, Area, CommonNH)

MODULES = ["Props.C15", "Props.ConcReduction"] + __import__("gen_extract").bridge_modules("C15")   # + bridge lemmas of the functions py2lean could extract
DRIVERS = ["ConcRouter"]
TRUSTED = [
    "CPython: a single dict/set/deque method call and a single attribute load/store are atomic (the scheduler "
    "pre-empts between bytecodes, never inside one); threading.Lock/RLock/Timer are replaced by scheduler-aware "
    "equivalents (harness/dsched.py) with the same blocking/cancel semantics",
    "block model: a `with lock:` section is one atomic block - for the accesses to lock-guarded attributes this is DERIVED "
    "(Props.C15.sections_atomic: mechanised reduction theorem instantiated with access-level programs generated from "
    "Generated/Locks.lean); assumed for the rest (ego PV section with unlocked readers - that it is ONE store per refresh is a "
    "regenerated fact, Props.C15.source_single_publication -, fields of LocTE objects "
    "reached through a local variable, RLock re-entry) and validated by the bytecode-level exploration; the link between "
    "the hand-written block functions of RouterConc and the access lists is by construction, not a theorem",
    "harness/gen_locks.py (ast pass producing Generated/Locks.lean), harness/dsched.py",
]
ASSUMPTIONS = [
    "sequence numbers: pairwise distinct among any 65535 consecutive allocations (the counter is modulo 2^16-1)",
    "CBF: per key (source address, SN); a send is charged to the key, not to the individual Timer object",
    "timers may fire at any point after start() (virtual time); the retransmit chain is explored to depth 2",
    "duplicate detection: per LocTE life (between two purges of the source's entry) and per DPL window "
    "(itsGnDPLLength acceptances); which PVs are older than itsGnLifetimeLocTE at a refresh_table is an input of the "
    "model's refresh block (time is not modelled; the scenarios run at a frozen clock: nothing expires)",
    "fix C15-ls-placeholder-purge applied (LocT placeholder entries with ls_pending are exempt from refresh_table); "
    "without it a received frame purges the placeholder and the next request overwrites the LS buffer "
    "(theorem ls_exactly_once_witness, corpus/C15/ls_purge.json)",
]

T0 = 1_700_000_000_000
EGO_LAT, EGO_LON = 415000000, 21000000
FILES = [router_mod.__file__, loct_mod.__file__]


def tpv(v):
    """a complete gpsd TPV report (every field gpsd documents for a 3D fix - the router may use any of them): position,
    speed, heading AND time differ from fix to fix, and the error estimates alternate between a good and a poor fix
    (horizontal error 5 m / 75 m, i.e. on both sides of itsGnPaiInterval / 2 = 40 m), so that two consecutive fixes
    differ in every field a position vector can derive from them"""
    good = v % 2 == 1
    return {"class": "TPV", "device": "/dev/ttyACM0", "mode": 3, "status": 2 if good else 1,
            "lat": 41.5 + v * 0.001, "lon": 2.1 + v * 0.001, "alt": 100.0 + v, "altHAE": 149.0 + v, "altMSL": 100.0 + v,
            "speed": float(v), "track": float(v), "magtrack": float(v) + 1.5, "climb": 0.1 * v,
            "time": "2023-11-14T22:13:%02dZ" % (20 + v % 40), "leapseconds": 18,
            "ept": 0.005, "epx": 3.0 if good else 50.0, "epy": 4.0 if good else 56.0, "epv": 8.0 if good else 90.0,
            "eph": 5.0 if good else 75.0, "eps": 0.5 if good else 12.0, "epd": 1.0 if good else 20.0,
            "epc": 1.0 if good else 15.0, "sep": 9.0 if good else 120.0}


def pv_fields(v):
    return (int((41.5 + v * 0.001) * 10**7), int((2.1 + v * 0.001) * 10**7), int(float(v) * 100), int(float(v) * 10))


def initial_ego_pv(addr):
    lat, lon, s_, h_ = pv_fields(0)
    return LongPositionVector(gn_addr=addr, tst=TST.set_in_normal_timestamp_milliseconds(T0), latitude=lat, longitude=lon,
                              pai=True, s=s_, h=h_)


def legit_ego_pvs(sc):
    """encodings of every position vector the ego station can have HAD at some instant if each refresh is atomic: the
    initial one and whatever a refresh of the scenario publishes when it is applied - alone, sequentially, on an unshared
    router - to a vector the station can have had (closure; a refresh inherits fields it does not overwrite from its
    predecessor, so the predecessor matters).  A vector that exists only BETWEEN two stores of one refresh is not in it."""
    vs = tuple(sorted({op[1] for th in all_threads(sc) for op in th if op[0] == "ego"}))
    if vs in _legit_cache:          # depends on the refresh values (and the code under test) only
        return _legit_cache[vs]
    h, _, _ = rs.make_router(1)
    init = initial_ego_pv(h.mib.itsGnLocalGnAddr)
    have = {init.encode(): init}
    for _ in range(len(vs) + 1):
        new = {}
        for p in list(have.values()):
            for v in vs:
                h.ego_position_vector = p
                with rs.quiet():
                    h.refresh_ego_position_vector(tpv(v))
                q = h.ego_position_vector
                if q.encode() not in have:
                    new[q.encode()] = q
        if not new:
            break
        have.update(new)
    _legit_cache[vs] = set(have)
    return _legit_cache[vs]


_legit_cache = {}


_opcode_codes = None


def opcode_codes():
    """code objects of every router / location-table method that touches a shared attribute or takes a lock
    (from the same ast pass that generates Locks.lean)"""
    global _opcode_codes
    if _opcode_codes is None:
        info = gen_locks.analyse()
        names = set(info["blocks"].keys()) | {r[0] for r in info["records"]}
        codes = []
        for cls in (router_mod.Router, loct_mod.LocationTable, loct_mod.LocationTableEntry):
            for n, f in vars(cls).items():
                if f"{cls.__name__}_{n}" in names and hasattr(f, "__code__"):
                    codes.append(f.__code__)
        _opcode_codes = codes
    return _opcode_codes


_focus_cache = {}


def focus_codes(attrs):
    """code objects of every function that accesses one of the shared attributes `attrs` (names as in Generated/Locks.lean,
    e.g. `Router__cbf_buffer`) - from the same ast pass as the lock map, so a new function touching the attribute is in it"""
    key = tuple(sorted(attrs))
    if key not in _focus_cache:
        info = gen_locks.analyse()
        names = {r[0] for r in info["records"] if r[1] in attrs}
        codes = []
        for cls in (router_mod.Router, loct_mod.LocationTable, loct_mod.LocationTableEntry):
            for n, f in vars(cls).items():
                if f"{cls.__name__}_{n}" in names and hasattr(f, "__code__"):
                    codes.append(f.__code__)
        if not codes:
            raise Infra(f"focus {attrs}: no function of the source accesses these attributes")
        _focus_cache[key] = codes
    return _focus_cache[key]


# ------------------------------------------------------------------------------------------------ frames


class Frames:
    """frames from other stations, built with ordinary (unpatched) helper routers"""

    def __init__(self):
        self.gbc = {}
        self.replies = {}
        self.clock = None

    def _pv(self, r, dlat=1000):
        now = TST.set_in_normal_timestamp_milliseconds(T0)
        r.ego_position_vector = LongPositionVector(gn_addr=r.mib.itsGnLocalGnAddr, tst=now, latitude=EGO_LAT + dlat,
                                                   longitude=EGO_LON + dlat, pai=True)

    def gbc_frame(self, k):
        if k not in self.gbc:
            r, ll, _ = rs.make_router(50)
            self._pv(r)
            r.sequence_number = k - 1
            with rs.quiet():
                r.gn_data_request(GNDataRequest(
                    upper_protocol_entity=CommonNH.BTP_B, data=bytes([200 + k % 50]), length=1,
                    packet_transport_type=PacketTransportType(header_type=HeaderType.GEOBROADCAST,
                                                              header_subtype=GeoBroadcastHST.GEOBROADCAST_CIRCLE),
                    area=Area(latitude=EGO_LAT, longitude=EGO_LON, a=800, b=800, angle=0), max_hop_limit=5))
            self.gbc[k] = ll.take()[0]
        return self.gbc[k]

    def shb_frame(self, st):
        if ("shb", st) not in self.gbc:
            r, ll, _ = rs.make_router(st)
            self._pv(r, 3000)
            with rs.quiet():
                r.gn_data_request(GNDataRequest(upper_protocol_entity=CommonNH.BTP_B, data=b"s", length=1))
            self.gbc[("shb", st)] = ll.take()[0]
        return self.gbc[("shb", st)]

    def reply_frames(self, d, n):
        """n distinct LS replies of station d answering a request of the ego station"""
        have = self.replies.setdefault(d, [])
        if len(have) < n:
            ego, ell, _ = rs.make_router(1)
            self._pv(ego, 0)
            rd, dll, _ = rs.make_router(d)
            self._pv(rd, 2000)
            with rs.quiet():
                while len(have) < n:
                    ego._send_ls_request_packet(rs.gn_addr(d))
                    rd.gn_data_indicate(ell.take()[0])
                    have.extend(dll.take())
        return have[:n]


class _NoTimer:
    def __init__(self, *a, **k):
        self.daemon = True

    def start(self):
        pass

    def cancel(self):
        pass


# ------------------------------------------------------------------------------------------------ real runs


def all_threads(sc):
    """the threads of the scenario, preceded by the sequential prefix `pre` (if any) as a pseudo thread"""
    return ([sc["pre"]] if sc.get("pre") else []) + sc["threads"]


def scenario_dests(sc):
    return sorted({op[3] for th in all_threads(sc) for op in th if op[0] == "guc"} |
                  {op[2] for th in all_threads(sc) for op in th if op[0] == "lsR"})


def scenario_keys(sc):
    return sorted({op[2] for th in all_threads(sc) for op in th if op[0] in ("cbfA", "gbcRx")})


GBC_SRC = 50      # station that originated every GBC frame of Frames.gbc_frame


def scenario_rx(sc):
    """(source station, SN) of the GBC frames delivered by gn_data_indicate"""
    return sorted({(GBC_SRC, op[2]) for th in all_threads(sc) for op in th if op[0] == "gbcRx"})


def scenario_srcs(sc):
    """stations whose frames are received (their LocTE is part of the outcome)"""
    out = {op[2] for th in all_threads(sc) for op in th if op[0] == "shbRx"}
    if sc.get("warm") or any(op[0] == "gbcRx" for th in all_threads(sc) for op in th):
        out.add(GBC_SRC)
    return sorted(out)


def scenario_reqs(sc):
    return sorted({op[2] for th in all_threads(sc) for op in th if op[0] == "guc"})


class Run:
    """one execution of a scenario on the real router under a scheduling policy"""

    def __init__(self, sc, policy, frames, max_steps=60000):
        self.sc, self.frames = sc, frames
        mr = sc.get("mr", 1)
        old_timer = router_mod.Timer
        with rs.VClock(T0):
            # frames of other stations are built before the scheduler starts (never inside a managed thread)
            for th in all_threads(sc):
                for op in th:
                    if op[0] in ("cbfA", "gbcRx"):
                        frames.gbc_frame(op[2])
                    elif op[0] == "shbRx":
                        frames.shb_frame(op[2])
            if sc.get("warm"):
                frames.gbc_frame(40)
            for d in scenario_dests(sc):
                frames.reply_frames(d, 3)
            self.legit_pvs = legit_ego_pvs(sc)
            with dsched.patched([router_mod, loct_mod]):
                kw = dict(itsGnLocationServiceMaxRetrans=mr)
                if sc.get("cbf", True):
                    kw["itsGnAreaForwardingAlgorithm"] = AreaForwardingAlgorithm.CBF
                r, ll, inds = rs.make_router(1, **kw)
                self.r, self.ll = r, ll
                r.ego_position_vector = initial_ego_pv(r.mib.itsGnLocalGnAddr)
                if sc.get("warm"):              # the source of the GBC frames is already known (fresh PV, own DPL)
                    with rs.quiet():
                        r.gn_data_indicate(frames.gbc_frame(40))
                    ll.take()
                    for t_ in list(r._cbf_buffer.values()):
                        t_.cancel()
                    r._cbf_buffer.clear()
                if sc.get("nolock"):            # self-test hook of the HARNESS only: emulate a dropped `with`
                    setattr(r, sc["nolock"], dsched.NoLock())
                s = dsched.DSched(policy, line_files=FILES, opcode_codes=opcode_codes(), max_steps=max_steps,
                                  focus_codes=focus_codes(sc["focus"]) if sc.get("focus") else None)
                self.s = s
                self.lock_held = []
                orig_dup = loct_mod.LocationTableEntry.check_duplicate_sn
                if sc.get("probe_lock"):        # variant probe: is loc_t_lock held while the entry is updated?
                    run = self

                    def probed(entry, sn):
                        run.lock_held.append(r.location_table.loc_t_lock.owner is not None)
                        return orig_dup(entry, sn)
                    loct_mod.LocationTableEntry.check_duplicate_sn = probed
                depth = sc.get("timer_depth", 2)
                s.timer_filter = lambda t: t.creator.count("tm") < depth
                self._wrap()
                if "sn0" in sc:                 # the sequence counter starts near its wrap-around
                    r.sequence_number = sc["sn0"]
                reply_iter = {d: iter(frames.reply_frames(d, 3)) for d in scenario_dests(sc)}
                if sc.get("pre"):               # operations executed sequentially before the threads start
                    with rs.quiet():
                        self._thread_body(sc["pre"], reply_iter)()
                    if sc.get("pre_timers"):    # ... whose CBF timers are running when the threads start (else: they never fire)
                        for key_, t_ in sorted(r._cbf_buffer.items(), key=lambda kv: kv[0][1]):
                            if isinstance(t_, dsched.STimer):
                                t_.adopt(s, name=f"tm-pre{key_[1]}")
                for ti, ops in enumerate(sc["threads"]):
                    s.spawn(self._thread_body(ops, reply_iter), name=f"T{ti}")
                try:
                    with rs.quiet():
                        s.run(timeout=30.0)
                finally:
                    loct_mod.LocationTableEntry.check_duplicate_sn = orig_dup
            router_mod.Timer = old_timer
        self.steps = s.steps
        self.choices = [c[0] for c in s.steps]

    # -- instrumentation from outside (instance attributes; harness frames are not traced)
    def _wrap(self):
        r, s = self.r, self.s
        self.sns = []
        orig_sn = r.get_sequence_number

        def get_sn():
            v = orig_sn()
            self.sns.append(v)
            return v
        r.get_sequence_number = get_sn
        orig_cbf = r.gn_area_cbf_forwarding

        def cbf(bh, ch, ext, pkt):
            s.log("cbf_enter", ext.sn)
            res = orig_cbf(bh, ch, ext, pkt)
            s.log("cbf_ret", ext.sn, bool(res))
            return res
        r.gn_area_cbf_forwarding = cbf
        if hasattr(r, "_cbf_discard"):
            orig_discard = r._cbf_discard

            def discard(key):
                res = orig_discard(key)
                if res:
                    s.log("cbf_discarded", key[1])
                return res
            r._cbf_discard = discard
        orig_ls = r.gn_ls_request

        def ls_request(addr, req=None):
            if req is not None:
                s.log("ls_buffered", req.data[0], addr.mid.mid[-1])
            return orig_ls(addr, req)
        r.gn_ls_request = ls_request
        orig_send = self.ll.send

        def send(pkt):
            s.log("send", bytes(pkt))
            orig_send(pkt)
        self.ll.send = send
        lt = r.location_table
        orig_new_gbc = lt.new_gbc_packet

        def new_gbc(ext, pkt):
            key = (ext.so_pv.gn_addr.mid.mid[-1], ext.sn)
            try:
                res = orig_new_gbc(ext, pkt)
            except loct_mod.DuplicatedPacketException:
                s.log("dpl_dup", *key)
                raise
            s.log("dpl_pass", *key)
            return res
        lt.new_gbc_packet = new_gbc
        orig_rt = r._ls_retransmit

        def rt(addr):
            s.log("ls_retransmit", addr.mid.mid[-1])
            return orig_rt(addr)
        r._ls_retransmit = rt

    def _thread_body(self, ops, reply_iter):
        r, s, fr = self.r, self.s, self.frames

        def body():
            for op in ops:
                kind = op[0]
                if kind == "sn":
                    r.get_sequence_number()
                elif kind == "shb":
                    r.gn_data_request(GNDataRequest(upper_protocol_entity=CommonNH.BTP_B, data=bytes([op[1]]), length=1))
                elif kind == "gbc":
                    r.gn_data_request(GNDataRequest(
                        upper_protocol_entity=CommonNH.BTP_B, data=bytes([op[1]]), length=1,
                        packet_transport_type=PacketTransportType(header_type=HeaderType.GEOBROADCAST,
                                                                  header_subtype=GeoBroadcastHST.GEOBROADCAST_CIRCLE),
                        area=Area(latitude=EGO_LAT, longitude=EGO_LON, a=800, b=800, angle=0)))
                elif kind == "ego":
                    s.log("ego_enter", op[1])
                    r.refresh_ego_position_vector(tpv(op[1]))
                elif kind == "cbfA":
                    f = fr.gbc_frame(op[2])
                    bh = BasicHeader.decode_from_bytes(f[0:4])
                    ch = CommonHeader.decode_from_bytes(f[4:12])
                    ext = GBCExtendedHeader.decode(f[12:56])
                    r.gn_area_cbf_forwarding(bh.set_rhl(bh.rhl - 1), ch, ext, f[56:])
                elif kind == "gbcRx":
                    r.gn_data_indicate(fr.gbc_frame(op[2]))
                elif kind == "guc":
                    r.gn_data_request(GNDataRequest(
                        upper_protocol_entity=CommonNH.BTP_B, data=bytes([op[2]]), length=1,
                        packet_transport_type=PacketTransportType(header_type=HeaderType.GEOUNICAST,
                                                                  header_subtype=HeaderSubType.UNSPECIFIED),
                        destination=rs.gn_addr(op[3])))
                elif kind == "shbRx":
                    s.log("rx_other", op[2])
                    r.gn_data_indicate(fr.shb_frame(op[2]))
                elif kind == "lsR":
                    s.log("lsR_enter", op[2])
                    r.gn_data_indicate(next(reply_iter[op[2]]))
                else:
                    raise Infra(f"unknown op {op}")
        return body

    # -- observation
    def parse(self, pkt):
        """(kind, ref, sn, pv-id or None when the PV fields are not those of one installed PV)"""
        ch = CommonHeader.decode_from_bytes(pkt[4:12])
        ht, hst = ch.ht, int(getattr(ch.hst, "value", ch.hst))
        ego_addr = self.r.mib.itsGnLocalGnAddr

        def pvid(lpv):
            for v in self.pv_ids:
                if (lpv.latitude, lpv.longitude, lpv.s, lpv.h) == pv_fields(v):
                    return v
            return None
        if ht == HeaderType.TSB and hst == 0:
            lpv = LongPositionVector.decode(pkt[12:36])
            return (0, pkt[-1], 0, pvid(lpv))
        sn = int.from_bytes(pkt[12:14], "big")
        lpv = LongPositionVector.decode(pkt[16:40])
        if ht == HeaderType.GEOBROADCAST:
            if lpv.gn_addr == ego_addr:
                return (1, pkt[-1], sn, pvid(lpv))
            return (4, sn, 0, 0)
        if ht == HeaderType.GEOUNICAST:
            return (2, pkt[-1], sn, pvid(lpv))
        if ht == HeaderType.LS:
            return (3, pkt[-1], sn, pvid(lpv))     # last byte of the sought GN address = station number
        return (9, 0, sn, None)

    def outcome(self):
        sc, r, s = self.sc, self.r, self.s
        self.pv_ids = [0] + [op[1] for th in all_threads(sc) for op in th if op[0] == "ego"]
        self.pkts = [self.parse(e[1]) for e in s.events if e[0] == "send"]
        errs = [t for t in s.threads if t.exc is not None]
        keys = sorted(k[1] for k in r._cbf_buffer)
        ls = []
        for d in scenario_dests(sc):
            a = rs.gn_addr(d)
            e = r.location_table.loc_t.get(a)
            pend = 1 if (e is not None and e.ls_pending) else 0
            cnt = r._ls_retransmit_counters.get(a, "-")
            buf = ",".join(str(q.data[0]) for q in r._ls_packet_buffers.get(a, []))
            ls.append(f"{d}:{pend}:{1 if a in r._ls_timers else 0}:{cnt}:{buf}")
        sent_reqs = {p[1] for p in self.pkts if p[0] == 2}
        buffered = {q.data[0] for v in r._ls_packet_buffers.values() for q in v}
        gone = [q for q in scenario_reqs(sc) if q not in sent_reqs and q not in buffered]
        pk = ",".join(f"{k}:{ref}:{sn}:{'X' if pv is None else pv}" for (k, ref, sn, pv) in self.pkts)
        # duplicate detection: how often each received (source, SN) passed; final LocTE of each frame source
        passes = {}
        for e in s.events:
            if e[0] == "dpl_pass":
                passes[(e[1], e[2])] = passes.get((e[1], e[2]), 0) + 1
        ps = ",".join(f"{a}:{k}:{passes.get((a, k), 0)}" for (a, k) in scenario_rx(sc))
        tb = []
        for a in scenario_srcs(sc):
            e = r.location_table.loc_t.get(rs.gn_addr(a))
            tb.append(f"{a}:{0 if e is None else (2 if e.position_vector is loct_mod._NO_POSITION_VECTOR else 1)}")
        return (f"S={pk}_E={len(errs)}_C={','.join(map(str, keys))}_L={';'.join(ls)}_D={','.join(map(str, gone))}"
                f"_N={','.join(map(str, sorted(self.sns)))}_P={ps}_T={','.join(tb)}")

    def judge(self):
        """the property text on the recorded run; returns a list of violation strings"""
        sc, s, r = self.sc, self.s, self.r
        bad = []
        if s.abort_reason == "deadlock":
            bad.append(f"deadlock: {s.deadlock}")
        elif s.abort_reason:
            raise Infra(f"scheduler aborted: {s.abort_reason}")
        for t in s.threads:
            if t.exc is not None:
                bad.append(f"thread {t.name} failed: {type(t.exc).__name__}: {t.exc}")
        if len(set(self.sns)) != len(self.sns):
            bad.append(f"duplicate sequence numbers returned: {sorted(self.sns)}")
        pkt_sns = [p[2] for p in self.pkts if p[0] in (1, 2, 3)]
        if len(set(pkt_sns)) != len(pkt_sns):
            bad.append(f"two originated packets carry the same sequence number: {sorted(pkt_sns)}")
        # CBF: at most once, never after a completed cancellation (per key, in event order)
        enter, cancelled, discarded, sent = {}, {}, {}, {}
        ego_seen = {0}
        replied = set()
        buffered = {}
        sent_req = {}
        n_rt = {}
        for e in s.events:
            if e[0] == "cbf_enter":
                enter[e[1]] = enter.get(e[1], 0) + 1
            elif e[0] == "cbf_ret" and not e[2]:
                cancelled[e[1]] = cancelled.get(e[1], 0) + 1
            elif e[0] == "cbf_discarded":
                discarded[e[1]] = discarded.get(e[1], 0) + 1
            elif e[0] == "ego_enter":
                ego_seen.add(e[1])
            elif e[0] == "lsR_enter":
                replied.add(e[1])
            elif e[0] == "ls_buffered":
                buffered[e[1]] = e[2]
            elif e[0] == "ls_retransmit":
                n_rt[e[1]] = n_rt.get(e[1], 0) + 1
            elif e[0] == "send":
                k, ref, sn, pv = self.parse(e[1])
                if k == 4:
                    sent[ref] = sent.get(ref, 0) + 1
                    # a forwarder call either inserts a copy or - completed cancellation - removes one without inserting:
                    # copies inserted so far <= calls - cancels, each cancel / discard took one of them away for good
                    avail = enter.get(ref, 0) - 2 * cancelled.get(ref, 0) - discarded.get(ref, 0)
                    if sent[ref] > avail:
                        bad.append(f"CBF packet {ref} transmitted {sent[ref]}x with {enter.get(ref, 0)} forwarder calls of which "
                                   f"{cancelled.get(ref, 0)} cancelled a buffered copy and {discarded.get(ref, 0)} duplicate discards "
                                   f"(completed before this transmission): sent after its cancellation / more than once")
                else:
                    if pv is None or pv not in ego_seen:
                        bad.append(f"packet kind {k} ref {ref} carries a position vector that was never the ego position")
                    else:
                        # ... in ALL its fields (timestamp, accuracy indicator included): the whole source position vector
                        # must be one a complete refresh published, not a mixture of two of them
                        raw = bytes(e[1][12:36] if k == 0 else e[1][16:40])
                        if raw not in self.legit_pvs:
                            got = LongPositionVector.decode(raw)
                            bad.append(f"packet kind {k} ref {ref} carries a position vector that was never the ego position: "
                                       f"tst={got.tst.encode()} lat={got.latitude} lon={got.longitude} pai={int(bool(got.pai))} "
                                       f"s={got.s} h={got.h} is not the vector published by any complete refresh (torn update)")
                if k == 2:
                    sent_req[ref] = sent_req.get(ref, 0) + 1
                    if sent_req[ref] > 1:
                        bad.append(f"unicast request {ref} sent {sent_req[ref]} times")
                    if ref in buffered and buffered[ref] not in replied:
                        bad.append(f"buffered unicast request {ref} sent before any reply from {buffered[ref]}")
        # a GBC (source, SN) delivered by gn_data_indicate several times must pass duplicate detection once
        n_rx = {}
        for th in all_threads(sc):
            for op in th:
                if op[0] == "gbcRx":
                    n_rx[op[2]] = n_rx.get(op[2], 0) + 1
        # (frozen clock: the source's LocTE cannot expire during the run; fewer receptions than the DPL window)
        n_pass = {}
        for e in s.events:
            if e[0] == "dpl_pass":
                n_pass[e[2]] = n_pass.get(e[2], 0) + 1
        for k, n in n_rx.items():
            if n_pass.get(k, 0) > 1:
                bad.append(f"DPL-RACE: GBC {k} received {n}x passed duplicate detection {n_pass[k]}x (buffered/forwarded twice)")
        # buffered requests: still buffered, sent once, or dropped by a give-up (needs mr+1 timer expiries)
        still = {q.data[0] for v in r._ls_packet_buffers.values() for q in v}
        mr = sc.get("mr", 1)
        for q, d in buffered.items():
            n = sent_req.get(q, 0)
            if q in still and n:
                bad.append(f"request {q} both sent and still buffered")
            if q not in still and n == 0 and n_rt.get(d, 0) < mr + 1:
                bad.append(f"buffered request {q} lost: neither sent nor buffered, and no give-up was possible "
                           f"({n_rt.get(d, 0)} retransmit expiries, {mr + 1} needed)")
        # a request may stay buffered only while a lookup for its destination is in progress (retransmit counter present):
        # otherwise no reply is awaited and no retry will ever drop it - neither "sent after the reply" nor "dropped after
        # the final retry" can happen any more
        for a, v in r._ls_packet_buffers.items():
            if v and a not in r._ls_retransmit_counters:
                bad.append(f"STRANDED: request(s) {[q.data[0] for q in v]} buffered for station {a.mid.mid[-1]} although no lookup is "
                           f"in progress (no retransmit counter): never sent, never dropped")
        return bad


# ------------------------------------------------------------------------------------------------ model side


def classify(sc, bad):
    """known-finding id a violating run falls under (None = not a known region)"""
    rx_other = any(op[0] in ("shbRx", "gbcRx") for th in all_threads(sc) for op in th)
    if all(b.startswith("buffered request") and "lost" in b for b in bad) and rx_other:
        return "C15-KF1"
    if all(b.startswith("DPL-RACE") or b.startswith("CBF packet") for b in bad) and any(b.startswith("DPL-RACE") for b in bad) \
            and not sc.get("warm"):
        return "C15-KF2"
    return None


def detect_variants(frames):
    """which variant of the code is under test (decided by running the sequential witnesses)"""
    sc = {"name": "probe", "threads": [[["guc", 1, 1, 9], ["shbRx", 2, 60], ["guc", 3, 2, 9]]], "timer_depth": 0}
    r = Run(sc, dsched.Replay([]), frames)
    r.outcome()
    purges = any("lost" in b for b in r.judge())
    sc2 = {"name": "probe2", "threads": [[["guc", 1, 1, 9], ["guc", 2, 2, 9]]], "timer_depth": 0}
    r2 = Run(sc2, dsched.Replay([]), frames)
    ls_fixed = len(r2.r._ls_packet_buffers.get(rs.gn_addr(9), [])) == 2     # 2nd request queued behind the lookup
    sc3 = {"name": "probe3", "threads": [[["gbcRx", 1, 7]]], "timer_depth": 0, "probe_lock": True}
    r3 = Run(sc3, dsched.Replay([]), frames)
    locked = bool(r3.lock_held) and all(r3.lock_held)     # LocTE updated while loc_t_lock is held (fix C15-locte-update-under-lock)
    return {"loses_buffered_request": purges, "ls_order_fix": ls_fixed,
            "cbf_discard": hasattr(router_mod.Router, "_cbf_discard"), "locte_locked": locked}


VARIANT = {"cbf_discard": False, "ls_order_fix": True, "loses_buffered_request": False, "locte_locked": True}


def model_line(sc):
    """the scenario as a line for the Lean driver, with one potential timer thread per timer the code may start"""
    mr = sc.get("mr", 1)
    depth = sc.get("timer_depth", 2)
    threads, extra = [], []
    nreq = {}
    for th in all_threads(sc):
        for op in th:
            if op[0] == "guc":
                nreq[op[3]] = nreq.get(op[3], 0) + 1
    unl = "" if VARIANT["locte_locked"] else "U"

    def tokens(th, depth):
        """`depth` = how many generations of timer threads the harness starts for the timers of these operations"""
        toks = []
        for op in th:
            k = op[0]
            if k == "shbRx":
                # a frame of a third station: new_shb_packet (refresh_table, LocTE of the sender, refresh_table); for the
                # location-service destinations the purge is over-approximated by an unconditional drop
                toks += [f"purge:{d}" for d in scenario_dests(sc)]
                toks.append(f"shbRx{unl}:{op[1]}:{op[2]}")
            elif k in ("sn", "shb", "gbc", "ego"):
                toks.append(f"{k}:{op[1]}")
            elif k == "cbfA":
                toks.append(f"cbfA:{op[1]}:{op[2]}")
                if depth > 0:
                    extra.append([f"cbfF:{op[1] + 100}:{op[2]}:{op[1]}"])
            elif k == "gbcRx":
                toks.append(f"gbcRx{unl}{'D' if VARIANT['cbf_discard'] else ''}:{op[1]}:{GBC_SRC}:{op[2]}")
                if depth > 0:        # timer_depth 0: the harness starts no timer thread, the buffered packet stays buffered
                    extra.append([f"cbfF:{op[1] + 100}:{op[2]}:{op[1]}"])
            elif k == "guc":
                toks.append(f"{'guc' if VARIANT['ls_order_fix'] else 'gucOld'}:{op[1]}:{op[2]}:{op[3]}")
                src = op[1]
                for lvl in range(depth):
                    extra.append([f"lsF:{op[1] + 100 * (lvl + 1)}:{op[3]}:{src}:{mr}"])
                    src = op[1] + 100 * (lvl + 1)
            elif k == "lsR":
                n = nreq.get(op[2], 0)
                toks.append(f"{'lsR' if VARIANT['ls_order_fix'] else 'lsROld'}:{op[1]}:{op[2]}:{n}")
                for it in range(n):          # a re-submitted request may start a lookup (and a timer) of its own
                    src = 1000 * (it + 1) + op[1]
                    for lvl in range(depth):
                        extra.append([f"lsF:{src + 100 * (lvl + 1)}:{op[2]}:{src if lvl == 0 else src + 100 * lvl}:{mr}"])
            else:
                raise Infra(f"unknown op {op}")
        return toks

    init = []
    if sc.get("pre_timers") and any(op[0] in ("guc", "lsR") for op in sc.get("pre", [])):
        raise Infra("pre_timers adopts the CBF timers only: no location-service operation in `pre`")
    if sc.get("warm"):
        init.append(f"warm:{GBC_SRC}:40")
    if "sn0" in sc:
        init.append(f"sn0:{sc['sn0']}")
    if sc.get("pre"):
        # timers started before the scheduler runs never fire - unless the scenario adopts the CBF timers (`pre_timers`)
        init += tokens(sc["pre"], 1 if sc.get("pre_timers") else 0)
    for th in sc["threads"]:
        threads.append(tokens(th, depth))
    segs = ([["init"] + init] if init else []) + threads + extra
    return "explore " + " / ".join(" ".join(t) for t in segs)


STEP_WEIGHT = {"sn": 1, "shb": 2, "gbc": 3, "ego": 1, "cbfA": 2, "cbfF": 3, "purge": 1, "refresh": 1, "lsF": 7, "guc": 8, "gucOld": 8}


def model_cost(line):
    """rough number of program-counter vectors of the block model for a driver line: product over the threads of
    (visible steps + 1).  The explorer memoises states but has no partial-order reduction; randomly composed scenarios
    above the limit are judged by the oracle only."""
    cost = 1
    for seg in line[len("explore "):].split(" / "):
        toks = seg.split()
        if toks and toks[0] == "init":
            continue
        n = 0
        for t in toks:
            f = t.split(":")
            k = f[0]
            if k.startswith("gbcRx"):
                n += 6
            elif k.startswith("shbRx"):
                n += 3
            elif k.startswith("lsR"):
                n += 4 + 9 * int(f[3])
            else:
                n += STEP_WEIGHT.get(k, 3)
        cost *= n + 1
    return cost


MODEL_COST_LIMIT = 1500


# ------------------------------------------------------------------------------------------------ scenarios


def scenarios(ctx):
    rng = ctx.rng
    out = [
        {"name": "sn3", "threads": [[["sn", 1]], [["sn", 2]], [["sn", 3]]]},
        {"name": "gbc2", "threads": [[["gbc", 1]], [["gbc", 2]]]},
        {"name": "gbc3-wrap", "threads": [[["gbc", 1]], [["gbc", 2]], [["gbc", 3]]], "sn0": 65533, "frac": 0.4},
        {"name": "ego-shb", "threads": [[["ego", 5]], [["shb", 1]], [["ego", 6]]]},
        {"name": "ego-gbc", "threads": [[["ego", 6], ["gbc", 2]], [["gbc", 1]]]},
        {"name": "cbf-cancel", "threads": [[["cbfA", 1, 7]], [["cbfA", 2, 7]]]},
        {"name": "cbf-2keys", "threads": [[["cbfA", 1, 7]], [["cbfA", 2, 8], ["ego", 4]]]},
        {"name": "gbc-rx", "threads": [[["gbcRx", 1, 7]], [["gbcRx", 2, 7]]], "warm": True},
        # LocTE life cycle: concurrent receptions of the same frame from a source that has no LocTE yet (cold), with and
        # without a frame of a third station whose refresh_table may purge (C15-KF2)
        {"name": "gbc-rx-fresh", "threads": [[["gbcRx", 1, 7]], [["gbcRx", 2, 7]]]},
        {"name": "gbc-rx-fresh3", "threads": [[["gbcRx", 1, 7]], [["gbcRx", 2, 7]], [["gbcRx", 3, 7]]], "timer_depth": 0,
         "frac": 0.4},
        {"name": "gbc-rx-purge", "threads": [[["gbcRx", 1, 7]], [["gbcRx", 2, 7]], [["shbRx", 3, 60]]], "timer_depth": 0,
         "frac": 0.4},
        {"name": "shb-rx2", "threads": [[["shbRx", 1, 60]], [["shbRx", 2, 60]]], "frac": 0.3},
        {"name": "ls-purge", "threads": [[["guc", 1, 1, 9]], [["shbRx", 2, 60]], [["guc", 3, 2, 9]]], "timer_depth": 0,
         "oracle_only_if_purging": True},
        {"name": "ls-2req", "threads": [[["guc", 1, 1, 9]], [["guc", 2, 2, 9]]], "timer_depth": 0},
        {"name": "ls-reply", "threads": [[["guc", 1, 1, 9]], [["lsR", 2, 9]]], "timer_depth": 1, "mr": 1},
        # a second request issued while the reply to the first lookup is being handled (the lookup was started before the
        # threads run): it must be sent, or queued behind a lookup that is really in progress
        {"name": "ls-reply-race", "pre": [["guc", 1, 1, 9]], "threads": [[["lsR", 2, 9]], [["guc", 3, 2, 9]]], "timer_depth": 0,
         "frac": 0.7},
        # an origination scans the neighbour table (every SHB / GBC / GUC origination and every forwarder calls get_neighbours)
        # while a GeoUnicast to a destination without LocTE lets the location service insert its placeholder into the table
        # (the window is between two bytecodes of the scan, not at a section boundary: bytecode level, fewest pre-emptions
        # first, every schedule with one pre-emption)
        {"name": "orig-vs-ls", "threads": [[["shb", 1]], [["guc", 2, 2, 9]]], "warm": True, "timer_depth": 0, "order": "bfs",
         "cap": 240, "ccap": 10, "pct": 8},
        # a lookup being registered || (a frame of a third station, then a second request to the same destination): the
        # reception's refresh_table can run between any two table accesses of the registration; section level exhausted
        {"name": "ls-rx-2req", "threads": [[["guc", 1, 1, 9]], [["shbRx", 2, 60], ["guc", 3, 2, 9]]], "timer_depth": 0,
         "ccap": 60, "frac": 0.5, "oracle_only_if_purging": True},
        # timer expiry racing with the discard by an overheard duplicate: the packet was buffered (and its CBF timer started)
        # before the threads run; the duplicate's reception || the timer thread, pre-empted only INSIDE the functions that
        # access the CBF buffer (`focus`), at every bytecode and lock operation there: every schedule with one pre-emption,
        # then those with two (discard pre-empted between two of its steps, expiry pre-empted between removal and transmission)
        {"name": "cbf-discard-expiry", "pre": [["gbcRx", 1, 7]], "pre_timers": True, "threads": [[["gbcRx", 2, 7]]], "warm": True,
         "focus": ["Router__cbf_buffer"], "order": "bfs", "cap": 130, "ccap": 12, "pct": 4},
        # the same for the forwarder's own cancel branch (a second forwarder call for the key) against the expiry
        {"name": "cbf-cancel-expiry", "pre": [["cbfA", 1, 7]], "pre_timers": True, "threads": [[["cbfA", 2, 7]]],
         "focus": ["Router__cbf_buffer"], "order": "bfs", "cap": 40, "ccap": 10, "pct": 4},
        # two LS replies of the same station (answers to the LS request and to its retransmission: different SNs, both pass
        # duplicate detection) handled by two receive threads while a request is buffered behind the lookup
        {"name": "ls-2reply", "pre": [["guc", 1, 1, 9]], "threads": [[["lsR", 2, 9]], [["lsR", 3, 9]]], "timer_depth": 0,
         "ccap": 40, "frac": 0.25},
    ]
    if ctx.thorough:
        out += [
            {"name": "ls-2req-reply", "threads": [[["guc", 1, 1, 9]], [["guc", 2, 2, 9]], [["lsR", 3, 9]]], "timer_depth": 0},
            {"name": "ls-giveup", "threads": [[["guc", 1, 1, 9]], [["lsR", 2, 9]]], "timer_depth": 2, "mr": 1},
            {"name": "mix4", "threads": [[["gbc", 1]], [["ego", 3], ["shb", 2]], [["cbfA", 3, 7]], [["cbfA", 4, 7]]]},
            {"name": "gbc-rx-2sn-purge", "threads": [[["gbcRx", 1, 7], ["gbcRx", 2, 8]], [["gbcRx", 3, 7]], [["shbRx", 4, 60]]],
             "timer_depth": 0},
            {"name": "shb-rx3-purge", "threads": [[["shbRx", 1, 60]], [["shbRx", 2, 60]], [["shbRx", 3, 60]], [["shbRx", 4, 61]]]},
        ]
    # a randomly composed one (2-3 threads, 1-2 ops; thorough: up to 4 threads x 3 ops) over the whole alphabet: origination,
    # ego refresh, forwarder calls, receptions (GBC of the cold source, SHB of a third station), unicast requests, LS replies
    pool = [["sn", 0], ["shb", 0], ["gbc", 0], ["ego", 0], ["cbfA", 0, 7], ["gbcRx", 0, 7], ["gbcRx", 0, 8], ["shbRx", 0, 60],
            ["guc", 0, 0, 9], ["lsR", 0, 9]]
    ths, oid = [], 20
    for _ in range(rng.choice([2, 3, 4] if ctx.thorough else [2, 3])):
        ops = []
        for _ in range(rng.choice([1, 2, 3] if ctx.thorough else [1, 2])):
            op = list(rng.choice(pool))
            oid += 1
            op[1] = oid if op[0] != "ego" else rng.randrange(1, 9)
            if op[0] == "guc":
                op[2] = oid
            ops.append(op)
        ths.append(ops)
    n_ls = sum(1 for th in ths for op in th if op[0] in ("guc", "lsR"))
    n_lsr = sum(1 for th in ths for op in th if op[0] == "lsR")
    if n_lsr > 3:                      # Frames prepares three replies per destination
        ths = [[op for op in th if op[0] != "lsR"] or [["sn", 99]] for th in ths]
    out.append({"name": "random", "threads": ths, "timer_depth": 1 if n_ls else 2})
    return out


CCAP = 30      # section-level schedules per scenario (quick); a scenario may ask for more ("ccap": enough to exhaust one pre-emption)


def section_cap(ctx, sc, factor=1):
    return factor * (ctx.scale(sc.get("ccap", CCAP), 10 * sc.get("ccap", CCAP)))


def explore(ctx, sc, frames, bound, cap, n_pct, observed, model=True, ccap=CCAP, stop_early=False):
    """systematic enumeration up to `bound` pre-emptions (section level: `ccap` runs, then bytecode level: `cap` runs), then PCT;
    judges every run"""
    state = {"est": 200, "found": 0}

    def handle(run):
        ctx.evals()
        out = run.outcome()
        bad = run.judge()
        ctx.cover("runs_" + sc["name"])
        ctx.cover("preemptions_%d" % min(dsched.preemptions(run.steps), 4))
        for e in run.s.events:
            if e[0] in ("cbf_ret",):
                ctx.cover("cbf_" + ("insert" if e[2] else "cancel"))
        if any(t.name.startswith("tm") for t in run.s.threads):
            ctx.cover("timer_threads", sum(1 for t in run.s.threads if t.name.startswith("tm")))
        ctx.nontrivial((sc["name"], out))
        if bad:
            state["found"] += 1
            if state["found"] == 1:      # the saved schedule must reproduce the run exactly
                again = Run(sc, dsched.Replay(run.choices), frames)
                if again.outcome() != out:
                    ctx.note(f"{sc['name']}: schedule replay diverged ({again.outcome()} vs {out})")
            ctx.violation(f"{sc['name']}: {bad[0]}", {"scenario": sc, "schedule": run.choices, "violations": bad[:5]},
                          classify(sc, bad))
        elif model:
            observed.setdefault(out, run.choices)
        return run

    def once(prefix):
        run = handle(Run(sc, dsched.Replay(prefix), frames))
        state["est"] = max(state["est"], run.s.nsteps)
        return run.steps

    # (1) section level, fewest pre-emptions first: threads are switched only where they take / release a lock, start or end
    # (the granularity of the block model) - every schedule with one such pre-emption, then two, as far as the cap allows
    cruns, cex = dsched.enumerate_schedules(once, bound, ccap, ctx.rng, kinds=dsched.COARSE_KINDS, order="bfs")
    ctx.cover("section_level_runs", cruns)
    if cex:
        ctx.cover("section_level_exhausted_bound_%d" % bound)
    if state["found"] and stop_early:
        return state["found"]
    # (2) bytecode level: pre-emption before every relevant instruction, sampled (the section-level schedules are among these:
    # one budget; a scenario that fixes its own caps keeps both)
    if "cap" not in sc:
        cap = max(cap - cruns, cap // 2)
    runs, exhausted = dsched.enumerate_schedules(once, bound, cap, ctx.rng, order=sc.get("order", "any"))
    ctx.cover("systematic_runs", runs)
    if exhausted:
        ctx.cover("systematic_exhausted_bound_%d" % bound)
    for i in range(n_pct):
        handle(Run(sc, dsched.PCT(ctx.rng, depth=2 + i % 3, est_steps=state["est"]), frames))
    ctx.cover("pct_runs", n_pct)
    return state["found"]


def check_model(ctx, batches):
    """every observed outcome must be producible by the Lean block model under some schedule"""
    if not ctx.model_ok:
        return
    lines = [model_line(sc) for sc, _ in batches]
    outs = ctx.model("ConcRouter", lines)
    for (sc, observed), line, res in zip(batches, lines, outs):
        if res == "bad-op":
            raise Infra(f"driver rejected {line}")
        allowed = set(res.split("|"))
        ctx.cover("model_outcomes", len(allowed))
        ctx.cover("observed_outcomes", len(observed))
        for out, choices in observed.items():
            if out not in allowed:
                ctx.mismatch("conc-router:" + sc["name"], {"scenario": sc, "schedule": choices}, out,
                             f"not among the {len(allowed)} outcomes of the block model")


def run(ctx):
    ctx.extra["rule"] = ("real threads on a real Router under the deterministic scheduler; per scenario: systematic "
                         "enumeration of schedules up to the pre-emption bound (capped), then PCT-randomised; "
                         "distinct_nontrivial counts distinct (scenario, outcome) pairs; every outcome is judged by the "
                         "oracle and looked up in the outcome set of the Lean block model")
    frames = Frames()
    bound = ctx.scale(2, 3)
    cap = ctx.scale(150, 1500)
    n_pct = ctx.scale(30, 400)
    # corpus first
    for name, c in corpus("C15"):
        case = c.get("case", c)
        if case.get("requires_unfixed"):
            continue
        r = Run(case["scenario"], dsched.Replay(case.get("schedule", [])), frames)
        r.outcome()
        bad = r.judge()
        ctx.evals()
        ctx.cover("corpus_cases")
        if bad:
            ctx.violation(f"corpus {name}: {bad[0]}", case, classify(case["scenario"], bad))
    VARIANT.update(detect_variants(frames))
    ctx.extra["variant"] = dict(VARIANT)
    batches = []
    for sc in scenarios(ctx):
        observed = {}
        oracle_only = sc.get("oracle_only") or (sc.get("oracle_only_if_purging") and VARIANT["loses_buffered_request"])
        if sc["name"] == "random" and model_cost(model_line(sc)) > MODEL_COST_LIMIT:
            oracle_only = True          # too many interleavings for the exhaustive model explorer
            ctx.cover("random_scenario_oracle_only")
        fr_ = sc.get("frac", 1.0) if not ctx.thorough else 1.0
        cap_ = ctx.scale(sc["cap"], 10 * sc["cap"]) if "cap" in sc else max(int(cap * fr_), 20)
        pct_ = ctx.scale(sc["pct"], 10 * sc["pct"]) if "pct" in sc else max(int(n_pct * fr_), 8)
        explore(ctx, sc, frames, bound, cap_, pct_, observed, model=not oracle_only, ccap=section_cap(ctx, sc))
        if oracle_only:
            continue
        batches.append((sc, observed))
        ctx.sample("scenario", {"scenario": sc["name"], "outcomes": len(observed), "example": next(iter(observed), None)})
    check_model(ctx, batches)


def search(ctx):
    """a theorem / generated obligation / correspondence broke: 3x volume on the real code, oracle only"""
    frames = Frames()
    VARIANT.update(detect_variants(frames))
    for sc in scenarios(ctx):
        explore(ctx, sc, frames, ctx.scale(2, 3), ctx.scale(450, 4500), ctx.scale(90, 1200), {}, model=False,
                ccap=section_cap(ctx, sc, 3), stop_early=True)
        if ctx.violations:
            return


def replay(ctx, obj):
    case = obj.get("case", obj)
    r = Run(case["scenario"], dsched.Replay(case.get("schedule", [])), Frames())
    out = r.outcome()
    bad = r.judge()
    print(f"scenario {case['scenario'].get('name')} schedule of {len(case.get('schedule', []))} choices -> {out}")
    for b in bad:
        print("  violated:", b)
    return bool(bad)

"""C16 — LDM operations are atomic under concurrent providers, consumers and maintenance.

Theorems: lean/Props/C16.lean (every schedule of the block model lean/FlexModel/Conc/LdmConc.lean; operation-level
linearisability outside the known region, `operations_linearizable`), lean/Props/C16Reduction.lean (the block model
over-approximates the instruction-level model: instantiation of lean/Props/ConcReduction.lean).
Tie: (i) lean/Generated/Locks.lean (harness/gen_locks.py): every DictionaryDataBase method / LDMService registry section
is ONE lock section containing all accesses, no lock is held across the calls of the multi-block operations;
lean/Generated/LdmShape.lean (harness/gen_ldm_shape.py): the synchronisation skeletons of the multi-block operations
(sections, loops, lock-taking calls in source order) and "no method stores into an object fetched from the data base" –
all `decide`d / `rfl` in LdmConc; (ii) schedule-level correspondence: 2-4 REAL threads issue IF.LDM.3 / IF.LDM.4 calls,
maintenance passes and attendance passes against the in-memory back-end (plain, reactive and thread variants; the
background loops of the thread variants are replaced by scheduler-driven threads running one pass) under
harness/dsched.py – scripted scenarios plus scenarios generated from the whole operation alphabet; schedules are
enumerated lock-boundary pre-emptions first; every observed outcome must be producible by the Lean block model under
SOME schedule (driver `ConcLdm explore …`).
Oracle: linearisability search of the recorded history (responses, callbacks, final store / registries / subscriptions,
real-time order) against a simple reference map written from the property text; exceptions; deadlock; id uniqueness;
responses are values (deep copies taken at delivery must still equal the delivered objects at the end); a filtered
request returns only objects satisfying its filter.
"No operation deadlocks" incl. the notification callback, which is USER code: scenarios with `"callback": "mutex"` (every
callback takes an application mutex; `["app", [ops]]` = the thread issues `ops` while it holds that mutex - the Lean
`sysApp` / driver `app{ … }`) and `"callback": "handover"` (the callback signals a worker thread and waits until the
worker's IF.LDM.4 request has been served; `["await", sem]` / `["signal", sem]`); the scheduler reports the wait-for
cycle as a deadlock.  Tie: `userCalls` of Generated/LdmShape.lean (`callbacks_outside_locks`) and the call chain down to
`process_notifications` (`notification_chain_unlocked`); theorem `ldm_no_deadlock` over all `sysApp` thread lists.
"""
from __future__ import annotations

import os as _os
import time as _time
import copy

import common
from common import Infra, corpus
import dsched
import gen_locks
import realstack as rs

from flexstack.facilities.local_dynamic_map import ldm_classes as K
import flexstack.facilities.local_dynamic_map.dictionary_database as db_mod
import flexstack.facilities.local_dynamic_map.ldm_service as svc_mod
import flexstack.facilities.local_dynamic_map.ldm_service_reactive as svc_r_mod
import flexstack.facilities.local_dynamic_map.ldm_service_threads as svc_t_mod
import flexstack.facilities.local_dynamic_map.ldm_maintenance as mnt_mod
import flexstack.facilities.local_dynamic_map.ldm_maintenance_reactive as mnt_r_mod
import flexstack.facilities.local_dynamic_map.ldm_maintenance_thread as mnt_t_mod
import flexstack.facilities.local_dynamic_map.if_ldm_3 as if3_mod
import flexstack.facilities.local_dynamic_map.if_ldm_4 as if4_mod
from flexstack.facilities.local_dynamic_map.ldm_constants import CAM, DENM, VAM

MODULES = ["Props.C16", "Props.C16Reduction", "Props.ConcReduction"]
DRIVERS = ["ConcLdm"]
TRUSTED = [
    "CPython: a single dict/set/list method call and a single attribute load/store are atomic (the scheduler pre-empts "
    "between bytecodes, never inside one); threading.Lock/RLock/Thread are replaced by scheduler-aware equivalents",
    "block model: records are codes 2*payload+expiredBit: queries return the payload, the bit stands for timestamp/time "
    "validity, an update replaces the payload and keeps the bit; the hand-stated micro-step decomposition of the lock "
    "sections and its read/write sets (lean/FlexModel/Conc/LdmFine.lean) mirror the accesses listed in Generated/Locks.lean; "
    "`updMt`: get+update under LDMMaintenanceThread.data_containers_lock is ONE block (generated fact `mt_wraps`, not reduced)",
    "harness/gen_locks.py, harness/gen_ldm_shape.py, harness/dsched.py, the reference map and the linearisability search in this file",
]
ASSUMPTIONS = [
    "in-memory back-end (DictionaryDataBase); TinyDB is out of the property's scope",
    "fixes C12-delete-by-id, C12-update-keeps-record, C14-no-callback-after-deregister are part of the code under test; "
    "on a tree without them the scenarios that exercise update / delete / deregistration are skipped (noted in evidence)",
    "the model mirrors the code WITH fixes C16-delete-result and C16-unsubscribe-result (fixes/C16-*.diff): on a tree "
    "without them the check reports the double delete / double unsubscribe as violations",
    "known finding C16-KF1: IF.LDM.3 update_provider_data is check-then-act (exists; get; get; update) without a lock "
    "across the steps in the plain / reactive maintenance variants",
    "known finding C16-KF2: registration checks are check-then-act (an operation overlapping a deregistration of its own "
    "application takes effect after it; two overlapping deregistrations are both acknowledged; an attendance pass may "
    "notify a consumer that deregistered between its registration check and its search)",
    "objects are placed outside the LDM's area of maintenance (area collection = known finding C12-KF1)",
    "notification callbacks are user code: what they may wait for is modelled by ONE application mutex (held by other "
    "threads around their LDM calls) resp. a hand-over to one worker thread; the application itself does not run an "
    "attendance pass inside that mutex (Lean `AppOk`); a callback that re-enters the LDM on its own thread is not modelled",
]

T0 = 1_700_000_000_000
AIDS = {1: CAM, 2: DENM, 3: VAM}
AID_BACK = {v: k for k, v in AIDS.items()}
FILES = [m.__file__ for m in (db_mod, svc_mod, svc_r_mod, svc_t_mod, mnt_mod, mnt_r_mod, mnt_t_mod, if3_mod, if4_mod)]
PATCH_MODS = [db_mod, svc_mod, svc_r_mod, svc_t_mod, mnt_r_mod, mnt_t_mod]

_codes = None


def opcode_codes():
    global _codes
    if _codes is None:
        info = gen_locks.analyse()
        names = set(info["blocks"].keys()) | {r[0] for r in info["records"]} | set(info["calls"].keys())
        codes = []
        for mod in (db_mod, svc_mod, svc_r_mod, svc_t_mod, mnt_mod, mnt_r_mod, mnt_t_mod, if3_mod, if4_mod):
            for cname, cls in vars(mod).items():
                if isinstance(cls, type) and cls.__module__ == mod.__name__:
                    for n, f in vars(cls).items():
                        if f"{cname}_{n}" in names and hasattr(f, "__code__"):
                            codes.append(f.__code__)
        _codes = codes
    return _codes


class _NoThread:
    """threading.Thread stand-in inside ldm_*_thread(s): the background loop is not started; the harness runs its body
    (one pass) in a scheduler-driven thread instead"""

    def __init__(self, *a, **k):
        self.daemon = True

    def start(self):
        pass

    def join(self, *a):
        pass


class _FakeTime:
    def __init__(self):
        self.t = 1000.0

    def monotonic(self):
        self.t += 10.0          # every reactive check finds its interval elapsed
        return self.t

    def sleep(self, d):
        pass

    def time(self):
        return T0 / 1000.0


class SSem:
    """scheduler-aware counting semaphore of the APPLICATION (hand-over between a notification callback and its worker)"""

    def __init__(self, name):
        self.n, self.name = 0, name

    def _free_for(self, ts):
        return self.n > 0

    def signal(self):
        self.n += 1
        s = dsched._active
        if s is not None and s.me() is not None:
            s.yield_point("rel")

    def wait(self):
        s = dsched._active
        s.yield_point("acq")
        while self.n <= 0:
            s.block_on(self)
        self.n -= 1


PSEUDO = ("app", "await", "signal")


def flat_ops(ops):
    """the LDM operations of a thread's list (`["app", [ops]]` unwrapped, application pseudo-operations dropped)"""
    out = []
    for op in ops:
        if op[0] == "app":
            out += flat_ops(op[1])
        elif op[0] not in PSEUDO:
            out.append(op)
    return out


# ------------------------------------------------------------------------------------------------ reference map


class Ref:
    """the LDM as the property describes it: a map id -> object, two registries, a subscription list"""

    def __init__(self):
        self.store, self.next, self.prov, self.cons, self.subs = {}, 0, set(), set(), []

    def key(self):
        return (tuple(self.store.items()), self.next, frozenset(self.prov), frozenset(self.cons), tuple(self.subs))

    def copy(self):
        r = Ref()
        r.store, r.next, r.prov, r.cons, r.subs = dict(self.store), self.next, set(self.prov), set(self.cons), list(self.subs)
        return r

    def apply(self, op, fixed):
        """returns the response (canonical tuple)"""
        k = op[0]
        if k == "regP":
            self.prov.add(op[1])
            return ()
        if k == "regC":
            self.cons.add(op[1])
            return ()
        if k == "deregP":
            had = op[2] in self.prov
            self.prov.discard(op[2])
            return (int(had),)
        if k == "deregC":
            had = op[2] in self.cons
            self.cons.discard(op[2])
            if had and fixed["dereg_drops_subs"]:
                self.subs = [s for s in self.subs if s // 100 != op[2]]
            return (int(had),)
        if k == "add":
            if op[2] not in self.prov:
                return ()
            i = self.next
            self.store[i] = op[3]
            self.next += 1
            return (i,)
        if k == "upd":
            if op[2] in self.store:
                self.store[op[2]] = 2 * op[3] + self.store[op[2]] % 2       # payload replaced, validity kept
                return (0,)
            return (1,)
        if k == "del":
            if op[2] in self.store:
                del self.store[op[2]]
                return (1,)
            return (0,)
        if k == "qry":
            if op[2] not in self.cons:
                return (0, None)
            return (1, tuple(v // 2 for v in self.store.values()))
        if k == "qryf":                      # filtered request: cam.v == op[3] AND cam.w == op[4] (both carry the payload)
            if op[2] not in self.cons:
                return (0, None)
            return (1, tuple(v // 2 for v in self.store.values() if v // 2 == op[3] == op[4]))
        if k == "sub":
            if op[2] not in self.cons:
                return (0,)
            self.subs.append(op[3])
            return (1,)
        if k == "unsub":
            if op[2] not in self.cons:
                return (0, 0)
            if op[3] in self.subs:
                self.subs = [s for s in self.subs if s != op[3]]
                return (1, 1)
            return (1, 0)
        if k == "gc":
            for i in [i for i, v in self.store.items() if v % 2 == 1]:
                del self.store[i]
            return ()
        if k == "attend":
            calls, drop = [], []
            for s in list(self.subs):
                if s // 100 not in self.cons:
                    drop.append(s)
                    continue
                rows = tuple(v // 2 for v in self.store.values())
                if rows:
                    calls.append((s, rows))
            self.subs = [s for s in self.subs if s not in drop]
            return tuple(calls)
        # direct database calls (DictionaryDataBase scenario)
        if k == "dbins":
            i = self.next
            self.store[i] = op[2]
            self.next += 1
            return (i,)
        if k == "dbget":
            return (self.store.get(op[2], -1),)
        if k == "dbupd":
            self.store[op[2]] = op[3]
            return ()
        if k == "dbrem":
            for i, v in list(self.store.items()):
                if v == op[2]:
                    del self.store[i]
                    return (1,)
            return (0,)
        if k == "dball":
            return tuple(self.store.values())
        if k == "dbex":
            return (int(op[2] in self.store),)
        raise Infra(f"reference: unknown op {op}")


GATED = {"add": "prov", "qry": "cons", "qryf": "cons", "sub": "cons", "unsub": "cons", "deregP": "prov", "deregC": "cons"}
APP_OPS = {"prov": ("regP", "deregP", "add"), "cons": ("regC", "deregC", "qry", "qryf", "sub", "unsub")}


def gate_observed(op, resp):
    return bool(resp) if op[0] == "add" else resp[0] == 1


def apply_action(ref, op, passed, fixed):
    """the action of a gated operation given the outcome of its registration check"""
    reg = ref.prov if GATED[op[0]] == "prov" else ref.cons
    if op[0] in ("deregP", "deregC"):        # check failed: nothing happens; check passed: discard (idempotent)
        if not passed:
            return (0,)
        reg.add(op[2])
        return ref.apply(op, fixed)
    had = op[2] in reg
    (reg.add if passed else reg.discard)(op[2])
    try:
        return ref.apply(op, fixed)
    finally:
        (reg.add if had else reg.discard)(op[2])


def app_of(op):
    """(registry, application) an operation reads or writes, or None"""
    k = op[0]
    for reg, names in APP_OPS.items():
        if k in names:
            return (reg, op[1] if k in ("regP", "regC") else op[2])
    return None


def kf2_region(history):
    """C16-KF2, exact region: the gated operations (registration check, then the action in another lock section) that
    OVERLAP IN REAL TIME a deregistration of their own application by another operation.  Only these may be given two
    linearisation points when a history is tested for membership in the known finding."""
    out = set()
    for i, (op, _, inv, ret) in enumerate(history):
        if op[0] not in GATED and op[0] != "attend":
            continue
        for j, (op2, _, inv2, ret2) in enumerate(history):
            if j == i or op2[0] not in ("deregP", "deregC") or ret2 < inv or ret < inv2:
                continue
            # an attendance pass checks the registration of every subscriber before it searches for it
            if (op[0] == "attend" and op2[0] == "deregC") or (op[0] != "attend" and app_of(op2) == app_of(op)):
                out.add(i)
    return frozenset(out)


def upd_steps(op, ref, phase, bit, thread_variant):
    """C16-KF1: IF.LDM.3 update_provider_data as the code executes it - exists ; get (type check) ; get ; update, each
    its own database lock section (with LDMMaintenanceThread the last two are one `data_containers_lock` section).
    Returns (next phase | None, captured validity bit, response | None); mutates `ref` in the last step."""
    i, w = op[2], op[3]
    present = i in ref.store
    if phase == 0:
        return (1, bit, None) if present else (None, bit, (1,))
    if phase == 1:
        return (2, bit, None) if present else (None, bit, (2,))
    if phase == 2:
        if not present:
            return (None, bit, (2,))
        if thread_variant:
            ref.store[i] = 2 * w + ref.store[i] % 2
            return (None, bit, (0,))
        return (3, ref.store[i] % 2, None)
    ref.store[i] = 2 * w + bit               # `database[index] = data`: re-creates an absent row
    return (None, bit, (0,))


def linearizable(history, final_key, fixed, setup, split_gates=frozenset(), split_upd=False, thread_variant=False):
    """history: list of (op, response, inv_index, ret_index).  Wing & Gong search with memoisation.
    A maintenance pass (`gc`) is not required to be atomic: it is explained as a series of deletions of objects that
    are expired at the moment they are deleted, each taking effect somewhere between the pass's invocation and its
    return (an expired object may disappear at any instant).  An attendance pass is a loop over a copy of the
    subscription list: each subscription is served (registration check, query, callback) at its own instant.  Every
    other operation takes effect atomically - except, when a history is tested for membership in a KNOWN finding,
    the operations named by `split_gates` (history indices: registration check and action at two instants, C16-KF2)
    and, with `split_upd`, every `upd` (the code's four steps at four instants, C16-KF1)."""
    n = len(history)
    ref0 = Ref()
    for op in setup:
        ref0.apply(op, fixed)
    before = [[j for j in range(n) if history[j][3] < history[i][2]] for i in range(n)]
    is_gc = [history[i][0][0] == "gc" for i in range(n)]
    seen = set()
    if split_gates is True:
        split_gates = frozenset(i for i in range(n) if history[i][0][0] in GATED)

    is_att = [history[i][0][0] == "attend" for i in range(n)]

    def go(done, opened, ref, gated=frozenset(), att=frozenset(), upds=frozenset()):
        if len(done) == n:
            return ref.key() == final_key
        k = (done, opened, ref.key(), gated, att, upds)
        if k in seen:
            return False
        seen.add(k)
        for a in att:                          # a running attendance pass: one subscription at a time
            i, remaining, calls, drop = a
            if remaining:
                sid = remaining[0]
                if isinstance(sid, tuple):     # KF2 region only: registration already checked, the search happens now
                    rows = tuple(v // 2 for v in ref.store.values())
                    a2 = (i, remaining[1:], calls + (((sid[0], rows),) if rows else ()), drop)
                elif sid // 100 not in ref.cons:
                    a2 = (i, remaining[1:], calls, drop + (sid,))
                elif i in split_gates:
                    a2 = (i, ((sid,),) + remaining[1:], calls, drop)
                else:
                    rows = tuple(v // 2 for v in ref.store.values())
                    a2 = (i, remaining[1:], calls + (((sid, rows),) if rows else ()), drop)
                if go(done, opened, ref, gated, (att - {a}) | {a2}, upds):
                    return True
            elif calls == history[i][1]:
                r2 = ref.copy()
                r2.subs = [x for x in r2.subs if x not in drop]
                if go(done | {i}, opened, r2, gated, att - {a}, upds):
                    return True
        for g in opened:                       # a step of a running maintenance pass, or its end
            if go(done | {g}, opened - {g}, ref, gated, att, upds):
                return True
            for i, v in list(ref.store.items()):
                if v % 2 == 1:
                    r2 = ref.copy()
                    del r2.store[i]
                    if go(done, opened, r2, gated, att, upds):
                        return True
        for i in gated:                        # second half of a gated operation (KF2 region only)
            op, resp = history[i][0], history[i][1]
            r2 = ref.copy()
            if apply_action(r2, op, gate_observed(op, resp), fixed) == resp:
                if go(done | {i}, opened, r2, gated - {i}, att, upds):
                    return True
        for u in upds:                         # next step of a split update (KF1 test only)
            i, phase, bit = u
            r2 = ref.copy()
            nxt, bit2, resp = upd_steps(history[i][0], r2, phase, bit, thread_variant)
            if nxt is None:
                if resp == history[i][1] and go(done | {i}, opened, r2, gated, att, upds - {u}):
                    return True
            elif go(done, opened, r2, gated, att, (upds - {u}) | {(i, nxt, bit2)}):
                return True
        running = {a[0] for a in att} | {u[0] for u in upds}
        for i in range(n):
            if i in done or i in opened or i in gated or i in running or any(j not in done for j in before[i]):
                continue
            if is_gc[i]:
                if go(done, opened | {i}, ref, gated, att, upds):
                    return True
                continue
            if is_att[i] and fixed.get("attend_checks_first"):
                if go(done, opened, ref, gated, att | {(i, tuple(ref.subs), (), ())}, upds):
                    return True
                continue
            op, resp = history[i][0], history[i][1]
            if i in split_gates and op[0] in GATED:
                reg = ref.prov if GATED[op[0]] == "prov" else ref.cons
                if (op[2] in reg) == gate_observed(op, resp):
                    if go(done, opened, ref, gated | {i}, att, upds):
                        return True
                continue
            if split_upd and op[0] == "upd":
                if go(done, opened, ref, gated, att, upds | {(i, 0, 0)}):
                    return True
                continue
            r2 = ref.copy()
            if r2.apply(op, fixed) == resp:
                if go(done | {i}, opened, r2, gated, att, upds):
                    return True
        return False
    return go(frozenset(), frozenset(), ref0)


# ------------------------------------------------------------------------------------------------ real runs


def mk_add(aid, code, now_its):
    """object values in scenarios are codes 2*payload + expiredBit (the bit stands for timestamp / time validity)"""
    exp = code % 2
    ts = K.TimestampIts(now_its - (100000 if exp else 0))
    loc = K.Location.initializer(latitude=515000000, longitude=21000000)       # outside the area of maintenance
    return K.AddDataProviderReq(aid, ts, loc, {"cam": {"v": code // 2, "w": code // 2}}, K.TimeValidity(1 if exp else 1000))


def val(container):
    return container["dataObject"]["cam"]["v"]


def code_of(container):
    if "timeValidity" in container:
        return 2 * val(container) + (1 if container["timeValidity"] == 1 else 0)
    return val(container)                    # rows written through the bare DictionaryDataBase API


class Run:
    def __init__(self, sc, policy, max_steps=80000):
        self.sc = sc
        variant = sc.get("variant", "plain")
        fake = _FakeTime()
        saved_time = (mnt_r_mod.time, svc_r_mod.time, mnt_t_mod.time)
        mnt_r_mod.time = svc_r_mod.time = mnt_t_mod.time = fake
        try:
            with rs.VClock(T0):
                with dsched.patched(PATCH_MODS, extra={"Thread": _NoThread}):
                    area = K.Location.initializer(latitude=415000000, longitude=21000000)
                    self.db = db_mod.DictionaryDataBase()
                    if sc.get("nolock"):
                        setattr(self.db, "_lock", dsched.NoLock())
                    if variant == "thread":
                        m = mnt_t_mod.LDMMaintenanceThread(area, self.db)
                        s = svc_t_mod.LDMServiceThreads(m)
                    elif variant == "reactive":
                        m = mnt_r_mod.LDMMaintenanceReactive(area, self.db)
                        s = svc_r_mod.LDMServiceReactive(m)
                    else:
                        m = mnt_mod.LDMMaintenance(area, self.db)
                        s = svc_mod.LDMService(m)
                    self.m, self.svc = m, s
                    for obj in (self.db, m, s):          # deterministic lock names (deadlock reports)
                        for attr, v in vars(obj).items():
                            if isinstance(v, dsched.SLock):
                                v.name = f"{type(obj).__name__}.{attr}"
                    self.i3, self.i4 = if3_mod.InterfaceLDM3(s), if4_mod.InterfaceLDM4(s)
                    self.now_its = K.TimestampIts.initialize_with_utc_timestamp_seconds(T0 // 1000).timestamp_its
                    self.sub_ids = {}
                    self.app_mutex = dsched.SLock(False, name="application mutex")
                    self.sems = {"go": SSem("application semaphore go"), "done": SSem("application semaphore done")}
                    self.history = []
                    self.live = []          # (label, objects handed out in a response / notification, deep copies taken then)
                    sched = dsched.DSched(policy, line_files=FILES, opcode_codes=opcode_codes(), max_steps=max_steps)
                    self.s = sched
                    self._instrument(variant)
                    for op in sc.get("setup", []):
                        self._do(op, None)
                    self.setup_hist = self.history
                    self.history = []
                    sched.events.clear()
                    for ti, ops in enumerate(sc["threads"]):
                        sched.spawn(self._body(ti, ops), name=f"T{ti}")
                    with rs.quiet():
                        sched.run(timeout=30.0)
        finally:
            mnt_r_mod.time, svc_r_mod.time, mnt_t_mod.time = saved_time
        self.steps = sched.steps
        self.choices = [c[0] for c in sched.steps]

    def _instrument(self, variant):
        """reactive variants: the maintenance pass and the attendance pass triggered by an add are operations of their own"""
        self.cur = {}
        if variant == "reactive":
            m, s, sched = self.m, self.svc, self.s
            orig_ct, orig_at = m.collect_trash, s.attend_subscriptions

            def ct():
                me = sched.me()
                self._sub_op(me, "gc", orig_ct)

            def at():
                me = sched.me()
                self._sub_op(me, "attend", orig_at)
            m.collect_trash, s.attend_subscriptions = ct, at

    def _sub_op(self, me, kind, fn):
        ctx = self.cur.get(me.tid if me else None)
        if ctx is None or ctx["op"][0] in ("gc", "attend"):      # an explicit pass is its own operation already
            return fn()
        # close the enclosing add, open the triggered pass
        if not ctx.get("closed"):
            ctx["closed"] = len(self.s.events)
            self.s.log("ret", ctx["hid"])
        oid = ctx["op"][1] * 10 + (1 if kind == "gc" else 2)
        hid = len(self.history)
        rec = {"op": [kind, oid], "inv": len(self.s.events), "calls": []}
        self.history.append(rec)
        self.s.log("inv", hid)
        prev = ctx.get("sub")
        ctx["sub"] = rec
        try:
            fn()
        finally:
            ctx["sub"] = prev
            rec["ret"] = len(self.s.events)
            rec["resp"] = tuple(rec["calls"]) if kind == "attend" else ()
            self.s.log("ret", hid)

    def _callback(self, sid):
        def cb(resp):
            # user code: it may wait for the application - a mutex the application holds around its own LDM calls, or
            # a worker thread it hands the notification to and whose IF.LDM.4 request it waits for
            mode = self.sc.get("callback")
            if mode == "mutex":
                with self.app_mutex:
                    return deliver(resp)
            if mode == "handover":
                self.sems["go"].signal()
                self.sems["done"].wait()
            return deliver(resp)

        def deliver(resp):
            rows = tuple(val(d) for d in resp.data_objects)
            self.live.append((f"notification of subscription {sid}", list(resp.data_objects), copy.deepcopy(list(resp.data_objects))))
            me = self.s.me()
            ctx = self.cur.get(me.tid if me else None)
            self.s.log("cb", sid, rows)
            if ctx is not None:
                (ctx.get("sub") or ctx["rec"])["calls"].append((sid, rows))
        return cb

    def _body(self, ti, ops):
        def seq(ops):
            for op in ops:
                if op[0] == "app":            # the application issues these calls while it holds its mutex
                    with self.app_mutex:
                        seq(op[1])
                elif op[0] == "await":
                    self.sems[op[1]].wait()
                elif op[0] == "signal":
                    self.sems[op[1]].signal()
                else:
                    self._do(op, ti)

        def body():
            seq(ops)
        return body

    def _do(self, op, ti):
        s = self.s
        hid = len(self.history)
        rec = {"op": op, "inv": len(s.events), "calls": []}
        self.history.append(rec)
        ctx = {"op": op, "hid": hid, "rec": rec}
        if ti is not None:
            self.cur[ti] = ctx
        s.log("inv", hid)
        try:
            resp = self._call(op)
        except Infra:
            raise
        except Exception as e:        # noqa: BLE001 - what a REAL operation raises is an observation, judged by the oracle
            # ("no operation raises"): the operation gets the pseudo response ("raised", type) and the thread goes on with
            # its next call, as an application that caught the exception would
            rec["exc"] = f"{type(e).__name__}: {e}"
            resp = ("raised", type(e).__name__)
        finally:
            if ti is not None:
                self.cur.pop(ti, None)
        if op[0] == "attend" and "exc" not in rec:
            resp = tuple(rec["calls"])
        rec["resp"] = resp
        if ctx.get("closed"):
            rec["ret"] = ctx["closed"]
        else:
            rec["ret"] = len(s.events)
            s.log("ret", hid)

    def _call(self, op):
        k = op[0]
        i3, i4 = self.i3, self.i4
        now = K.TimestampIts(self.now_its)
        if k == "regP":
            i3.register_data_provider(K.RegisterDataProviderReq(AIDS[op[1]], (K.AccessPermission(AIDS[op[1]]),), K.TimeValidity(1000)))
            return ()
        if k == "regC":
            i4.register_data_consumer(K.RegisterDataConsumerReq(AIDS[op[1]], (K.AccessPermission(AIDS[op[1]]),), None))
            return ()
        if k == "deregP":
            r = i3.deregister_data_provider(K.DeregisterDataProviderReq(AIDS[op[2]]))
            return (1 - int(r.result),)
        if k == "deregC":
            r = i4.deregister_data_consumer(K.DeregisterDataConsumerReq(AIDS[op[2]]))
            return (1 - int(r.ack),)
        if k == "add":
            r = i3.add_provider_data(mk_add(AIDS[op[2]], op[3], self.now_its))
            return () if r.data_object_id < 0 else (int(r.data_object_id),)
        if k == "upd":
            r = i3.update_provider_data(K.UpdateDataProviderReq(CAM, op[2], now, K.Location.initializer(),
                                                                {"cam": {"v": op[3], "w": op[3]}}, K.TimeValidity(1)))
            return (int(r.result),)
        if k == "del":
            r = i3.delete_provider_data(K.DeleteDataProviderReq(CAM, op[2], now))
            return (1 if int(r.result) == int(K.DeleteDataProviderResult.SUCCEED) else 0,)
        if k in ("qry", "qryf"):
            flt = None
            if k == "qryf":
                flt = K.Filter(K.FilterStatement("cam.v", K.ComparisonOperators.EQUAL, op[3]), K.LogicalOperators.AND,
                               K.FilterStatement("cam.w", K.ComparisonOperators.EQUAL, op[4]))
            r = i4.request_data_objects(K.RequestDataObjectsReq(AIDS[op[2]], (CAM,), None, None, flt))
            if int(r.result) != 0:
                return (0, None)
            # the response as the consumer receives it: the objects themselves and a deep copy taken NOW
            self.live.append((f"response of {op}", list(r.data_objects), copy.deepcopy(list(r.data_objects))))
            return (1, tuple(val(d) for d in r.data_objects))
        if k == "sub":
            sid = op[3]
            req = K.SubscribeDataobjectsReq(application_id=AIDS[op[2]], data_object_type=(CAM,), priority=sid % 100,
                                            filter=None, notify_time=None, multiplicity=None, order=None)
            r = i4.subscribe_data_consumer(req, self._callback(sid))
            if int(r.result) != 0:
                return (0,)
            self.sub_ids[sid] = r.subscription_id
            return (1,)
        if k == "unsub":
            real = self.sub_ids.get(op[3], 987654321)
            r = i4.unsubscribe_data_consumer(K.UnsubscribeDataConsumerReq(AIDS[op[2]], real))
            a = int(r.result)
            if a != 0 and r.subscription_id == 0:       # "not a registered consumer" answers with subscription id 0
                return (0, 0)
            return (1, 1) if a == 0 else (1, 0)
        if k == "gc":
            self.m.collect_trash()
            return ()
        if k == "attend":
            self.svc.attend_subscriptions()
            return ()
        db = self.db
        if k == "dbins":
            return (db.insert({"dataObject": {"cam": {"v": op[2]}}}),)
        if k == "dbget":
            d = db.get(op[2])
            return (-1 if d is None else val(d),)
        if k == "dbupd":
            db.update({"dataObject": {"cam": {"v": op[3]}}}, op[2])
            return ()
        if k == "dbrem":
            return (int(db.remove({"dataObject": {"cam": {"v": op[2]}}})),)
        if k == "dball":
            return tuple(val(d) for d in db.all())
        if k == "dbex":
            return (int(db.exists("dataObjectID", op[2])),)
        raise Infra(f"unknown op {op}")

    # -- observation
    def final_key(self):
        store = tuple((i, code_of(d)) for i, d in self.db.database.items())
        back = {v: k for k, v in self.sub_ids.items()}
        subs = tuple(back.get(hash(si.subscription_request), -1) for si in self.svc.subscriptions)
        prov = frozenset(AID_BACK.get(a, a) for a in self.svc.data_provider_its_aid)
        cons = frozenset(AID_BACK.get(a, a) for a in self.svc.data_consumer_its_aid)
        return (store, self.db._next_id, prov, cons, subs)

    def outcome(self):
        """the string the Lean driver prints for the same run"""
        sc = self.sc
        allops = list(sc.get("setup", [])) + [r["op"] for r in self.history]
        ids = sorted({op[1] for op in allops if op[0] not in ("regP", "regC")})
        resp = {}
        for r in self.setup_hist + self.history:
            op = r["op"]
            if op[0] in ("regP", "regC"):
                continue
            if op[0] == "qry":
                resp[op[1]] = [r["resp"][0]]
            elif op[0] in ("gc", "attend"):
                resp[op[1]] = []
            else:
                resp[op[1]] = list(r["resp"])
        rstr = ";".join(f"{o}:{','.join(map(str, resp.get(o, [])))}" for o in ids)
        qs = sorted(r["op"][1] for r in self.history if r["op"][0] == "qry")
        qmap = {r["op"][1]: r["resp"] for r in self.history if r["op"][0] == "qry"}
        qstr = ";".join(f"{o}:{','.join(map(str, qmap[o][1])) if qmap[o][0] else '-'}" for o in qs)
        kstr = ";".join(f"{e[1]}:{','.join(map(str, e[2]))}" for e in self.s.events if e[0] == "cb")
        store, _, prov, cons, subs = self.final_key()
        aids = sorted({op[2] if op[0] not in ("regP", "regC") else op[1] for op in allops
                       if op[0] in ("regP", "regC", "deregP", "deregC", "add", "qry", "sub", "unsub")})
        errs = sum(1 for t in self.s.threads if t.exc is not None)
        return (f"R={rstr}_Q={qstr}_K={kstr}_D={','.join(f'{i}.{v // 2}' for i, v in store)}"
                f"_P={','.join(str(a) for a in aids if a in prov)}_C={','.join(str(a) for a in aids if a in cons)}"
                f"_S={','.join(map(str, subs))}_E={errs}")

    def judge(self, fixed):
        sc, s = self.sc, self.s
        bad = []
        if s.abort_reason == "deadlock":
            bad.append("deadlock: " + ", ".join(f"{t} waits for {l}" for t, l in s.deadlock) + " - no thread can move (a "
                       "notification callback that waits for the application while an LDM lock is held, or a lock-order cycle)")
        elif s.abort_reason:
            raise Infra(f"scheduler aborted: {s.abort_reason}")
        for r in self.history:
            if "exc" in r:
                bad.append(f"RAISED: operation {r['op']} raised {r['exc'][:200]} instead of answering (no operation raises)")
        for t in s.threads:
            if t.exc is not None:
                bad.append(f"operation raised in {t.name}: {type(t.exc).__name__}: {t.exc}")
        if bad:
            return bad
        if any("resp" not in r for r in self.history):
            raise Infra(f"operation without a response in a run that neither raised nor deadlocked: {self.history}")
        ids = [r["resp"][0] for r in self.history if r["op"][0] in ("add", "dbins") and r["resp"]]
        if len(set(ids)) != len(ids):
            bad.append(f"identifiers not unique: {sorted(ids)}")
        # a response is a value: what a consumer was handed must still be what it was handed (no operation rewrites
        # objects already returned); and a filtered request returns only objects that satisfy its filter
        for label, objs, snap in self.live:
            if objs != snap:
                chg = next((a, b) for a, b in zip(snap, objs) if a != b)
                bad.append(f"ALIASING: {label} changed after it was delivered: object was {chg[0].get('dataObject')} and is "
                           f"now {chg[1].get('dataObject')} (a stored object was modified in place)")
                break
        for r in self.history:
            if r["op"][0] == "qryf" and r["resp"][0] == 1 and (r["op"][3] != r["op"][4] or any(v != r["op"][3] for v in r["resp"][1])):
                if r["resp"][1]:
                    bad.append(f"FILTER: {r['op']} returned {r['resp'][1]}: no object ever satisfied cam.v == {r['op'][3]} AND "
                               f"cam.w == {r['op'][4]} (every object carries v == w)")
        hist = [(r["op"], r["resp"], r["inv"], r["ret"]) for r in self.history]
        if not linearizable(hist, self.final_key(), fixed, sc.get("setup", [])):
            bad.append("NOT-LINEARIZABLE: no sequential order of the operations explains responses "
                       f"{[(tuple(h[0]), h[1]) for h in hist]} and final state {self.final_key()[0]}")
        return bad


# ------------------------------------------------------------------------------------------------ model side


def model_line(sc, passes=None):
    """`passes`: ids of the time-triggered passes (reactive variants) that actually ran in the observed executions –
    whether `monotonic() - last >= interval` holds is a race of its own, outside the block model"""
    variant = sc.get("variant", "plain")
    nsub = sum(1 for th in [sc.get("setup", [])] + sc["threads"] for op in flat_ops(th) if op[0] == "sub")
    nrow = sum(1 for th in [sc.get("setup", [])] + sc["threads"] for op in flat_ops(th) if op[0] == "add") + 1

    def tok(op, dereg_n):
        k = op[0]
        if k == "app":
            return ["app{"] + [t for o in op[1] for t in tok(o, dereg_n)] + ["}"]
        if k in ("regP", "regC"):
            return [f"{k}:{op[1]}"]
        if k == "deregP":
            return [f"deregP:{op[1]}:{op[2]}"]
        if k == "deregC":
            return [f"deregC:{op[1]}:{op[2]}:{dereg_n}"]
        if k == "add":
            t = [f"add:{op[1]}:{op[2]}:{op[3]}"]
            if variant == "reactive":
                if passes is None or op[1] * 10 + 1 in passes:
                    t.append(f"gc:{op[1] * 10 + 1}:{nrow}")
                if passes is None or op[1] * 10 + 2 in passes:
                    t.append(f"attend:{op[1] * 10 + 2}:{nsub}")
            return t
        if k == "upd":
            return [f"{'updMt' if variant == 'thread' else 'upd'}:{op[1]}:{op[2]}:{op[3]}"]
        if k == "del":
            return [f"del:{op[1]}:{op[2]}"]
        if k == "qry":
            return [f"qry:{op[1]}:{op[2]}"]
        if k in ("sub", "unsub"):
            return [f"{k}:{op[1]}:{op[2]}:{op[3]}"]
        if k == "gc":
            return [f"gc:{op[1]}:{nrow}"]
        if k == "attend":
            return [f"attend:{op[1]}:{nsub}"]
        raise Infra(f"no model op for {op}")
    dn = nsub if VARIANT.get("dereg_drops_subs") else 0
    setup = [t for op in sc.get("setup", []) for t in tok(op, dn)]
    threads = [[t for op in th for t in tok(op, dn)] for th in sc["threads"]]
    return "explore " + " ".join(setup) + " // " + " / ".join(" ".join(t) for t in threads)


VARIANT = {"delete_by_id": True, "update_keeps_record": True, "dereg_drops_subs": True, "attend_checks_first": True}


def detect_variants():
    """sequential probes: which repairs of the sequential LDM defects (C12 / C14) does the tree contain"""
    sc = {"name": "probe", "setup": [], "threads": [[["regP", 1], ["regC", 1], ["add", 1, 1, 4], ["sub", 2, 1, 101],
                                                     ["upd", 3, 0, 6], ["deregC", 4, 1], ["attend", 5], ["del", 6, 0]]]}
    r = Run(sc, dsched.Replay([]))
    store = r.final_key()[0]
    h = {tuple(x["op"][:2]): x.get("resp") for x in r.history}
    errs = [t.exc for t in r.s.threads if t.exc is not None] + [x["exc"] for x in r.history if "exc" in x]
    return {
        "delete_by_id": store == () and not errs,
        "update_keeps_record": h.get(("upd", 3)) == (0,) and not errs,
        "dereg_drops_subs": r.final_key()[4] == () ,
        "attend_checks_first": h.get(("attend", 5), ()) == (),
    }


# ------------------------------------------------------------------------------------------------ scenarios


def scenarios(ctx):
    S = []
    P = [["regP", 1], ["regC", 1]]
    S.append({"name": "db-insert2", "db_only": True, "threads": [[["dbins", 1, 3]], [["dbins", 2, 4]], [["dball", 3]]]})
    S.append({"name": "db-mixed", "db_only": True, "setup": [["dbins", 9, 3]],
              "threads": [[["dbins", 1, 4], ["dbget", 2, 0]], [["dbrem", 3, 3], ["dbex", 4, 0]], [["dbupd", 5, 1, 6], ["dball", 6]]]})
    S.append({"name": "add-add-qry", "setup": P, "threads": [[["add", 1, 1, 4]], [["add", 2, 1, 6]], [["qry", 3, 1]]]})
    S.append({"name": "registry", "threads": [[["regP", 1], ["add", 1, 1, 4]], [["deregP", 2, 1]], [["regC", 2], ["qry", 3, 2], ["deregC", 4, 2]]]})
    S.append({"name": "gc-add-qry", "setup": P + [["add", 1, 1, 3]], "threads": [[["gc", 2]], [["add", 3, 1, 5], ["qry", 4, 1]]]})
    S.append({"name": "subs", "setup": P, "threads": [[["sub", 1, 1, 101]], [["sub", 2, 1, 102], ["unsub", 3, 1, 102]], [["add", 4, 1, 4], ["attend", 5]]]})
    S.append({"name": "upd-del", "needs": ["delete_by_id", "update_keeps_record"], "setup": P + [["add", 1, 1, 4]],
              "threads": [[["upd", 2, 0, 6]], [["del", 3, 0]]]})
    S.append({"name": "upd-gc-qry", "needs": ["update_keeps_record"], "setup": P + [["add", 1, 1, 3]],
              "threads": [[["upd", 2, 0, 5]], [["gc", 3], ["qry", 4, 1]]]})
    S.append({"name": "upd-del-thread", "variant": "thread", "needs": ["delete_by_id", "update_keeps_record"],
              "setup": P + [["add", 1, 1, 4]], "threads": [[["upd", 2, 0, 6]], [["del", 3, 0]], [["gc", 4]]]})
    S.append({"name": "reactive-add", "variant": "reactive", "setup": P + [["sub", 1, 1, 101]],
              "threads": [[["add", 2, 1, 3]], [["add", 3, 1, 4]]]})
    S.append({"name": "dereg-attend", "needs": ["dereg_drops_subs", "attend_checks_first"], "setup": P + [["sub", 1, 1, 101], ["add", 2, 1, 4]],
              "threads": [[["deregC", 3, 1]], [["attend", 4]]]})
    # a consumer registers and subscribes while an attendance pass runs (registry read vs. subscription snapshot)
    S.append({"name": "reg-sub-attend", "needs": ["dereg_drops_subs", "attend_checks_first"], "setup": [["regP", 1], ["add", 1, 1, 4]],
              "threads": [[["attend", 5]], [["regC", 1], ["sub", 2, 1, 101]]]})
    # responses are values: a request answered before / while an update runs must not change afterwards
    S.append({"name": "qry-upd-qry", "needs": ["update_keeps_record"], "setup": P + [["add", 1, 1, 4]],
              "threads": [[["qry", 2, 1], ["qry", 4, 1]], [["upd", 3, 0, 6]]]})
    # the same object deleted twice, the same subscription cancelled twice, the same application deregistered twice
    S.append({"name": "del-del", "needs": ["delete_by_id"], "setup": P + [["add", 1, 1, 4]], "threads": [[["del", 2, 0]], [["del", 3, 0]]]})
    S.append({"name": "unsub-unsub", "setup": P + [["sub", 1, 1, 101]], "threads": [[["unsub", 2, 1, 101]], [["unsub", 3, 1, 101]]]})
    S.append({"name": "dereg-dereg", "needs": ["dereg_drops_subs"], "setup": P + [["sub", 1, 1, 101]],
              "threads": [[["deregP", 2, 1], ["deregC", 3, 1]], [["deregP", 4, 1]], [["deregC", 5, 1]]]})
    # the notification callback is USER code that may wait for the application, which may itself be calling the LDM
    # ("no operation deadlocks"): (a) every callback takes an application mutex that another thread holds around its own
    # IF.LDM.3 / IF.LDM.4 calls; (b) the callback hands over to a worker thread and waits until the worker's request has
    # been served; (c) the same through the reactive service (the pass runs inside add_provider_data)
    S.append({"name": "cb-app-mutex", "callback": "mutex", "needs": ["dereg_drops_subs", "attend_checks_first"], "cap": 60, "pct": 10,
              "setup": P + [["sub", 1, 1, 101], ["add", 2, 1, 4]],
              "threads": [[["attend", 5]], [["app", [["qry", 6, 1], ["add", 7, 1, 6]]]]]})
    S.append({"name": "cb-handover", "callback": "handover", "nomodel": True, "needs": ["dereg_drops_subs", "attend_checks_first"],
              "cap": 25, "pct": 5, "setup": P + [["sub", 1, 1, 101], ["add", 2, 1, 4]],
              "threads": [[["attend", 5], ["signal", "go"]], [["await", "go"], ["qry", 6, 1], ["signal", "done"]]]})
    S.append({"name": "cb-app-mutex-reactive", "variant": "reactive", "callback": "mutex", "cap": 40, "pct": 5,
              "needs": ["dereg_drops_subs", "attend_checks_first"], "setup": P + [["sub", 1, 1, 101]],
              "threads": [[["add", 2, 1, 4]], [["app", [["qry", 3, 1]]], ["app", [["unsub", 4, 1, 101]]]]]})
    for g in range(ctx.scale(3, 40)):
        S.append(gen_scenario(ctx.rng, g, ctx.thorough))
    if ctx.thorough:
        S.append({"name": "upd-qryf", "nomodel": True, "needs": ["update_keeps_record"], "setup": P + [["add", 1, 1, 4]],
                  "threads": [[["upd", 2, 0, 3]], [["qryf", 3, 1, 2, 3], ["qryf", 4, 1, 3, 3]]]})
        S.append({"name": "thread-mix", "variant": "thread", "needs": ["delete_by_id", "update_keeps_record"], "setup": P,
                  "threads": [[["add", 1, 1, 3], ["upd", 2, 0, 4]], [["gc", 3]], [["qry", 4, 1], ["del", 5, 0]], [["add", 6, 1, 8]]]})
        S.append({"name": "subs4", "needs": ["dereg_drops_subs", "attend_checks_first"], "setup": P + [["add", 1, 1, 4]],
                  "threads": [[["sub", 2, 1, 101], ["unsub", 3, 1, 101]], [["attend", 4]], [["deregC", 5, 1], ["regC", 1]], [["sub", 6, 1, 102]]]})
    return S


def gen_scenario(rng, idx, thorough):
    """a random scenario over the whole operation alphabet: 2-3 (thorough: 2-4) threads, 1-2 (1-4) calls each, any of
    the three variants; two objects, one provider, one consumer and one subscription may exist beforehand.  Operation
    ids are unique (1..9), object ids / application ids / subscription ids are drawn from a small pool so that
    operations collide on purpose.  Some scenarios run their callbacks and part of their threads under the application
    mutex (see the end of the function)."""
    variant = rng.choice(["plain", "plain", "reactive", "thread"])
    setup, nobj, sids = [], 0, []
    if rng.random() < 0.85:
        setup.append(["regP", 1])
    if rng.random() < 0.85:
        setup.append(["regC", 1])
    oid = [0]

    def fresh():
        oid[0] += 1
        return oid[0]
    if ["regP", 1] in setup:
        for _ in range(rng.randint(0, 2)):
            # (reactive variants run a maintenance pass inside every add: set-up objects are unexpired there)
            setup.append(["add", fresh(), 1, rng.choice([2, 4, 6] if variant == "reactive" else [2, 3, 4, 5, 6, 7])])
            nobj += 1
    if ["regC", 1] in setup and rng.random() < 0.5:
        setup.append(["sub", fresh(), 1, 101])
        sids.append(101)
    nthreads = rng.randint(2, 4 if thorough else 3)
    budget = (9 if thorough else 6) - oid[0]
    threads, nsid = [], [102]
    for _ in range(nthreads):
        ops = []
        for _ in range(rng.randint(1, 4 if thorough else 2)):
            if budget <= 0:
                break
            budget -= 1
            k = rng.choice(["add", "add", "upd", "upd", "del", "del", "qry", "qry", "sub", "unsub", "gc", "attend",
                            "regP", "regC", "deregP", "deregC"])
            if k in ("regP", "regC"):
                budget += 1
                ops.append([k, 1])
            elif k in ("deregP", "deregC"):
                ops.append([k, fresh(), 1])
            elif k == "add":
                ops.append(["add", fresh(), 1, rng.choice([2, 3, 4, 5, 6, 7, 8, 9])])
            elif k == "upd":
                ops.append(["upd", fresh(), rng.randint(0, max(nobj, 1)), rng.choice([1, 2, 3, 4])])
            elif k == "del":
                ops.append(["del", fresh(), rng.randint(0, max(nobj, 1))])
            elif k == "qry":
                ops.append(["qry", fresh(), 1])
            elif k == "sub":
                ops.append(["sub", fresh(), 1, nsid[0]])
                sids.append(nsid[0])
                nsid[0] += 1
            elif k == "unsub":
                ops.append(["unsub", fresh(), 1, rng.choice(sids) if sids else 101])
            else:
                ops.append([k, fresh()])
        if ops:
            threads.append(ops)
    while len(threads) < 2:
        threads.append([["qry", fresh(), 1]])
    kinds = {op[0] for th in [setup] + threads for op in th}
    needs = set()
    if "upd" in kinds:
        needs.add("update_keeps_record")
    if "del" in kinds:
        needs.add("delete_by_id")
    if kinds & {"deregC", "attend", "sub"} or variant == "reactive":
        needs |= {"dereg_drops_subs", "attend_checks_first"}
    sc = {"name": f"gen#{idx}", "variant": variant, "generated": True, "needs": sorted(needs), "setup": setup, "threads": threads}
    # user code: in 60 % of the scenarios with a subscription and an attendance pass every notification callback takes the application
    # mutex, and threads that run no attendance pass themselves (the application's own obligation, Lean `AppOk`; with
    # the reactive service an add runs one) may issue their calls while holding it
    if "sub" in kinds and ("attend" in kinds or (variant == "reactive" and "add" in kinds)) and rng.random() < 0.6:
        sc["callback"] = "mutex"
        inner = {"attend"} | ({"add"} if variant == "reactive" else set())
        sc["threads"] = [[["app", th]] if not ({op[0] for op in th} & inner) and rng.random() < 0.6 else th for th in threads]
    return sc


def classify(sc, bad, run=None):
    """Membership of a non-linearisable history in a KNOWN finding, decided on the history itself (never on the mere
    presence of an update / deregistration in the scenario):
    C16-KF2  the history is linearisable once the gated operations that OVERLAP a deregistration of their own application
             (`kf2_region`) get two linearisation points (registration check, action);
    C16-KF1  the history is linearisable once every `upd` is executed as the code executes it (exists ; get ; get ;
             update at four instants - `upd_steps`): the only freedom granted is the update's own check-then-act, so
             what it explains is exactly the re-created row of that id / the 'inconsistent type' answer for that id.
    Anything else - and any other kind of violation in the same run - is reported."""
    if run is None or not bad or not all(b.startswith("NOT-LINEARIZABLE") for b in bad):
        return None
    hist = [(r["op"], r["resp"], r["inv"], r["ret"]) for r in run.history]
    fk, setup = run.final_key(), sc.get("setup", [])
    tv = sc.get("variant", "plain") == "thread"
    region = kf2_region(hist)
    if region and linearizable(hist, fk, VARIANT, setup, split_gates=region):
        return "C16-KF2"
    if any(h[0][0] == "upd" for h in hist):
        if linearizable(hist, fk, VARIANT, setup, split_upd=True, thread_variant=tv):
            return "C16-KF1"
        if region and linearizable(hist, fk, VARIANT, setup, split_gates=region, split_upd=True, thread_variant=tv):
            return "C16-KF1"
    return None


BOUNDARY_KINDS = {"acq", "rel", "start", "end", "blocked"}


def enumerate_prioritised(run_once, bound, cap, rng):
    """Systematic stateless search like dsched.enumerate_schedules, but ordered: schedules are generated in order of
    (number of pre-emptions at a bytecode INSIDE a function, number of pre-emptions) - so every schedule that pre-empts
    only at lock boundaries (just before an acquire / just after a release / thread start and end) is run before any
    schedule that pre-empts between two bytecodes, and fewer pre-emptions come first.  A check-then-act window between
    two lock sections, or between an unlocked read and the lock section that uses it, is therefore hit within the first
    few dozen runs whatever the cap.  Returns (#runs, exhausted)."""
    buckets = {(0, 0): [((), 0, 0)]}
    seen = {()}
    runs = 0
    while buckets:
        if runs >= cap:
            return runs, False
        key = min(buckets)
        work = buckets[key]
        prefix, base_ops, _ = work.pop(rng.randrange(len(work)))
        if not work:
            del buckets[key]
        steps = run_once(list(prefix))
        runs += 1
        choices = [s[0] for s in steps]
        p = dsched.preemptions(steps, len(prefix))
        for i in range(len(prefix), len(steps)):
            chosen, enabled, cur, kind = steps[i]
            for alt in enabled:
                if alt == chosen or kind not in dsched.BRANCH_KINDS:
                    continue
                pre = cur is not None and cur in enabled and alt != cur
                cost = p + (1 if pre else 0)
                if cost > bound:
                    continue
                child = tuple(choices[:i] + [alt])
                if child not in seen:
                    seen.add(child)
                    nops = base_ops + (1 if pre and kind not in BOUNDARY_KINDS else 0)
                    buckets.setdefault((nops, cost), []).append((child, nops, cost))
            if cur is not None and cur in enabled and chosen != cur:
                p += 1
    return runs, True


def explore(ctx, sc, bound, cap, n_pct, observed, model=True):
    state = {"est": 300, "found": 0}

    def handle(run):
        ctx.evals()
        # (an aborted run - deadlock - has operations without a response: no outcome string, the oracle reports it)
        # (so has a run in which an operation raised: the oracle reports it, there is no outcome to look up in the model)
        broken = run.s.abort_reason or any("exc" in r or "resp" not in r for r in run.history)
        out = run.outcome() if not (sc.get("db_only") or sc.get("nomodel") or broken) else None
        bad = run.judge(VARIANT)
        ctx.cover("runs_" + sc["name"].split("#")[0])
        ctx.cover("preemptions_%d" % min(dsched.preemptions(run.steps), 4))
        ctx.nontrivial((sc["name"], out, tuple((tuple(r["op"]), r.get("resp")) for r in run.history)))
        if bad:
            state["found"] += 1
            if state["found"] == 1:
                again = Run(sc, dsched.Replay(run.choices))
                if again.judge(VARIANT) != bad:
                    ctx.note(f"{sc['name']}: schedule replay diverged")
            ctx.violation(f"{sc['name']}: {bad[0][:400]}", {"scenario": sc, "schedule": run.choices, "violations": [b[:400] for b in bad[:3]]},
                          classify(sc, bad, run))
        elif model and out is not None:
            passes = tuple(sorted(r["op"][1] for r in run.history if r["op"][0] in ("gc", "attend") and r["op"][1] >= 10
                                  and sc.get("variant") == "reactive"))
            observed.setdefault((passes, out), run.choices)
        return run

    def once(prefix):
        run = handle(Run(sc, dsched.Replay(prefix)))
        state["est"] = max(state["est"], run.s.nsteps)
        return run.steps

    runs, exhausted = enumerate_prioritised(once, bound, cap, ctx.rng)
    ctx.cover("systematic_runs", runs)
    if exhausted:
        ctx.cover("systematic_exhausted_bound_%d" % bound)
    for i in range(n_pct):
        handle(Run(sc, dsched.PCT(ctx.rng, depth=2 + i % 3, est_steps=state["est"])))
    ctx.cover("pct_runs", n_pct)


def check_model(ctx, batches):
    if not ctx.model_ok or not batches:
        return
    jobs = []
    for sc, observed in batches:
        for passes in sorted({k[0] for k in observed}):
            jobs.append((sc, passes, {k[1]: v for k, v in observed.items() if k[0] == passes}))
    lines = [model_line(sc, passes if sc.get("variant") == "reactive" else None) for sc, passes, _ in jobs]
    outs = ctx.model("ConcLdm", lines)
    for (sc, passes, observed), line, res in zip(jobs, lines, outs):
        if res == "bad-op":
            raise Infra(f"driver rejected {line}")
        allowed = set(res.split("|"))
        if "DEADLOCK" in allowed:       # excluded by `ldm_no_deadlock` for every scenario that satisfies `AppOk`
            ctx.mismatch("conc-ldm:" + sc["name"], {"scenario": sc, "passes": list(passes)}, "no deadlock observed",
                         "the block model reaches a deadlock")
        ctx.cover("model_outcomes", len(allowed))
        ctx.cover("observed_outcomes", len(observed))
        for out, choices in observed.items():
            if out not in allowed:
                ctx.mismatch("conc-ldm:" + sc["name"], {"scenario": sc, "schedule": choices, "passes": list(passes)}, out,
                             f"not among the {len(allowed)} outcomes of the block model")


def usable(sc):
    return all(VARIANT.get(n) for n in sc.get("needs", []))


def run(ctx):
    ctx.extra["rule"] = ("real threads on a real LDM (IF.LDM.3/4, maintenance and attendance passes; plain, reactive and thread "
                         "variants) under the deterministic scheduler; scripted scenarios + scenarios generated from the whole "
                         "operation alphabet; per scenario systematic enumeration up to the pre-emption bound (capped), schedules "
                         "that pre-empt only at lock boundaries first, then PCT; every history is checked for linearisability "
                         "against the reference map (known findings waived only when the history is explained by the finding's "
                         "own split), for responses staying unchanged after delivery, and its outcome looked up in the outcome "
                         "set of the Lean block model; distinct_nontrivial counts distinct (scenario, outcome, responses) triples")
    VARIANT.update(detect_variants())
    ctx.extra["variant"] = dict(VARIANT)
    bound, cap, n_pct = ctx.scale(2, 3), ctx.scale(110, 1000), ctx.scale(25, 300)
    gcap, gpct = ctx.scale(110, 200), ctx.scale(25, 60)          # generated scenarios: many, each explored less deeply
    for name, c in corpus("C16"):
        case = c.get("case", c)
        if not usable(case["scenario"]):
            continue
        r = Run(case["scenario"], dsched.Replay(case.get("schedule", [])))
        bad = r.judge(VARIANT)
        ctx.evals()
        ctx.cover("corpus_cases")
        if bad:
            ctx.violation(f"corpus {name}: {bad[0][:300]}", case, classify(case["scenario"], bad, r))
    batches = []
    for sc in scenarios(ctx):
        if not usable(sc):
            ctx.note(f"scenario {sc['name']} skipped: needs {sc['needs']} (sequential LDM repairs missing in this tree)")
            ctx.cover("scenarios_skipped")
            continue
        observed = {}
        # thorough tier: once 45 % of the time budget is used the remaining scenarios get the quick-tier volume, so
        # that a loaded machine ends in a (noted) truncation instead of a time-out
        late = ctx.thorough and (_time.time() - ctx.t0) > 0.45 * int(_os.environ.get("VERIF_TIMEOUT_S", "3300"))
        if late:
            ctx.extra["truncated_by_time"] = ctx.extra.get("truncated_by_time", 0) + 1
        b_, cap_, pct_, gcap_, gpct_ = (2, 110, 25, 110, 25) if late else (bound, cap, n_pct, gcap, gpct)
        if sc.get("generated"):
            explore(ctx, sc, b_, gcap_, gpct_, observed)
        elif "cap" in sc and (not ctx.thorough or late):
            explore(ctx, sc, b_, sc["cap"], sc.get("pct", pct_), observed)
        else:
            explore(ctx, sc, b_, cap_, pct_, observed)
        if not (sc.get("db_only") or sc.get("nomodel")):
            batches.append((sc, observed))
        ctx.sample("scenario", {"scenario": sc["name"], "outcomes": len(observed),
                                "example": next((k[1] for k in observed), None)})
    check_model(ctx, batches)


def search(ctx):
    VARIANT.update(detect_variants())
    for sc in scenarios(ctx):
        if not usable(sc):
            continue
        k = 1 if sc.get("generated") else 3
        explore(ctx, sc, ctx.scale(2, 3), k * ctx.scale(110, 1000), k * ctx.scale(25, 300), {}, model=False)
        if ctx.violations:
            return


def replay(ctx, obj):
    case = obj.get("case", obj)
    VARIANT.update(detect_variants())
    r = Run(case["scenario"], dsched.Replay(case.get("schedule", [])))
    bad = r.judge(VARIANT)
    print(f"scenario {case['scenario'].get('name')} schedule of {len(case.get('schedule', []))} choices:")
    for rec in r.history:
        print("   ", rec["op"], "->", rec.get("resp", "<no response: the operation never returned>"))
    print("    final store", r.final_key()[0])
    for b in bad:
        print("  violated:", b[:500])
    return bool(bad)

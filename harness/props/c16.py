"""C16 — LDM operations are atomic under concurrent providers, consumers and maintenance.

Theorems: lean/Props/C16.lean (every schedule of the block model lean/FlexModel/Conc/LdmConc.lean).
Tie: (i) lean/Generated/Locks.lean (harness/gen_locks.py): every DictionaryDataBase method / LDMService registry section
is ONE lock section containing all accesses, no lock is held across the calls of the multi-block operations – `decide`d
in LdmConc; (ii) schedule-level correspondence: 2-4 REAL threads issue IF.LDM.3 / IF.LDM.4 calls, maintenance passes and
attendance passes against the in-memory back-end (plain, reactive and thread variants; the background loops of the
thread variants are replaced by scheduler-driven threads running one pass) under harness/dsched.py; every observed
outcome must be producible by the Lean block model under SOME schedule (driver `ConcLdm explore …`).
Oracle: linearisability search of the recorded history (responses, callbacks, final store / registries / subscriptions,
real-time order) against a simple reference map written from the property text; exceptions; deadlock; id uniqueness.
"""
from __future__ import annotations

import common
from common import Infra, corpus
import dsched
import gen_locks
import realstack as rs

from flexstack.facilities.local_dynamic_map import ldm_classes as K
import flexstack.facilities.local_dynamic_map.dictionary_database as db_mod
import flexstack.facilities.local_dynamic_map.ldm_service as svc_mod
import flexstack.facilities.local_dynamic_map.ldm_service_reactive as svc_r_mod
import flexstack.facilities.local_dynamic_map.ldm_service_threads as svc_t_mod
import flexstack.facilities.local_dynamic_map.ldm_maintenance as mnt_mod
import flexstack.facilities.local_dynamic_map.ldm_maintenance_reactive as mnt_r_mod
import flexstack.facilities.local_dynamic_map.ldm_maintenance_thread as mnt_t_mod
import flexstack.facilities.local_dynamic_map.if_ldm_3 as if3_mod
import flexstack.facilities.local_dynamic_map.if_ldm_4 as if4_mod
from flexstack.facilities.local_dynamic_map.ldm_constants import CAM, DENM, VAM

MODULES = ["Props.C16"]
DRIVERS = ["ConcLdm"]
TRUSTED = [
    "CPython: a single dict/set/list method call and a single attribute load/store are atomic (the scheduler pre-empts "
    "between bytecodes, never inside one); threading.Lock/RLock/Thread are replaced by scheduler-aware equivalents",
    "block model: a `with lock:` section is one atomic block (justified by the generated lock map, validated by the "
    "bytecode-level exploration); records are codes 2*payload+expiredBit: queries return the payload, the bit stands for "
    "timestamp/time validity, an update replaces the payload and keeps the bit",
    "harness/gen_locks.py, harness/dsched.py, the reference map and the linearisability search in this file",
]
ASSUMPTIONS = [
    "in-memory back-end (DictionaryDataBase); TinyDB is out of the property's scope",
    "fixes C12-delete-by-id, C12-update-keeps-record, C14-no-callback-after-deregister are part of the code under test; "
    "on a tree without them the scenarios that exercise update / delete / deregistration are skipped (noted in evidence)",
    "known finding C16-KF1: IF.LDM.3 update_provider_data is check-then-act (exists; get; get; update) without a lock "
    "across the steps in the plain / reactive maintenance variants",
    "objects are placed outside the LDM's area of maintenance (area collection = known finding C12-KF1)",
]

T0 = 1_700_000_000_000
AIDS = {1: CAM, 2: DENM, 3: VAM}
AID_BACK = {v: k for k, v in AIDS.items()}
FILES = [m.__file__ for m in (db_mod, svc_mod, svc_r_mod, svc_t_mod, mnt_mod, mnt_r_mod, mnt_t_mod, if3_mod, if4_mod)]
PATCH_MODS = [db_mod, svc_mod, svc_r_mod, svc_t_mod, mnt_r_mod, mnt_t_mod]

_codes = None


def opcode_codes():
    global _codes
    if _codes is None:
        info = gen_locks.analyse()
        names = set(info["blocks"].keys()) | {r[0] for r in info["records"]} | set(info["calls"].keys())
        codes = []
        for mod in (db_mod, svc_mod, svc_r_mod, svc_t_mod, mnt_mod, mnt_r_mod, mnt_t_mod, if3_mod, if4_mod):
            for cname, cls in vars(mod).items():
                if isinstance(cls, type) and cls.__module__ == mod.__name__:
                    for n, f in vars(cls).items():
                        if f"{cname}_{n}" in names and hasattr(f, "__code__"):
                            codes.append(f.__code__)
        _codes = codes
    return _codes


class _NoThread:
    """threading.Thread stand-in inside ldm_*_thread(s): the background loop is not started; the harness runs its body
    (one pass) in a scheduler-driven thread instead"""

    def __init__(self, *a, **k):
        self.daemon = True

    def start(self):
        pass

    def join(self, *a):
        pass


class _FakeTime:
    def __init__(self):
        self.t = 1000.0

    def monotonic(self):
        self.t += 10.0          # every reactive check finds its interval elapsed
        return self.t

    def sleep(self, d):
        pass

    def time(self):
        return T0 / 1000.0


# ------------------------------------------------------------------------------------------------ reference map


class Ref:
    """the LDM as the property describes it: a map id -> object, two registries, a subscription list"""

    def __init__(self):
        self.store, self.next, self.prov, self.cons, self.subs = {}, 0, set(), set(), []

    def key(self):
        return (tuple(self.store.items()), self.next, frozenset(self.prov), frozenset(self.cons), tuple(self.subs))

    def copy(self):
        r = Ref()
        r.store, r.next, r.prov, r.cons, r.subs = dict(self.store), self.next, set(self.prov), set(self.cons), list(self.subs)
        return r

    def apply(self, op, fixed):
        """returns the response (canonical tuple)"""
        k = op[0]
        if k == "regP":
            self.prov.add(op[1])
            return ()
        if k == "regC":
            self.cons.add(op[1])
            return ()
        if k == "deregP":
            had = op[2] in self.prov
            self.prov.discard(op[2])
            return (int(had),)
        if k == "deregC":
            had = op[2] in self.cons
            self.cons.discard(op[2])
            if had and fixed["dereg_drops_subs"]:
                self.subs = [s for s in self.subs if s // 100 != op[2]]
            return (int(had),)
        if k == "add":
            if op[2] not in self.prov:
                return ()
            i = self.next
            self.store[i] = op[3]
            self.next += 1
            return (i,)
        if k == "upd":
            if op[2] in self.store:
                self.store[op[2]] = 2 * op[3] + self.store[op[2]] % 2       # payload replaced, validity kept
                return (0,)
            return (1,)
        if k == "del":
            if op[2] in self.store:
                del self.store[op[2]]
                return (1,)
            return (0,)
        if k == "qry":
            if op[2] not in self.cons:
                return (0, None)
            return (1, tuple(v // 2 for v in self.store.values()))
        if k == "sub":
            if op[2] not in self.cons:
                return (0,)
            self.subs.append(op[3])
            return (1,)
        if k == "unsub":
            if op[2] not in self.cons:
                return (0, 0)
            if op[3] in self.subs:
                self.subs = [s for s in self.subs if s != op[3]]
                return (1, 1)
            return (1, 0)
        if k == "gc":
            for i in [i for i, v in self.store.items() if v % 2 == 1]:
                del self.store[i]
            return ()
        if k == "attend":
            calls, drop = [], []
            for s in list(self.subs):
                if s // 100 not in self.cons:
                    drop.append(s)
                    continue
                rows = tuple(v // 2 for v in self.store.values())
                if rows:
                    calls.append((s, rows))
            self.subs = [s for s in self.subs if s not in drop]
            return tuple(calls)
        # direct database calls (DictionaryDataBase scenario)
        if k == "dbins":
            i = self.next
            self.store[i] = op[2]
            self.next += 1
            return (i,)
        if k == "dbget":
            return (self.store.get(op[2], -1),)
        if k == "dbupd":
            self.store[op[2]] = op[3]
            return ()
        if k == "dbrem":
            for i, v in list(self.store.items()):
                if v == op[2]:
                    del self.store[i]
                    return (1,)
            return (0,)
        if k == "dball":
            return tuple(self.store.values())
        if k == "dbex":
            return (int(op[2] in self.store),)
        raise Infra(f"reference: unknown op {op}")


GATED = {"add": "prov", "qry": "cons", "sub": "cons", "unsub": "cons"}


def gate_observed(op, resp):
    return bool(resp) if op[0] == "add" else resp[0] == 1


def apply_action(ref, op, passed, fixed):
    """the action of a gated operation given the outcome of its registration check"""
    reg = ref.prov if GATED[op[0]] == "prov" else ref.cons
    had = op[2] in reg
    (reg.add if passed else reg.discard)(op[2])
    try:
        return ref.apply(op, fixed)
    finally:
        (reg.add if had else reg.discard)(op[2])


def linearizable(history, final_key, fixed, setup, split_gates=False):
    """history: list of (op, response, inv_index, ret_index).  Wing & Gong search with memoisation.
    A maintenance pass (`gc`) is not required to be atomic: it is explained as a series of deletions of objects that
    are expired at the moment they are deleted, each taking effect somewhere between the pass's invocation and its
    return (an expired object may disappear at any instant).  An attendance pass is a loop over a copy of the
    subscription list: each subscription is served (registration check, query, callback) at its own instant.  Every
    other operation takes effect atomically."""
    n = len(history)
    ref0 = Ref()
    for op in setup:
        ref0.apply(op, fixed)
    before = [[j for j in range(n) if history[j][3] < history[i][2]] for i in range(n)]
    is_gc = [history[i][0][0] == "gc" for i in range(n)]
    seen = set()

    is_att = [history[i][0][0] == "attend" for i in range(n)]

    def go(done, opened, ref, gated=frozenset(), att=frozenset()):
        if len(done) == n:
            return ref.key() == final_key
        k = (done, opened, ref.key(), gated, att)
        if k in seen:
            return False
        seen.add(k)
        for a in att:                          # a running attendance pass: one subscription at a time
            i, remaining, calls, drop = a
            if remaining:
                sid = remaining[0]
                if sid // 100 not in ref.cons:
                    a2 = (i, remaining[1:], calls, drop + (sid,))
                else:
                    rows = tuple(v // 2 for v in ref.store.values())
                    a2 = (i, remaining[1:], calls + (((sid, rows),) if rows else ()), drop)
                if go(done, opened, ref, gated, (att - {a}) | {a2}):
                    return True
            elif calls == history[i][1]:
                r2 = ref.copy()
                r2.subs = [x for x in r2.subs if x not in drop]
                if go(done | {i}, opened, r2, gated, att - {a}):
                    return True
        for g in opened:                       # a step of a running maintenance pass, or its end
            if go(done | {g}, opened - {g}, ref, gated, att):
                return True
            for i, v in list(ref.store.items()):
                if v % 2 == 1:
                    r2 = ref.copy()
                    del r2.store[i]
                    if go(done, opened, r2, gated, att):
                        return True
        for i in gated:                        # second half of a gated operation (split_gates only)
            op, resp = history[i][0], history[i][1]
            r2 = ref.copy()
            if apply_action(r2, op, gate_observed(op, resp), fixed) == resp:
                if go(done | {i}, opened, r2, gated - {i}, att):
                    return True
        running = {a[0] for a in att}
        for i in range(n):
            if i in done or i in opened or i in gated or i in running or any(j not in done for j in before[i]):
                continue
            if is_gc[i]:
                if go(done, opened | {i}, ref, gated, att):
                    return True
                continue
            if is_att[i] and fixed.get("attend_checks_first"):
                if go(done, opened, ref, gated, att | {(i, tuple(ref.subs), (), ())}):
                    return True
                continue
            op, resp = history[i][0], history[i][1]
            if split_gates and op[0] in GATED:
                reg = ref.prov if GATED[op[0]] == "prov" else ref.cons
                if (op[2] in reg) == gate_observed(op, resp):
                    if go(done, opened, ref, gated | {i}, att):
                        return True
                continue
            r2 = ref.copy()
            if r2.apply(op, fixed) == resp:
                if go(done | {i}, opened, r2, gated, att):
                    return True
        return False
    return go(frozenset(), frozenset(), ref0)


# ------------------------------------------------------------------------------------------------ real runs


def mk_add(aid, code, now_its):
    """object values in scenarios are codes 2*payload + expiredBit (the bit stands for timestamp / time validity)"""
    exp = code % 2
    ts = K.TimestampIts(now_its - (100000 if exp else 0))
    loc = K.Location.initializer(latitude=515000000, longitude=21000000)       # outside the area of maintenance
    return K.AddDataProviderReq(aid, ts, loc, {"cam": {"v": code // 2}}, K.TimeValidity(1 if exp else 1000))


def val(container):
    return container["dataObject"]["cam"]["v"]


def code_of(container):
    if "timeValidity" in container:
        return 2 * val(container) + (1 if container["timeValidity"] == 1 else 0)
    return val(container)                    # rows written through the bare DictionaryDataBase API


class Run:
    def __init__(self, sc, policy, max_steps=80000):
        self.sc = sc
        variant = sc.get("variant", "plain")
        fake = _FakeTime()
        saved_time = (mnt_r_mod.time, svc_r_mod.time, mnt_t_mod.time)
        mnt_r_mod.time = svc_r_mod.time = mnt_t_mod.time = fake
        try:
            with rs.VClock(T0):
                with dsched.patched(PATCH_MODS, extra={"Thread": _NoThread}):
                    area = K.Location.initializer(latitude=415000000, longitude=21000000)
                    self.db = db_mod.DictionaryDataBase()
                    if sc.get("nolock"):
                        setattr(self.db, "_lock", dsched.NoLock())
                    if variant == "thread":
                        m = mnt_t_mod.LDMMaintenanceThread(area, self.db)
                        s = svc_t_mod.LDMServiceThreads(m)
                    elif variant == "reactive":
                        m = mnt_r_mod.LDMMaintenanceReactive(area, self.db)
                        s = svc_r_mod.LDMServiceReactive(m)
                    else:
                        m = mnt_mod.LDMMaintenance(area, self.db)
                        s = svc_mod.LDMService(m)
                    self.m, self.svc = m, s
                    self.i3, self.i4 = if3_mod.InterfaceLDM3(s), if4_mod.InterfaceLDM4(s)
                    self.now_its = K.TimestampIts.initialize_with_utc_timestamp_seconds(T0 // 1000).timestamp_its
                    self.sub_ids = {}
                    self.history = []
                    sched = dsched.DSched(policy, line_files=FILES, opcode_codes=opcode_codes(), max_steps=max_steps)
                    self.s = sched
                    self._instrument(variant)
                    for op in sc.get("setup", []):
                        self._do(op, None)
                    self.setup_hist = self.history
                    self.history = []
                    sched.events.clear()
                    for ti, ops in enumerate(sc["threads"]):
                        sched.spawn(self._body(ti, ops), name=f"T{ti}")
                    with rs.quiet():
                        sched.run(timeout=30.0)
        finally:
            mnt_r_mod.time, svc_r_mod.time, mnt_t_mod.time = saved_time
        self.steps = sched.steps
        self.choices = [c[0] for c in sched.steps]

    def _instrument(self, variant):
        """reactive variants: the maintenance pass and the attendance pass triggered by an add are operations of their own"""
        self.cur = {}
        if variant == "reactive":
            m, s, sched = self.m, self.svc, self.s
            orig_ct, orig_at = m.collect_trash, s.attend_subscriptions

            def ct():
                me = sched.me()
                self._sub_op(me, "gc", orig_ct)

            def at():
                me = sched.me()
                self._sub_op(me, "attend", orig_at)
            m.collect_trash, s.attend_subscriptions = ct, at

    def _sub_op(self, me, kind, fn):
        ctx = self.cur.get(me.tid if me else None)
        if ctx is None:
            return fn()
        # close the enclosing add, open the triggered pass
        if not ctx.get("closed"):
            ctx["closed"] = len(self.s.events)
            self.s.log("ret", ctx["hid"])
        oid = ctx["op"][1] * 10 + (1 if kind == "gc" else 2)
        hid = len(self.history)
        rec = {"op": [kind, oid], "inv": len(self.s.events), "calls": []}
        self.history.append(rec)
        self.s.log("inv", hid)
        prev = ctx.get("sub")
        ctx["sub"] = rec
        try:
            fn()
        finally:
            ctx["sub"] = prev
            rec["ret"] = len(self.s.events)
            rec["resp"] = tuple(rec["calls"]) if kind == "attend" else ()
            self.s.log("ret", hid)

    def _callback(self, sid):
        def cb(resp):
            rows = tuple(val(d) for d in resp.data_objects)
            me = self.s.me()
            ctx = self.cur.get(me.tid if me else None)
            self.s.log("cb", sid, rows)
            if ctx is not None:
                (ctx.get("sub") or ctx["rec"])["calls"].append((sid, rows))
        return cb

    def _body(self, ti, ops):
        def body():
            for op in ops:
                self._do(op, ti)
        return body

    def _do(self, op, ti):
        s = self.s
        hid = len(self.history)
        rec = {"op": op, "inv": len(s.events), "calls": []}
        self.history.append(rec)
        ctx = {"op": op, "hid": hid, "rec": rec}
        if ti is not None:
            self.cur[ti] = ctx
        s.log("inv", hid)
        try:
            resp = self._call(op)
        finally:
            if ti is not None:
                self.cur.pop(ti, None)
        if op[0] == "attend":
            resp = tuple(rec["calls"])
        rec["resp"] = resp
        if ctx.get("closed"):
            rec["ret"] = ctx["closed"]
        else:
            rec["ret"] = len(s.events)
            s.log("ret", hid)

    def _call(self, op):
        k = op[0]
        i3, i4 = self.i3, self.i4
        now = K.TimestampIts(self.now_its)
        if k == "regP":
            i3.register_data_provider(K.RegisterDataProviderReq(AIDS[op[1]], (K.AccessPermission(AIDS[op[1]]),), K.TimeValidity(1000)))
            return ()
        if k == "regC":
            i4.register_data_consumer(K.RegisterDataConsumerReq(AIDS[op[1]], (K.AccessPermission(AIDS[op[1]]),), None))
            return ()
        if k == "deregP":
            r = i3.deregister_data_provider(K.DeregisterDataProviderReq(AIDS[op[2]]))
            return (1 - int(r.result),)
        if k == "deregC":
            r = i4.deregister_data_consumer(K.DeregisterDataConsumerReq(AIDS[op[2]]))
            return (1 - int(r.ack),)
        if k == "add":
            r = i3.add_provider_data(mk_add(AIDS[op[2]], op[3], self.now_its))
            return () if r.data_object_id < 0 else (int(r.data_object_id),)
        if k == "upd":
            r = i3.update_provider_data(K.UpdateDataProviderReq(CAM, op[2], now, K.Location.initializer(),
                                                                {"cam": {"v": op[3]}}, K.TimeValidity(1)))
            return (int(r.result),)
        if k == "del":
            r = i3.delete_provider_data(K.DeleteDataProviderReq(CAM, op[2], now))
            return (1 if int(r.result) == int(K.DeleteDataProviderResult.SUCCEED) else 0,)
        if k == "qry":
            r = i4.request_data_objects(K.RequestDataObjectsReq(AIDS[op[2]], (CAM,), None, None, None))
            if int(r.result) != 0:
                return (0, None)
            return (1, tuple(val(d) for d in r.data_objects))
        if k == "sub":
            sid = op[3]
            req = K.SubscribeDataobjectsReq(application_id=AIDS[op[2]], data_object_type=(CAM,), priority=sid % 100,
                                            filter=None, notify_time=None, multiplicity=None, order=None)
            r = i4.subscribe_data_consumer(req, self._callback(sid))
            if int(r.result) != 0:
                return (0,)
            self.sub_ids[sid] = r.subscription_id
            return (1,)
        if k == "unsub":
            real = self.sub_ids.get(op[3], 987654321)
            r = i4.unsubscribe_data_consumer(K.UnsubscribeDataConsumerReq(AIDS[op[2]], real))
            a = int(r.result)
            if a != 0 and r.subscription_id == 0:       # "not a registered consumer" answers with subscription id 0
                return (0, 0)
            return (1, 1) if a == 0 else (1, 0)
        if k == "gc":
            self.m.collect_trash()
            return ()
        if k == "attend":
            self.svc.attend_subscriptions()
            return ()
        db = self.db
        if k == "dbins":
            return (db.insert({"dataObject": {"cam": {"v": op[2]}}}),)
        if k == "dbget":
            d = db.get(op[2])
            return (-1 if d is None else val(d),)
        if k == "dbupd":
            db.update({"dataObject": {"cam": {"v": op[3]}}}, op[2])
            return ()
        if k == "dbrem":
            return (int(db.remove({"dataObject": {"cam": {"v": op[2]}}})),)
        if k == "dball":
            return tuple(val(d) for d in db.all())
        if k == "dbex":
            return (int(db.exists("dataObjectID", op[2])),)
        raise Infra(f"unknown op {op}")

    # -- observation
    def final_key(self):
        store = tuple((i, code_of(d)) for i, d in self.db.database.items())
        back = {v: k for k, v in self.sub_ids.items()}
        subs = tuple(back.get(hash(si.subscription_request), -1) for si in self.svc.subscriptions)
        prov = frozenset(AID_BACK.get(a, a) for a in self.svc.data_provider_its_aid)
        cons = frozenset(AID_BACK.get(a, a) for a in self.svc.data_consumer_its_aid)
        return (store, self.db._next_id, prov, cons, subs)

    def outcome(self):
        """the string the Lean driver prints for the same run"""
        sc = self.sc
        allops = list(sc.get("setup", [])) + [r["op"] for r in self.history]
        ids = sorted({op[1] for op in allops if op[0] not in ("regP", "regC")})
        resp = {}
        for r in self.setup_hist + self.history:
            op = r["op"]
            if op[0] in ("regP", "regC"):
                continue
            if op[0] == "qry":
                resp[op[1]] = [r["resp"][0]]
            elif op[0] in ("gc", "attend"):
                resp[op[1]] = []
            else:
                resp[op[1]] = list(r["resp"])
        rstr = ";".join(f"{o}:{','.join(map(str, resp.get(o, [])))}" for o in ids)
        qs = sorted(r["op"][1] for r in self.history if r["op"][0] == "qry")
        qmap = {r["op"][1]: r["resp"] for r in self.history if r["op"][0] == "qry"}
        qstr = ";".join(f"{o}:{','.join(map(str, qmap[o][1])) if qmap[o][0] else '-'}" for o in qs)
        kstr = ";".join(f"{e[1]}:{','.join(map(str, e[2]))}" for e in self.s.events if e[0] == "cb")
        store, _, prov, cons, subs = self.final_key()
        aids = sorted({op[2] if op[0] not in ("regP", "regC") else op[1] for op in allops
                       if op[0] in ("regP", "regC", "deregP", "deregC", "add", "qry", "sub", "unsub")})
        errs = sum(1 for t in self.s.threads if t.exc is not None)
        return (f"R={rstr}_Q={qstr}_K={kstr}_D={','.join(f'{i}.{v // 2}' for i, v in store)}"
                f"_P={','.join(str(a) for a in aids if a in prov)}_C={','.join(str(a) for a in aids if a in cons)}"
                f"_S={','.join(map(str, subs))}_E={errs}")

    def judge(self, fixed):
        sc, s = self.sc, self.s
        bad = []
        if s.abort_reason == "deadlock":
            bad.append(f"deadlock: {s.deadlock}")
        elif s.abort_reason:
            raise Infra(f"scheduler aborted: {s.abort_reason}")
        for t in s.threads:
            if t.exc is not None:
                bad.append(f"operation raised in {t.name}: {type(t.exc).__name__}: {t.exc}")
        if bad:
            return bad
        ids = [r["resp"][0] for r in self.history if r["op"][0] in ("add", "dbins") and r["resp"]]
        if len(set(ids)) != len(ids):
            bad.append(f"identifiers not unique: {sorted(ids)}")
        hist = [(r["op"], r["resp"], r["inv"], r["ret"]) for r in self.history]
        if not linearizable(hist, self.final_key(), fixed, sc.get("setup", [])):
            bad.append("NOT-LINEARIZABLE: no sequential order of the operations explains responses "
                       f"{[(tuple(h[0]), h[1]) for h in hist]} and final state {self.final_key()[0]}")
        return bad


# ------------------------------------------------------------------------------------------------ model side


def model_line(sc, passes=None):
    """`passes`: ids of the time-triggered passes (reactive variants) that actually ran in the observed executions –
    whether `monotonic() - last >= interval` holds is a race of its own, outside the block model"""
    variant = sc.get("variant", "plain")
    nsub = sum(1 for th in [sc.get("setup", [])] + sc["threads"] for op in th if op[0] == "sub")
    nrow = sum(1 for th in [sc.get("setup", [])] + sc["threads"] for op in th if op[0] == "add") + 1

    def tok(op, dereg_n):
        k = op[0]
        if k in ("regP", "regC"):
            return [f"{k}:{op[1]}"]
        if k == "deregP":
            return [f"deregP:{op[1]}:{op[2]}"]
        if k == "deregC":
            return [f"deregC:{op[1]}:{op[2]}:{dereg_n}"]
        if k == "add":
            t = [f"add:{op[1]}:{op[2]}:{op[3]}"]
            if variant == "reactive":
                if passes is None or op[1] * 10 + 1 in passes:
                    t.append(f"gc:{op[1] * 10 + 1}:{nrow}")
                if passes is None or op[1] * 10 + 2 in passes:
                    t.append(f"attend:{op[1] * 10 + 2}:{nsub}")
            return t
        if k == "upd":
            return [f"{'updMt' if variant == 'thread' else 'upd'}:{op[1]}:{op[2]}:{op[3]}"]
        if k == "del":
            return [f"del:{op[1]}:{op[2]}"]
        if k == "qry":
            return [f"qry:{op[1]}:{op[2]}"]
        if k in ("sub", "unsub"):
            return [f"{k}:{op[1]}:{op[2]}:{op[3]}"]
        if k == "gc":
            return [f"gc:{op[1]}:{nrow}"]
        if k == "attend":
            return [f"attend:{op[1]}:{nsub}"]
        raise Infra(f"no model op for {op}")
    dn = nsub if VARIANT.get("dereg_drops_subs") else 0
    setup = [t for op in sc.get("setup", []) for t in tok(op, dn)]
    threads = [[t for op in th for t in tok(op, dn)] for th in sc["threads"]]
    return "explore " + " ".join(setup) + " // " + " / ".join(" ".join(t) for t in threads)


VARIANT = {"delete_by_id": True, "update_keeps_record": True, "dereg_drops_subs": True, "attend_checks_first": True}


def detect_variants():
    """sequential probes: which repairs of the sequential LDM defects (C12 / C14) does the tree contain"""
    sc = {"name": "probe", "setup": [], "threads": [[["regP", 1], ["regC", 1], ["add", 1, 1, 4], ["sub", 2, 1, 101],
                                                     ["upd", 3, 0, 6], ["deregC", 4, 1], ["attend", 5], ["del", 6, 0]]]}
    r = Run(sc, dsched.Replay([]))
    store = r.final_key()[0]
    h = {tuple(x["op"][:2]): x["resp"] for x in r.history}
    errs = [t.exc for t in r.s.threads if t.exc is not None]
    return {
        "delete_by_id": store == () and not errs,
        "update_keeps_record": h.get(("upd", 3)) == (0,) and not errs,
        "dereg_drops_subs": r.final_key()[4] == () ,
        "attend_checks_first": h.get(("attend", 5), ()) == (),
    }


# ------------------------------------------------------------------------------------------------ scenarios


def scenarios(ctx):
    S = []
    P = [["regP", 1], ["regC", 1]]
    S.append({"name": "db-insert2", "db_only": True, "threads": [[["dbins", 1, 3]], [["dbins", 2, 4]], [["dball", 3]]]})
    S.append({"name": "db-mixed", "db_only": True, "setup": [["dbins", 9, 3]],
              "threads": [[["dbins", 1, 4], ["dbget", 2, 0]], [["dbrem", 3, 3], ["dbex", 4, 0]], [["dbupd", 5, 1, 6], ["dball", 6]]]})
    S.append({"name": "add-add-qry", "setup": P, "threads": [[["add", 1, 1, 4]], [["add", 2, 1, 6]], [["qry", 3, 1]]]})
    S.append({"name": "registry", "threads": [[["regP", 1], ["add", 1, 1, 4]], [["deregP", 2, 1]], [["regC", 2], ["qry", 3, 2], ["deregC", 4, 2]]]})
    S.append({"name": "gc-add-qry", "setup": P + [["add", 1, 1, 3]], "threads": [[["gc", 2]], [["add", 3, 1, 5], ["qry", 4, 1]]]})
    S.append({"name": "subs", "setup": P, "threads": [[["sub", 1, 1, 101]], [["sub", 2, 1, 102], ["unsub", 3, 1, 102]], [["add", 4, 1, 4], ["attend", 5]]]})
    S.append({"name": "upd-del", "needs": ["delete_by_id", "update_keeps_record"], "setup": P + [["add", 1, 1, 4]],
              "threads": [[["upd", 2, 0, 6]], [["del", 3, 0]]]})
    S.append({"name": "upd-gc-qry", "needs": ["update_keeps_record"], "setup": P + [["add", 1, 1, 3]],
              "threads": [[["upd", 2, 0, 5]], [["gc", 3], ["qry", 4, 1]]]})
    S.append({"name": "upd-del-thread", "variant": "thread", "needs": ["delete_by_id", "update_keeps_record"],
              "setup": P + [["add", 1, 1, 4]], "threads": [[["upd", 2, 0, 6]], [["del", 3, 0]], [["gc", 4]]]})
    S.append({"name": "reactive-add", "variant": "reactive", "setup": P + [["sub", 1, 1, 101]],
              "threads": [[["add", 2, 1, 3]], [["add", 3, 1, 4]]]})
    S.append({"name": "dereg-attend", "needs": ["dereg_drops_subs", "attend_checks_first"], "setup": P + [["sub", 1, 1, 101], ["add", 2, 1, 4]],
              "threads": [[["deregC", 3, 1]], [["attend", 4]]]})
    if ctx.thorough:
        S.append({"name": "thread-mix", "variant": "thread", "needs": ["delete_by_id", "update_keeps_record"], "setup": P,
                  "threads": [[["add", 1, 1, 3], ["upd", 2, 0, 4]], [["gc", 3]], [["qry", 4, 1], ["del", 5, 0]], [["add", 6, 1, 8]]]})
        S.append({"name": "subs4", "needs": ["dereg_drops_subs", "attend_checks_first"], "setup": P + [["add", 1, 1, 4]],
                  "threads": [[["sub", 2, 1, 101], ["unsub", 3, 1, 101]], [["attend", 4]], [["deregC", 5, 1], ["regC", 1]], [["sub", 6, 1, 102]]]})
    return S


def classify(sc, bad, run=None):
    """C16-KF1: an update racing with a removal (delete / maintenance pass) of the same object.  With the
    maintenance-thread lock only the milder form is in the known region: the update answers 'inconsistent type' (2)
    where a sequential order would answer 'unknown id' (1) – the history must be linearisable once 2 is read as 1."""
    ops = [op for th in sc["threads"] for op in th]
    if sc.get("variant", "plain") == "thread":
        if run is None or not all(b.startswith("NOT-LINEARIZABLE") for b in bad):
            return None
        hist = [(r["op"], ((1,) if (r["op"][0] == "upd" and r["resp"] == (2,)) else r["resp"]), r["inv"], r["ret"])
                for r in run.history]
        changed = any(r["op"][0] == "upd" and r["resp"] == (2,) for r in run.history)
        if changed and linearizable(hist, run.final_key(), VARIANT, sc.get("setup", [])):
            return "C16-KF1"
        return None
    if run is not None and all(b.startswith("NOT-LINEARIZABLE") for b in bad) and \
            any(op[0] in ("deregP", "deregC") for op in ops):
        hist = [(r["op"], r["resp"], r["inv"], r["ret"]) for r in run.history]
        if linearizable(hist, run.final_key(), VARIANT, sc.get("setup", []), split_gates=True):
            return "C16-KF2"
    upd_ids = {op[2] for op in ops if op[0] == "upd"}
    removal = any(op[0] == "del" and op[2] in upd_ids for op in ops) or any(op[0] == "gc" for op in ops) or \
        (sc.get("variant") == "reactive" and any(op[0] == "add" for op in ops))
    if upd_ids and removal and all(b.startswith("NOT-LINEARIZABLE") for b in bad):
        return "C16-KF1"
    return None


def explore(ctx, sc, bound, cap, n_pct, observed, model=True):
    state = {"est": 300, "found": 0}

    def handle(run):
        ctx.evals()
        out = run.outcome() if not sc.get("db_only") else None
        bad = run.judge(VARIANT)
        ctx.cover("runs_" + sc["name"])
        ctx.cover("preemptions_%d" % min(dsched.preemptions(run.steps), 4))
        ctx.nontrivial((sc["name"], out, tuple((tuple(r["op"]), r["resp"]) for r in run.history)))
        if bad:
            state["found"] += 1
            if state["found"] == 1:
                again = Run(sc, dsched.Replay(run.choices))
                if again.judge(VARIANT) != bad:
                    ctx.note(f"{sc['name']}: schedule replay diverged")
            ctx.violation(f"{sc['name']}: {bad[0][:400]}", {"scenario": sc, "schedule": run.choices, "violations": [b[:400] for b in bad[:3]]},
                          classify(sc, bad, run))
        elif model and out is not None:
            passes = tuple(sorted(r["op"][1] for r in run.history if r["op"][0] in ("gc", "attend") and r["op"][1] >= 10
                                  and sc.get("variant") == "reactive"))
            observed.setdefault((passes, out), run.choices)
        return run

    def once(prefix):
        run = handle(Run(sc, dsched.Replay(prefix)))
        state["est"] = max(state["est"], run.s.nsteps)
        return run.steps

    runs, exhausted = dsched.enumerate_schedules(once, bound, cap, ctx.rng)
    ctx.cover("systematic_runs", runs)
    if exhausted:
        ctx.cover("systematic_exhausted_bound_%d" % bound)
    for i in range(n_pct):
        handle(Run(sc, dsched.PCT(ctx.rng, depth=2 + i % 3, est_steps=state["est"])))
    ctx.cover("pct_runs", n_pct)


def check_model(ctx, batches):
    if not ctx.model_ok or not batches:
        return
    jobs = []
    for sc, observed in batches:
        for passes in sorted({k[0] for k in observed}):
            jobs.append((sc, passes, {k[1]: v for k, v in observed.items() if k[0] == passes}))
    lines = [model_line(sc, passes if sc.get("variant") == "reactive" else None) for sc, passes, _ in jobs]
    outs = ctx.model("ConcLdm", lines)
    for (sc, passes, observed), line, res in zip(jobs, lines, outs):
        if res == "bad-op":
            raise Infra(f"driver rejected {line}")
        allowed = set(res.split("|"))
        ctx.cover("model_outcomes", len(allowed))
        ctx.cover("observed_outcomes", len(observed))
        for out, choices in observed.items():
            if out not in allowed:
                ctx.mismatch("conc-ldm:" + sc["name"], {"scenario": sc, "schedule": choices, "passes": list(passes)}, out,
                             f"not among the {len(allowed)} outcomes of the block model")


def usable(sc):
    return all(VARIANT.get(n) for n in sc.get("needs", []))


def run(ctx):
    ctx.extra["rule"] = ("real threads on a real LDM (IF.LDM.3/4, maintenance and attendance passes; plain, reactive and thread "
                         "variants) under the deterministic scheduler; per scenario systematic enumeration up to the "
                         "pre-emption bound (capped) then PCT; every history is checked for linearisability against the "
                         "reference map and its outcome looked up in the outcome set of the Lean block model; "
                         "distinct_nontrivial counts distinct (scenario, outcome, responses) triples")
    VARIANT.update(detect_variants())
    ctx.extra["variant"] = dict(VARIANT)
    bound, cap, n_pct = ctx.scale(2, 3), ctx.scale(110, 1800), ctx.scale(25, 500)
    for name, c in corpus("C16"):
        case = c.get("case", c)
        if not usable(case["scenario"]):
            continue
        r = Run(case["scenario"], dsched.Replay(case.get("schedule", [])))
        bad = r.judge(VARIANT)
        ctx.evals()
        ctx.cover("corpus_cases")
        if bad:
            ctx.violation(f"corpus {name}: {bad[0][:300]}", case, classify(case["scenario"], bad, r))
    batches = []
    for sc in scenarios(ctx):
        if not usable(sc):
            ctx.note(f"scenario {sc['name']} skipped: needs {sc['needs']} (sequential LDM repairs missing in this tree)")
            ctx.cover("scenarios_skipped")
            continue
        observed = {}
        explore(ctx, sc, bound, cap, n_pct, observed)
        if not sc.get("db_only"):
            batches.append((sc, observed))
        ctx.sample("scenario", {"scenario": sc["name"], "outcomes": len(observed),
                                "example": next((k[1] for k in observed), None)})
    check_model(ctx, batches)


def search(ctx):
    VARIANT.update(detect_variants())
    for sc in scenarios(ctx):
        if not usable(sc):
            continue
        explore(ctx, sc, ctx.scale(2, 3), ctx.scale(330, 5400), ctx.scale(75, 1500), {}, model=False)
        if ctx.violations:
            return


def replay(ctx, obj):
    case = obj.get("case", obj)
    VARIANT.update(detect_variants())
    r = Run(case["scenario"], dsched.Replay(case.get("schedule", [])))
    bad = r.judge(VARIANT)
    print(f"scenario {case['scenario'].get('name')} schedule of {len(case.get('schedule', []))} choices:")
    for rec in r.history:
        print("   ", rec["op"], "->", rec["resp"])
    print("    final store", r.final_key()[0])
    for b in bad:
        print("  violated:", b[:500])
    return bool(bad)

"""C05 — Honestly signed messages are accepted by every station sharing the trust root.

Theorems: lean/Props/C05.lean about lean/FlexModel/Sec/{Sign,Verify}.lean (sign_cam / sign_denm / sign_other composed with
verify into a multi-station exchange model).
Tie: 2-5 real stations (Router + SignService + VerifyService + CertificateLibrary, real ECDSA, security ENABLED) under the
virtual clock exchange CAM / VAM / DENM / generic messages over a broadcast medium; stations join at random times relative
to the senders' 1-second certificate timers; receivers know root + AA only or are pre-loaded with peer tickets.  For every
emission the model's sign step (signer choice, P2PCD header fields, timer / request state) and for every reception the
model's gate step (report, learnt certificates, P2PCD bookkeeping) are compared with the real station.
Oracle (independent): clause 7.1 profile checker on the decoded EtsiTs103097Data of every emitted packet (mandatory /
forbidden header fields, signer kind, CAM certificate-inclusion rule from the observed history), immediate acceptance
when the packet carries the certificate or the ticket is known, acceptance of the sender's next CAM after the
receiver's request (<= 2 further exchanges), payload delivered unchanged.
Round 5: receiver CONFIGURATIONS include receive-only stations (VerifyService without SignService: they learn tickets from
in-message certificates like everybody else); GENERATION POSITIONS of DENMs / generic GeoBroadcast / GeoAnycast messages
include senders outside their destination area (greedy forwarding at the source), judged on the frame on the medium.
"""
from __future__ import annotations

import threading

from common import Infra, corpus
import realstack as rs
import sec_common as sc
from props.c03 import Oracle as AuthOracle

import flexstack.geonet.router as router_mod

MODULES = ["Props.C05"]
DRIVERS = ["Sec"]
TRUSTED = [
    "modelled rather than verified: ECDSA P-256 / SHA-256 as a perfect signature relation, asn1tools OER codec, the float "
    "glue of TimeService.timestamp_its (generationTime is read from the emitted packet and checked to be within 1 ms of "
    "the virtual clock)",
    "harness/sec_common.py: abstraction of frames / stations, independent chain and profile checkers",
]
ASSUMPTIONS = [
    "every station holds a valid authorization ticket covering the ITS-AIDs it sends, issued by an AA the receivers know "
    "(receivers know root + AA; known finding C05-KF1 covers receivers that know the root only)",
    "an 'exchange' is one CAM/VAM of each side; HashedId3 of the stations' tickets do not collide with CA certificates",
    "broadcast medium without loss; virtual time advances between emissions",
]

T0 = 1_700_000_000_000
LAT0, LON0, STEP = 415000000, 21000000, 2000        # stations ~28 m apart (1/10 microdegree units)
KIND_AID = {"cam": 36, "vam": 638, "denm": 37, "other": 99}


class World:
    def __init__(self, rng, n, apps=None, groups=None, vals=None, ssps=None, monitors=(), two_aa=None):
        """`monitors`: stations that only LISTEN (a VerifyService built without a SignService -- the constructor default:
        roadside monitor, logger, receive-only unit): they hold no ticket and never send.
        `vals[k][i]` = [start - now, unit, count] and `ssps[k][i]` = PsidSsp entries (sc.psid_ssp_json) of ticket i of
        station k when a recorded world is rebuilt; otherwise drawn from `rng`: half of the tickets get a validity period
        over a random IEEE 1609.2 Duration unit placed so that the scenario runs near its start / middle / END
        (sc.validity_around), and appPermissions entries with and without an ssp component.
        `two_aa`: the deployment has TWO authorization authorities under the one root (None: one AA).  True: drawn from
        `rng` - every ticket is issued by one of them, every station knows the AA(s) of its own tickets and possibly the
        other one; at least one station knows both, one holds a ticket of the second AA, one knows the first AA only.
        A recorded world passes {"issuer": [[AA index per ticket] per station], "known": [[AA indexes] per station]}"""
        p = self.pki = sc.PKI()
        now = self.now = sc.its_now_s(T0)
        live = dict(start=now - 1000, duration=("hours", 100))
        self.root = p.root("root", **live)
        # the AA's issuing permissions are split over 1-3 groups in random order (sometimes plus `all`)
        if groups is None:
            issue = sc.split_groups([36, 37, 638, 99], rng, 1, with_all=rng.random() < 0.15)
        else:
            issue = [sc.perm_all(1) if kind == "all" else sc.perm_explicit(ps, 1) for kind, ps in groups]
        self.aa = p.issue(self.root, "aa", issue=issue, **live)
        self.aas = [self.aa] + ([p.issue(self.root, "aa2", issue=issue, **live)] if two_aa else [])
        self.issuer_ix, self.known_aas = None, [[0] for _ in range(n)]
        if isinstance(two_aa, dict):
            self.issuer_ix, self.known_aas = two_aa["issuer"], two_aa["known"]
        elif two_aa:
            # roles (shuffled over the stations): one knows both AAs and holds a ticket of the first, one holds a ticket of
            # the second AA, one knows the first AA only; the others are drawn
            order = [k for k in range(n) if k not in monitors]
            rng.shuffle(order)
            role = {k: i for i, k in enumerate(order)}
            self.issuer_of_station, self.known_aas = {}, []
            for k in range(n):
                i = role.get(k, 99)
                tix = 0 if i in (0, 2) else 1 if i == 1 else rng.randrange(2)
                other = True if i == 0 else False if i == 2 else rng.random() < 0.5
                self.issuer_of_station[k] = tix
                self.known_aas.append(sorted({tix} | ({1 - tix} if other else set())) if k not in monitors
                                      else rng.choice([[0], [0, 1]]))
        # a station holds ONE ticket for everything it sends, or SEPARATE tickets per service (CAM / VAM / DENM):
        # `tickets[k]` in the order they are installed (the signer takes the first one covering the ITS-AID)
        self.tickets = []
        self.monitors = sorted(monitors)
        for k in range(n):
            if k in self.monitors:
                spec = []
            elif apps:
                spec = apps[k] if apps[k] and isinstance(apps[k][0], list) else [apps[k]]
            elif rng.random() < 0.35:
                spec = rng.choice([[[36, 37, 99], [638]], [[36], [638, 37]], [[638], [36, 37, 99]], [[36, 99], [37], [638]]])
            else:
                spec = [rng.choice([[36, 37, 638, 99], [36, 37, 99], [36, 37], [638, 37, 99]])]
            row = []
            for i, app in enumerate(spec):
                if vals is not None:
                    off, unit, cnt = vals[k][i]
                    val = dict(start=now + off, duration=(unit, cnt))
                elif rng.random() < 0.5:
                    val = live
                else:
                    st_, du = sc.validity_around(rng, now)
                    val = dict(start=st_, duration=du)
                entries = sc.psid_ssp_from_json(ssps[k][i]) if ssps is not None else [sc.psid_ssp(x, rng) for x in app]
                if isinstance(two_aa, dict):
                    ix = self.issuer_ix[k][i]
                elif two_aa:
                    ix = self.issuer_of_station[k]
                else:
                    ix = 0
                row.append(p.issue(self.aas[ix], app=entries, **val))
            self.tickets.append(row)
        if two_aa and not isinstance(two_aa, dict):
            self.issuer_ix = [[self.issuer_of_station[k]] * len(ts) for k, ts in enumerate(self.tickets)]
        self.two_aa = {"issuer": self.issuer_ix, "known": self.known_aas} if two_aa else None
        # ticket HashedId8 -> index of the AA that issued it
        self.aa_ix_of = {sc.hid8(a.certificate): (self.issuer_ix[k][i] if two_aa else 0)
                         for k, ts in enumerate(self.tickets) for i, a in enumerate(ts)}
        self.ats = [t[0] if t else None for t in self.tickets]
        self.groups = [(g["subjectPermissions"][0], [e["psid"] for e in (g["subjectPermissions"][1] or [])])
                       for g in self.aa.certificate["toBeSigned"]["certIssuePermissions"]]
        self.apps = [[[e["psid"] for e in a.certificate["toBeSigned"]["appPermissions"]] for a in ts] for ts in self.tickets]
        self.owner = {sc.hid8(a.certificate): k for k, ts in enumerate(self.tickets) for a in ts}
        self.vals = [[[a.certificate["toBeSigned"]["validityPeriod"]["start"] - now,
                       *a.certificate["toBeSigned"]["validityPeriod"]["duration"]] for a in ts] for ts in self.tickets]
        self.ssps = [[sc.psid_ssp_json(a.certificate["toBeSigned"]["appPermissions"]) for a in ts] for ts in self.tickets]
        self.A = sc.Abs()
        self.A.register_backend(p.backend)
        for c in [self.root] + self.aas + [a for ts in self.tickets for a in ts]:
            self.A.cert(c.certificate)

    def aas_of(self, k):
        """the AA certificates station k is configured with"""
        return [self.aas[i] for i in self.known_aas[k]]

    def issuer_of(self, ticket):
        return self.aas[self.aa_ix_of[sc.hid8(ticket.certificate)]]

    def app_of(self, k):
        """all ITS-AIDs station k holds a ticket for"""
        return sorted({x for app in self.apps[k] for x in app})


# ------------------------------------------------------------------------------------------------ profile oracle


ALLOWED_HDR = {"cam": {"psid", "generationTime", "inlineP2pcdRequest", "requestedCertificate"},
               "vam": {"psid", "generationTime", "inlineP2pcdRequest", "requestedCertificate"},
               "denm": {"psid", "generationTime", "generationLocation"},
               "other": {"psid", "generationTime", "expiryTime", "generationLocation", "encryptionKey",
                         "inlineP2pcdRequest", "requestedCertificate"}}
MANDATORY_HDR = {"cam": {"psid", "generationTime"}, "vam": {"psid", "generationTime"},
                 "denm": {"psid", "generationTime", "generationLocation"}, "other": {"psid", "generationTime"}}


def profile_problems(kind, sd, own_at, clock_ms, its_aid):
    """TS 103 097 clause 5.2 + 7.1.x on a decoded SignedData; returns list of problems"""
    bad = []
    hi = sd["tbsData"]["headerInfo"]
    fields = set(hi.keys())
    if sd.get("hashId") != "sha256":
        bad.append(f"hashId {sd.get('hashId')}")
    miss = MANDATORY_HDR[kind] - fields
    if miss:
        bad.append("mandatory header fields absent: " + ",".join(sorted(miss)))
    extra = fields - ALLOWED_HDR[kind]
    if extra:
        bad.append("forbidden header fields present: " + ",".join(sorted(extra)))
    if hi.get("psid") != its_aid:
        bad.append(f"psid {hi.get('psid')} != ITS-AID {its_aid}")
    gt = hi.get("generationTime")
    want = (clock_ms - sc.ITS_EPOCH * 1000 + 5000) * 1000
    if gt is None or abs(gt - want) > 1000:
        bad.append(f"generationTime {gt} not the current ITS time {want}")
    sg = sd["signer"]
    if sg[0] == "certificate":
        if len(sg[1]) != 1:
            bad.append(f"signer certificate list of length {len(sg[1])}")
        elif sc.hid8(sg[1][0]) != sc.hid8(own_at.certificate):
            bad.append("signer certificate is not the sender's ticket")
    elif sg[0] == "digest":
        if bytes(sg[1]) != sc.hid8(own_at.certificate):
            bad.append("signer digest is not the HashedId8 of the sender's ticket")
        if kind == "denm":
            bad.append("DENM signed with digest")
    else:
        bad.append("signer choice " + sg[0])
    sig = sd["signature"]
    if sig[0] != "ecdsaNistP256Signature" or sig[1]["rSig"][0] != "x-only":
        bad.append("signature format")
    try:
        if sd["tbsData"]["payload"]["data"]["content"][0] != "unsecuredData":
            bad.append("payload is not unsecuredData")
    except Exception:  # noqa: BLE001
        bad.append("payload.data absent")
    return bad


# ------------------------------------------------------------------------------------------------ scenario


class Sim:
    """real stations + bookkeeping of the independent oracle"""

    def __init__(self, ctx, w, clock, n, sid):
        self.ctx, self.w, self.clock, self.n, self.sid = ctx, w, clock, n, sid
        rng = ctx.rng
        self.join = [0] + sorted(rng.choice([0, 0, 300, 950, 1000, 1050, 1700, 2500, 4000]) for _ in range(n - 1))
        self.pre = [[j for j in range(n) if j != k and rng.random() < 0.25] for k in range(n)]
        self.st = [None] * n
        self.lines, self.reals = ["reset"] + w.A.all_lines(), []
        self.reals = [None] * len(self.lines)
        self.auth = [None] * n          # per receiver: authenticity oracle (known certificates)
        self.knows = [set() for _ in range(n)]      # oracle: tickets a receiver must know (pre-loaded / seen in an authentic certificate-carrying packet)
        # the oracle's ghosts are kept per TICKET (HashedId8), independent of how the sign service keeps its timers:
        self.last_cert = {}             # ticket -> time of the last CAM/VAM signed with it that carried the certificate
        self.asked = {}                 # ticket -> a peer asked for it since then
        self.pending = {}               # (R, ticket of S) -> "await-R-cam" | "await-S-cam"
        self.events = []                # replayable log
        self.cur_area = False           # destination area of the emission being delivered (False: single-hop broadcast)
        self.line = False               # topology: False = everybody hears everybody; True = station k hears k-1 and k+1 only

    def joined(self, k):
        return self.st[k] is not None

    def do_join(self, k):
        w = self.w
        # pre-loaded peer tickets: only those whose AA the station is configured with (a library admits no others)
        pre = [a for j in self.pre[k] for a in w.tickets[j] if w.aa_ix_of[sc.hid8(a.certificate)] in w.known_aas[k]]
        mon = k in w.monitors
        aas = w.aas_of(k)
        s = sc.RouterStation(w.pki.backend, k + 1, [w.root], aas, pre, own=w.tickets[k], has_sign=not mon,
                             lat=LAT0 + STEP * k, lon=LON0 + STEP * k)
        self.st[k] = s
        self.auth[k] = AuthOracle([w.root], aas, pre)
        self.knows[k] = {sc.hid8(a.certificate) for a in pre}
        ls = sc.new_station_lines(w.A, k + 1, [w.root], aas, pre, has_sign=not mon)
        if w.two_aa:
            self.ctx.cover(f"join_knowing_{len(aas)}_of_2_authorization_authorities")
        if mon:
            self.ctx.cover("join_receive_only_station")
        for a in w.tickets[k]:
            ls.append(f"addown {k + 1} {w.A.cert(a.certificate)} {w.A.cert(w.issuer_of(a).certificate)}")
        self.lines += ls
        self.reals += [None] * (len(ls) - 1) + ["ok " + w.A.dump_store(s.lib)]
        self.ctx.cover(f"join_preloaded_{len(pre)}")
        self.ctx.cover(f"station_with_{len(w.tickets[k])}_tickets")

    def case(self):
        return {"kind": "scenario", "id": self.sid, "n": self.n, "join": self.join, "pre": self.pre, "apps": self.w.apps, "groups": self.w.groups,
                "vals": self.w.vals, "ssps": self.w.ssps, "monitors": self.w.monitors, "join_all": getattr(self, "join_all", False),
                **({"two_aa": self.w.two_aa} if self.w.two_aa else {}), **({"line": True} if self.line else {}),
                "events": list(self.events)}

    def pick_area(self, k, kind):
        """GENERATION POSITION relative to the destination area of a DENM / generic message (None = the default: DENM to
        500 m around the sender, generic message as single-hop broadcast): the sender inside its area; the area centred on
        a peer with the sender OUTSIDE (10 m circle, stations are ~28 m apart); a remote area containing nobody (event
        ahead).  Returns (area or None, transport)"""
        rng = self.ctx.rng
        if kind not in ("denm", "other"):
            return None, None
        r = rng.random()
        transport = "gac" if rng.random() < 0.2 else "gbc"
        if r < 0.45:
            return None, None
        peers = [j for j in range(self.n) if j != k and self.joined(j)]
        if r < 0.6:
            return [LAT0 + STEP * k, LON0 + STEP * k, rng.choice([50, 500, 1500]), 0], transport
        if r < 0.8 and peers:
            j = rng.choice(peers)
            return [LAT0 + STEP * j, LON0 + STEP * j, 10, 0], transport
        far = rng.choice([300_000, 500_000, -400_000])
        return [LAT0 + far, LON0 + rng.choice([0, far]), rng.choice([100, 500]), 0], transport

    def inside(self, j, area):
        """is station j inside the circular area -- only answered when it is clear-cut (None near the border)"""
        import math
        dlat = (LAT0 + STEP * j - area[0]) * 1e-7 * 111_320.0
        dlon = (LON0 + STEP * j - area[1]) * 1e-7 * 111_320.0 * math.cos(math.radians(area[0] * 1e-7))
        d = math.hypot(dlat, dlon)
        if d < 0.5 * area[2]:
            return True
        if d > 2 * area[2] + 5:
            return False
        return None

    def emit(self, k, kind, payload, area=None, transport=None):
        ctx, w, A = self.ctx, self.w, self.w.A
        s = self.st[k]
        now = self.clock.ms
        aid = KIND_AID[kind]
        self.events.append([now - T0, k, kind, len(payload)] + ([area, transport] if area is not None else []))
        self.cur_area = area if (area is not None or kind == "denm") else False     # False: single-hop broadcast
        if area is not None:
            src_in = self.inside(k, area)
            ctx.cover(f"{kind}_{transport}_source_{'inside' if src_in else 'outside' if src_in is False else 'near-border-of'}_area")
        app = w.app_of(k)
        multi = len(w.tickets[k]) > 1
        fid = "C05-F2" if multi else None       # a station signing with several tickets: region of finding C05-F2
        try:
            frames = s.send(kind, payload, now, area=tuple(area) if area is not None else None, transport=transport,
                            max_hop_limit=5 if self.line and kind in ("denm", "other") else None)
            err = None
        except Exception as e:  # noqa: BLE001
            frames, err = [], e
        ctx.evals()
        op = {"cam": "signcam", "vam": "signcam", "denm": "signdenm", "other": "signreq"}[kind]
        if err is not None or not frames:
            name = type(err).__name__ if err is not None else "nothing-sent"
            loc = "1 " if op in ("signdenm", "signreq") else ""
            nowtok = f"{now} " if op == "signcam" else ""
            self.lines.append(f"{op} {k + 1} {nowtok}{loc}{aid} 0 0")
            self.reals.append(f"err:{name} {s.dump_sign(A)}")
            ctx.cover("emit_raise_" + name)
            if aid in app:
                ctx.violation(f"station holding a ticket for ITS-AID {aid} could not send its {kind}: {name}", self.case())
            return None
        frame = frames[0]
        dec = sc.decode_signed(frame[4:]) if frame[0] & 0x0F == 2 else None
        if dec is None:
            where = "" if area is None else (f" ({transport}, sender {'inside' if self.inside(k, area) else 'OUTSIDE'} its destination area)")
            ctx.violation(f"{kind} of station {k}{where} emitted with security ENABLED is not a decodable secured packet "
                          f"(Basic Header NH = {frame[0] & 0x0F}): nobody can accept it", self.case())
            return None
        sd, tbs_bytes = dec
        hi = sd["tbsData"]["headerInfo"]
        plain = sd["tbsData"]["payload"]["data"]["content"][1]
        gt = hi.get("generationTime", 0)
        pl_id = A.payload(plain)
        if op == "signcam":
            self.lines.append(f"signcam {k + 1} {now} {aid} {gt} {pl_id}")
        elif op == "signdenm":
            self.lines.append(f"signdenm {k + 1} 1 {aid} {gt} {pl_id}")
        else:
            self.lines.append(f"signreq {k + 1} 0 {aid} {gt} {pl_id}")
        sg = sd["signer"]
        sgt = ("d" + str(A.id_of(sg[1]))) if sg[0] == "digest" else "c" + ",".join(str(A.cid(c)) for c in sg[1])
        inl = ".".join(str(A.h3_of(x)) for x in hi["inlineP2pcdRequest"]) if "inlineP2pcdRequest" in hi else "-"
        rc = str(A.cid(hi["requestedCertificate"])) if "requestedCertificate" in hi else "-"
        sb = A.keys.signed_by(tbs_bytes, sd["signature"])
        self.reals.append(f"sg:{sgt} inl:{inl} rc:{rc} loc:{int('generationLocation' in hi)} key:{sb if sb is not None else '-'} "
                          + s.dump_sign(A))
        # ---- oracle: which of the station's tickets signed (any own ticket covering the ITS-AID is honest)
        cands = [a for a, ap in zip(w.tickets[k], w.apps[k]) if aid in ap]
        try:
            used8 = bytes(sg[1]) if sg[0] == "digest" else sc.hid8(sg[1][0])
        except Exception:  # noqa: BLE001
            used8 = None
        ticket = next((a for a in cands if sc.hid8(a.certificate) == used8), cands[0] if cands else w.ats[k])
        tid = sc.hid8(ticket.certificate)
        # ---- oracle: profile
        for b in profile_problems(kind, sd, ticket, now, aid):
            ctx.violation(f"{kind} of station {k}: clause 7.1 profile violated: {b}", self.case())
        if not plain.endswith(payload):
            ctx.violation(f"{kind} of station {k}: signed payload does not end with the upper-layer payload", self.case())
        carries = sg[0] == "certificate"
        if kind in ("cam", "vam"):
            last = self.last_cert.get(tid)
            must = last is None or now - last > 1000 or self.asked.get(tid, False)
            if must and not carries:
                why = ("its certificate was never included before" if last is None else
                       f"{now - last} ms since its last inclusion" if now - last > 1000 else "a peer asked for it")
                ctx.violation(f"{kind} of station {k} signed with the digest of its ticket for {w.apps[k][w.tickets[k].index(ticket)]} "
                              f"although the certificate was due ({why})"
                              + (f"; the station signs with {len(w.tickets[k])} tickets" if multi else ""), self.case(), fid)
            if carries:
                self.last_cert[tid] = now
                self.asked[tid] = False
            ctx.cover(f"{kind}_signer_{'certificate' if carries else 'digest'}{'_due' if must else ''}")
        else:
            ctx.cover(f"{kind}_signer_{'certificate' if carries else 'digest'}")
        if "inlineP2pcdRequest" in hi:
            ctx.cover("emit_with_inline_request")
        ctx.nontrivial((kind, carries, "inlineP2pcdRequest" in hi, "requestedCertificate" in hi, multi))
        return frame, sd, plain, carries, tid

    def deliver(self, k, kind, payload, frame, sd, plain, carries, h8, receivers=None, via=None):
        """frame of sender k (signed with its ticket `h8`) to every joined station in radio range (`receivers`: to these
        only; `via`: the frame is the re-broadcast of k's packet by forwarder `via`)"""
        ctx, w, A = self.ctx, self.w, self.w.A
        fid = "C05-F2" if len(w.tickets[k]) > 1 else None
        hi = sd["tbsData"]["headerInfo"]
        if receivers is None:
            receivers = [k - 1, k + 1] if self.line else range(self.n)
        how = f", re-broadcast by forwarder {via} on its CBF timer thread" if via is not None else ""
        got = []
        for r in receivers:
            if r == k or r < 0 or r >= self.n or not self.joined(r):
                continue
            got.append(r)
            R = self.st[r]
            R.set_position(self.clock.ms)
            tok = sc.frame_tokens(A, frame)
            self.auth[r].observe(frame)
            out, gate, inds, conf, exc = R.receive(frame)
            ctx.evals()
            if out == "pass":
                real = "pass:" + str(A.payload(gate[0]))
            elif out == "drop":
                real = f"drop:report-{conf.report.value}" if conf is not None else "drop:?"
            else:
                real = out
            self.lines.append(f"gate {r + 1} 1 1 {tok}")
            self.reals.append(real + " " + R.dump(A))
            ctx.cover("rx_" + (conf.report.name if conf is not None else out))
            accepted = out == "pass" and bytes(gate[0]) == bytes(plain)
            known = h8 in self.knows[r]
            if w.aa_ix_of.get(h8, 0) not in w.known_aas[r] and not accepted:
                # the receiver was not configured with the AA of the sender's ticket: region of known finding C05-KF1 (outside
                # "know only root and AA"); no acceptance claim, the model comparison covers the bookkeeping
                ctx.cover("rx_sender_aa_not_configured_kf1_region")
                continue
            # ---- oracle: acceptance
            if carries or known:
                if not accepted:
                    extra = ""
                    if "requestedCertificate" in hi:
                        extra = " [the message answers a peer's request: headerInfo.requestedCertificate present]"
                        ctx.cover("rx_requested_certificate_not_accepted")
                    ctx.violation(f"{kind} of station {k} ({'carrying its certificate' if carries else 'ticket known to the receiver'}"
                                  f"{how}) not accepted by station {r}: {real.split()[0]}{extra}", self.case())
                elif "requestedCertificate" in hi:
                    ctx.cover("rx_requested_certificate_accepted")
                if (r, h8) in self.pending and self.pending[(r, h8)] == "await-S-cam" and kind in ("cam", "vam"):
                    ctx.cover("p2pcd_completed")
                self.pending.pop((r, h8), None)
            else:
                if (r, h8) in self.pending and self.pending[(r, h8)] == "await-S-cam" and kind in ("cam", "vam") and not accepted:
                    ctx.violation(f"P2PCD: station {r} asked for the ticket of station {k}, whose next {kind} signed with it still "
                                  f"is not accepted ({real.split()[0]})", self.case(), fid)
                if not accepted and (r, h8) not in self.pending and via is None:
                    self.pending[(r, h8)] = "await-R-cam"
                    ctx.cover("p2pcd_started")
            if accepted:
                if inds and bytes(inds[0].data) != bytes(payload):
                    ctx.violation(f"{kind} of station {k}: payload delivered by station {r} differs from the payload sent", self.case())
                if inds:
                    ctx.cover("indication_payload_equal")
                elif self.cur_area is False or self.inside(r, self.cur_area or [LAT0 + STEP * k, LON0 + STEP * k, 500, 0]):
                    # single-hop broadcast, or the receiver is well inside the destination area: the upper layer gets it
                    ctx.violation(f"{kind} of station {k} accepted by station {r} (inside the destination area) but its payload was "
                                  "not delivered to the upper layer", self.case())
                if carries:
                    self.knows[r].add(h8)
                # a request for one of r's own tickets inside an accepted CAM/VAM
                wanted = [bytes(x) for x in hi.get("inlineP2pcdRequest", [])]
                for a in w.tickets[r]:
                    if sc.hid8(a.certificate)[-3:] in wanted:
                        self.asked[sc.hid8(a.certificate)] = True
        # the sender's CAM moves pending requests of the sender (as receiver R = k) forward
        if kind in ("cam", "vam"):
            for (r, t8), v in list(self.pending.items()):
                if r == k and v == "await-R-cam" and self.joined(w.owner[t8]) and (not self.line or abs(w.owner[t8] - k) == 1):
                    self.pending[(r, t8)] = "await-S-cam"
        return got

    def relay(self, k, kind, payload, frame, sd, plain, carries, h8, got):
        """line topology: the stations that received k's GeoBroadcast buffered it for contention-based forwarding; nobody
        else re-broadcasts (the next hop has not heard it), so their CBF timers EXPIRE - on the timer's own thread - and
        the re-broadcast travels one hop further away from the source.  Judged: the re-broadcast frame carries the security
        envelope of the original unchanged, and the next station accepts it like a direct neighbour would"""
        ctx = self.ctx
        hop = [(r, r + (1 if r > k else -1)) for r in got]
        while hop:
            nxt = []
            for f, to in hop:
                F = self.st[f]
                F.ll.take()
                timers = sc.FireTimer.take(F.router)
                for t in timers:
                    exc = t.fire()
                    ctx.evals()
                    if exc is not None:
                        ctx.violation(f"{kind} of station {k}: CBF timer of forwarder {f} expired and the callback raised "
                                      f"{type(exc).__name__}: the signed packet is lost with the timer thread", self.case())
                sent = F.ll.take()
                if not timers:
                    ctx.cover("relay_forwarder_buffered_nothing")
                    continue
                ctx.cover(f"relay_cbf_timer_fired_{kind}")
                for fr in sent:
                    if fr[0] & 0x0F != 2 or bytes(fr[4:]) != bytes(frame[4:]):
                        ctx.violation(f"{kind} of station {k} received SECURED by forwarder {f} (inside the area, CBF) left it on the "
                                      f"timer thread {'as a PLAIN packet (Basic Header NH = ' + str(fr[0] & 0x0F) + ')' if fr[0] & 0x0F != 2 else 'with a different secured message'}"
                                      ": signature and certificate of the originator are gone", self.case())
                    if 0 <= to < self.n and self.joined(to):
                        g2 = self.deliver(k, kind, payload, fr, sd, plain, carries, h8, receivers=[to], via=f)
                        ctx.cover("relay_two_hop_delivery")
                        nxt += [(r, r + (1 if r > k else -1)) for r in g2]
            hop = nxt


def step(sim, k, kind, payload, area=None, transport=None):
    """one emission of station k, delivered to everybody in range (line topology: and carried on by the CBF forwarders)"""
    res = sim.emit(k, kind, payload, area, transport)
    if res is not None:
        got = sim.deliver(k, kind, payload, *res)
        if sim.line and kind in ("denm", "other") and (area is not None or kind == "denm"):
            sim.relay(k, kind, payload, *res, got)
    sc.FireTimer.armed.clear()
    return res


def honest_world(ctx, w, sim):
    """the tickets were obtained from the issuing API with ITS-AIDs inside the UNION of the AA's permission groups:
    they must come back signed and verifiable (independent chain checker + Certificate.verify)"""
    roots = {sc.hid8(w.root.certificate): w.root.certificate}
    cas = {sc.hid8(a.certificate): a.certificate for a in w.aas}
    for k, ts in enumerate(w.tickets):
        for at, ap in zip(ts, w.apps[k]):
            ok, why = sc.chain_ok(at.certificate, roots, cas)
            ctx.evals()
            if not ok or not at.verify(w.pki.backend):
                ctx.violation(f"honest ticket of station {k} for ITS-AIDs {ap} under an AA with permission groups {w.groups} "
                              f"is refused by the issuing API / Certificate.verify ({why}): its holder cannot sign, nobody accepts it",
                              sim.case())
    ctx.cover(f"aa_groups_{len(w.groups)}{'_all' if any(k == 'all' for k, _ in w.groups) else ''}")


def run_scenario(ctx, w, clock, n, n_events, sid, script=None):
    sim = Sim(ctx, w, clock, n, sid)
    honest_world(ctx, w, sim)
    rng = ctx.rng
    t = 0
    for e in range(n_events):
        t += rng.choice([10, 50, 90, 100, 100, 200, 250, 300, 400, 500, 999, 1000, 1001, 1500])
        clock.ms = T0 + 10_000 + t      # scenarios restart the clock: only differences matter
        for k in range(n):
            if not sim.joined(k) and sim.join[k] <= t:
                sim.do_join(k)
        senders = [k for k in range(n) if sim.joined(k) and k not in w.monitors]
        k = rng.choice(senders)
        app = w.app_of(k)
        kinds = [kd for kd, aid in KIND_AID.items() if aid in app]
        kind = rng.choice(kinds + [kd for kd in kinds if kd in ("cam", "vam")] * 2 + (["other", "vam"] if rng.random() < 0.05 else []))
        payload = bytes(rng.randrange(256) for _ in range(rng.choice([1, 5, 30, 200])))
        step(sim, k, kind, payload, *sim.pick_area(k, kind))
    return sim


def run_periodic(ctx, w, clock, n, sid, horizon_ms=None, max_events=70):
    """realistic traffic: every station sends each awareness service it holds a ticket for (CAM, VAM) PERIODICALLY
    (100 ms .. 1 s, own phase), plus a few DENM / generic one-shots; stations join late.  Dense traffic is where the
    certificate-request bookkeeping is exercised: several exchanges fit between two timer-driven inclusions, requests
    name several tickets of a multi-ticket station at once, and the tickets of one station take turns signing."""
    sim = Sim(ctx, w, clock, n, sid)
    honest_world(ctx, w, sim)
    rng = ctx.rng
    sim.join = [0] + sorted(rng.choice([0, 150, 400, 950, 1300, 2100]) for _ in range(n - 1))
    horizon = horizon_ms or (sim.join[-1] + rng.choice([1500, 2500, 3500]))
    ev = []
    for k in range(n):
        app = w.app_of(k)
        for kind in ("cam", "vam"):
            if KIND_AID[kind] in app:
                per = rng.choice([100, 100, 200, 300, 500, 1000])
                t = sim.join[k] + rng.randrange(1, per + 1)
                while t < horizon:
                    ev.append((t, k, kind))
                    t += per
        for kind in ("denm", "other"):
            if KIND_AID[kind] in app and rng.random() < 0.5:
                ev.append((sim.join[k] + rng.randrange(1, max(2, horizon - sim.join[k])), k, kind))
    ev.sort()
    if len(ev) > max_events:
        # keep the whole join phase of the last joiner, thin out nothing in between: cut the tail
        ev = ev[:max_events]
    last = None
    for t, k, kind in ev:
        if last is not None and t <= last:
            t = last + 1
        last = t
        clock.ms = T0 + 10_000 + t
        for j in range(n):
            if not sim.joined(j) and sim.join[j] <= t:
                sim.do_join(j)
        payload = bytes(rng.randrange(256) for _ in range(rng.choice([1, 5, 30])))
        step(sim, k, kind, payload, *sim.pick_area(k, kind))
    ctx.cover("periodic_scenarios")
    return sim


def run_line(ctx, clock, sid):
    """MULTI-HOP reach of a signed message: 3-4 stations in a LINE (each hears its two neighbours only), everybody inside
    the destination area, contention-based forwarding (the MIB default).  A signed DENM / generic GeoBroadcast reaches the
    stations two and three hops away only through the re-broadcast of the forwarders, whose CBF timer expires on a thread of
    its own.  CAMs first (neighbours know each other), then GeoBroadcasts of random stations mixed with CAMs."""
    rng = ctx.rng
    n = rng.choice([3, 3, 4])
    w = World(rng, n, apps=[rng.choice([[36, 37, 638, 99], [36, 37, 99], [36, 37]]) for _ in range(n)])
    sim = Sim(ctx, w, clock, n, sid)
    sim.join, sim.pre, sim.line, sim.join_all = [0] * n, [[] for _ in range(n)], True, True
    honest_world(ctx, w, sim)
    t = 10_000
    clock.ms = T0 + t
    for k in range(n):
        sim.do_join(k)
    plan = [(k, "cam") for k in range(n)]
    for _ in range(rng.randrange(3, 6)):
        k = rng.randrange(n)
        plan.append((k, rng.choice(["denm", "denm", "other", "cam"])))
    for k, kind in plan:
        t += rng.choice([20, 100, 300, 1001])
        clock.ms = T0 + t
        payload = bytes(rng.randrange(256) for _ in range(rng.choice([1, 5, 30])))
        area = None
        if kind in ("denm", "other") and (kind == "other" or rng.random() < 0.5):
            # everybody inside: a circle of 300 m ... 1.5 km around the sender or around a peer
            j = rng.randrange(n)
            area = [LAT0 + STEP * j, LON0 + STEP * j, rng.choice([300, 500, 1500]), 0]
        step(sim, k, kind, payload, area, "gbc" if area is not None else None)
    ctx.cover("line_topology_scenarios")
    return sim


def run_crowd(ctx, clock, sid, n_senders=None):
    """ANY NUMBER of stations: 9-12 running stations, all in the digest phase of their 1-s certificate timers, and one LATE
    JOINER that hears them all.  Its next CAM has to ask for every ticket it could not resolve, and each of the running
    stations' next CAM (still inside its own 1-s period, so only the request makes it carry the certificate) must be
    accepted: 'within two further message exchanges'."""
    rng = ctx.rng
    ns = n_senders or rng.randrange(9, 13)
    n = ns + 1
    w = World(rng, n, apps=[[36, 37]] * n, groups=[("explicit", [36, 37, 638, 99])], vals=[[[-1000, "hours", 100]]] * n)
    sim = Sim(ctx, w, clock, n, sid)
    late = rng.choice([250, 280])
    sim.join, sim.pre = [0] * ns + [late], [[] for _ in range(n)]
    honest_world(ctx, w, sim)
    phase = [rng.randrange(1, 100) for _ in range(ns)]
    ev = [(phase[k] + 300 * i, k) for k in range(ns) for i in range(3)] + [(rng.randrange(420, 580), ns)]
    last = 0
    for t, k in sorted(ev):
        t = max(t, last + 1)
        last = t
        clock.ms = T0 + 10_000 + t
        for j in range(n):
            if not sim.joined(j) and sim.join[j] <= t:
                sim.do_join(j)
        step(sim, k, "cam", bytes(rng.randrange(256) for _ in range(3)))
    ctx.cover(f"crowd_late_joiner_hears_{ns}_unknown_tickets")
    return sim


def run_validity_edges(ctx, clock, sid, units=None):
    """every IEEE 1609.2 Duration unit a ticket's validity can be given in x the boundary positions of the TRUE period:
    a station holding such a ticket signs at generationTime = start, start + 1 ms, end - 1 ms and end (CAM carrying the
    certificate, then a DENM); a receiver trusting root + AA must accept each of them.  One two-station world per unit."""
    sims = []
    rng = ctx.rng
    for unit in units or ["seconds", "minutes", "hours", "sixtyHours", "years"]:
        cnt = {"seconds": rng.choice([30, 600, 65535]), "minutes": rng.choice([1, 90]), "hours": rng.choice([1, 100]),
               "sixtyHours": rng.choice([1, 7]), "years": rng.choice([1, 2, 3])}[unit]
        now = sc.its_now_s(T0)
        # the period lies around T0: it started `back` seconds ago
        total = cnt * sc.UNIT_S[unit]
        back = rng.choice([0, total // 2, max(0, total - 10)])
        vals = [[[-back, unit, cnt]], [[-1000, "hours", 100]]]
        w = World(rng, 2, apps=[[36, 37, 638, 99], [36, 37]], groups=[("explicit", [36, 37, 638, 99])], vals=vals)
        sim = Sim(ctx, w, clock, 2, f"{sid}:{unit}{cnt}")
        sim.join, sim.pre, sim.join_all = [0, 0], [[], []], True
        honest_world(ctx, w, sim)
        start_s = now - back
        end_s = start_s + total
        # generationTime (us) = (clock_ms - ITS_EPOCH * 1000 + 5000) * 1000
        def clock_for(gt_ms):
            return gt_ms + sc.ITS_EPOCH * 1000 - 5000
        first = True
        for gt_ms, kind in ((start_s * 1000, "cam"), (start_s * 1000 + 1, "denm"), (end_s * 1000 - 1, "cam"), (end_s * 1000, "denm"),
                            (end_s * 1000, "cam")):
            clock.ms = clock_for(gt_ms)
            if first:
                sim.do_join(0)
                sim.do_join(1)
                first = False
            payload = bytes(rng.randrange(256) for _ in range(5))
            res = sim.emit(0, kind, payload)
            if res is not None:
                sim.deliver(0, kind, payload, *res)
            ctx.cover(f"validity_edge_{unit}")
        sims.append(sim)
    clock.ms = T0
    return sims


def compare(ctx, sims):
    if not ctx.model_ok:
        return
    out = ctx.model("Sec", [l for s in sims for l in s.lines])
    pos = 0
    for s in sims:
        for j, (l, r) in enumerate(zip(s.lines, s.reals)):
            if r is not None and out[pos + j] != r:
                ctx.mismatch("exchange", {"scenario": s.sid, "line": l}, r, out[pos + j])
                break
        pos += len(s.lines)


def pick_monitors(rng, n):
    """receive-only stations of a world (never station 0: somebody has to send): none in 60 % of the worlds"""
    if n < 2 or rng.random() < 0.6:
        return []
    return sorted(rng.sample(range(1, n), 1 if n < 4 or rng.random() < 0.7 else 2))


def multi_ticket_world(rng, n, two_aa=None):
    """at least one station signs with separate tickets per service (the dense-traffic scenarios are about them)"""
    apps = [None] * n
    mon = pick_monitors(rng, n)
    for k in rng.sample([j for j in range(n) if j not in mon], 1 if rng.random() < 0.67 else n - len(mon)):
        apps[k] = rng.choice([[[36, 37, 99], [638]], [[36], [638, 37]], [[638], [36, 37, 99]], [[36, 99], [37], [638]]])
    for k in range(n):
        if apps[k] is None:
            apps[k] = rng.choice([[36, 37, 638, 99], [36, 37, 99], [36, 37], [638, 37, 99]])
    return World(rng, n, apps=apps, monitors=mon, two_aa=two_aa)


def check_scenarios(ctx, clock, n_scen, tag, extra=(), n_periodic=0, edges=False, n_line=0, n_crowd=0, n_two_aa=0):
    sims = list(extra)
    if edges:
        sims += run_validity_edges(ctx, clock, f"{tag}edge")
    for i in range(n_line):
        sims.append(run_line(ctx, clock, f"{tag}line{i}"))
    for i in range(n_crowd):
        sims.append(run_crowd(ctx, clock, f"{tag}crowd{i}"))
    for i in range(n_two_aa):
        # two authorization authorities under the one root, dense periodic traffic: requests for an AA certificate are
        # made, answered (requestedCertificate) and overheard by third parties
        n = ctx.rng.choice([3, 4, 4, 5])
        w = (multi_ticket_world(ctx.rng, n, two_aa=True) if ctx.rng.random() < 0.3
             else World(ctx.rng, n, monitors=pick_monitors(ctx.rng, n), two_aa=True))
        sims.append(run_periodic(ctx, w, clock, n, f"{tag}aa{i}", max_events=50))
        ctx.cover("two_authorization_authority_worlds")
    for i in range(n_periodic):
        n = ctx.rng.choice([2, 2, 3, 3, 4])
        w = multi_ticket_world(ctx.rng, n) if ctx.rng.random() < 0.7 else World(ctx.rng, n, monitors=pick_monitors(ctx.rng, n))
        sims.append(run_periodic(ctx, w, clock, n, f"{tag}p{i}"))
    for i in range(n_scen):
        n = ctx.rng.choice([2, 2, 3, 3, 4, 5])
        w = World(ctx.rng, n, monitors=pick_monitors(ctx.rng, n), two_aa=(n >= 3 and ctx.rng.random() < 0.15) or None)
        sims.append(run_scenario(ctx, w, clock, n, ctx.rng.randrange(12, 40), f"{tag}{i}"))
    compare(ctx, sims)
    if sims:
        ctx.sample("scenario", {"stations": sims[0].n, "join_ms": sims[0].join, "events": sims[0].events[:6],
                                "real": [r for r in sims[0].reals if r][:3]})


# ------------------------------------------------------------------------------------------------ known finding


def root_only_scenario():
    """C05-KF1: a receiver that trusts the root but lacks the sender's AA never accepts, P2PCD for CA certificates
    notwithstanding.  Returns (reproduced?, description)"""
    import random
    # a single-group AA: the known finding is about the missing AA certificate, not about the layout of its permissions
    w = World(random.Random(5), 2, apps=[[36, 37, 638, 99], [36, 37]], groups=[("explicit", [36, 37, 638, 99])])
    for at in w.ats:
        if not at.verify(w.pki.backend):
            # precondition of the scenario broken (honest tickets do not verify): judged by honest_world(), not here
            return False, "scenario not runnable: an honest ticket under a single-group AA does not verify"
    S = sc.RouterStation(w.pki.backend, 1, [w.root], [w.aa], [], own=[w.ats[0]])
    R = sc.RouterStation(w.pki.backend, 2, [w.root], [], [], own=[], lat=415000100, lon=21000100)   # root only
    Rsend = sc.RouterStation(w.pki.backend, 3, [w.root], [w.aa], [], own=[w.ats[1]], lat=415000100, lon=21000100)
    R.ss.certificate_library.own_certificates.update(Rsend.lib.own_certificates)     # R can sign (its own AT) but lacks the AA
    accepted = []
    t = T0 + 50_000
    for rnd in range(4):
        t += 1100
        with rs.VClock(t):
            fr = S.send("cam", b"kf1", t)[0]
            out, gate, inds, conf, exc = R.receive(fr)
            accepted.append(out == "pass")
            back = R.send("cam", b"kf1-back", t)
            if back:
                S.receive(back[0])
    return (not any(accepted)), f"4 CAM rounds, receiver verdicts accepted={accepted}"


def run(ctx):
    ctx.extra["rule"] = ("scenarios of 2-5 real stations, 12-40 emissions (CAM/VAM/DENM/generic by the ticket's ITS-AIDs) over a "
                         "broadcast medium, inter-emission gaps around the 1-s timer, join times 0..4 s, 25 % pre-loaded peer tickets; "
                         "every emission and every reception compared with the model and judged by the profile / acceptance oracle. "
                         "distinct_nontrivial counts distinct (kind, signer, P2PCD field) emission classes")
    router_mod.Timer = sc.FireTimer
    try:
        with rs.VClock(T0) as clock, rs.quiet():
            recorded = []
            for name, c in corpus("C05"):
                ctx.cover("corpus_cases")
                if c.get("kind") == "kf1":
                    rep, desc = root_only_scenario()
                    ctx.extra.setdefault("variant", {})["C05-KF1"] = "reproduced (code as is)" if rep else "not reproduced (repaired)"
                    if rep:
                        ctx.violation("receiver trusting only the root never accepts a station whose AA it lacks: " + desc, c, "C05-KF1")
                elif c.get("kind") == "scenario":
                    recorded.append(run_recorded(ctx, clock, c, f"corpus:{name}"))
            check_scenarios(ctx, clock, ctx.scale(20, 600), "s", extra=recorded, n_periodic=ctx.scale(5, 120), edges=True,
                            n_line=ctx.scale(2, 40), n_crowd=ctx.scale(1, 6), n_two_aa=ctx.scale(2, 40))
    finally:
        router_mod.Timer = threading.Timer


def search(ctx):
    ok = ctx.model_ok
    ctx.model_ok = False
    router_mod.Timer = sc.FireTimer
    try:
        with rs.VClock(T0) as clock, rs.quiet():
            check_scenarios(ctx, clock, ctx.scale(60, 400), "x", n_periodic=ctx.scale(24, 200), edges=True,
                            n_line=ctx.scale(4, 40), n_crowd=ctx.scale(1, 6), n_two_aa=ctx.scale(6, 60))
    finally:
        router_mod.Timer = threading.Timer
        ctx.model_ok = ok


def run_recorded(ctx, clock, case, sid):
    """structural replay of a recorded scenario: same stations / AA permission groups / ticket ITS-AIDs / join times /
    pre-loading / event kinds and times, fresh keys"""
    import random
    rng = random.Random(1)
    n = case["n"]
    w = World(rng, n, case.get("apps"), case.get("groups"), case.get("vals"), case.get("ssps"), case.get("monitors", ()),
              two_aa=case.get("two_aa"))
    sim = Sim(ctx, w, clock, n, sid)
    sim.join, sim.pre, sim.line = case["join"], case["pre"], bool(case.get("line"))
    honest_world(ctx, w, sim)
    if case.get("join_all"):
        sim.join_all = True
        if case["events"]:
            clock.ms = T0 + case["events"][0][0]
        for j in range(n):
            sim.do_join(j)
    for (t, k, kind, plen, *geo) in case["events"]:
        clock.ms = T0 + t
        for j in range(n):
            if not sim.joined(j) and sim.join[j] <= t - 10_000:
                sim.do_join(j)
        if not sim.joined(k):
            sim.do_join(k)
        step(sim, k, kind, bytes(plen), *(geo if geo else (None, None)))
    return sim


def replay(ctx, obj):
    case = obj.get("case", obj)
    if case.get("kind") == "kf1":
        with rs.quiet():
            rep, desc = root_only_scenario()
        print(desc)
        return rep
    if case.get("kind") == "scenario":
        router_mod.Timer = sc.FireTimer
        try:
            with rs.VClock(T0) as clock, rs.quiet():
                ctx.model_ok = False
                run_recorded(ctx, clock, case, "replay")
        finally:
            router_mod.Timer = threading.Timer
        for v in ctx.violations[:5]:
            print(v["what"])
        return bool(ctx.violations)
    raise Infra("unknown replay kind")

"""C02 — Emitted packets and header codecs conform to the ETSI wire formats.

Theorems: lean/Props/C02.lean about lean/FlexModel/Wire/{Headers,Packet}.lean against the layouts of
lean/FlexModel/Wire/Spec.lean (written from EN 302 636-4-1 clause 9 / EN 302 636-5-1 clause 7).
Tie: differential correspondence of the model with every header codec of the repository (bytes as hex,
decoded field tuples, exception kinds) and with whole packets emitted by a real Router / BTP Router through
a capturing link layer (beacon, SHB, GBC, GAC, GUC, LS request, LS reply, forwarded TSB/GBC/GAC/GUC/LS), BTP-Data.requests
with any declared length through btp.Router, and two receptions on one Router as two threads under harness/dsched.py.
Oracle: an independent reference codec (`REF` below: layouts as data + generic pack/unpack, transcribed
from the standard, never from the code) applied to the REAL outputs; the same layouts exist in Lean
(`Spec.pack/unpack`) and both are cross-checked on every run.
"""
from __future__ import annotations

import threading

from common import Infra, corpus
import realstack as rs

from flexstack.geonet.basic_header import BasicHeader, BasicNH, LT, LTbase
from flexstack.geonet.common_header import CommonHeader
from flexstack.geonet.gn_address import GNAddress, M, ST, MID
from flexstack.geonet.position_vector import LongPositionVector, ShortPositionVector, TST
from flexstack.geonet.gbc_extended_header import GBCExtendedHeader
from flexstack.geonet.tsb_extended_header import TSBExtendedHeader
from flexstack.geonet.guc_extended_header import GUCExtendedHeader
from flexstack.geonet.ls_extended_header import LSRequestExtendedHeader, LSReplyExtendedHeader
from flexstack.geonet.mib import MIB, GnIsMobile, AreaForwardingAlgorithm
from flexstack.geonet.service_access_point import (
    GNDataRequest, PacketTransportType, HeaderType, HeaderSubType, TopoBroadcastHST, GeoBroadcastHST, GeoAnycastHST,
    LocationServiceHST, Area, CommonNH, TrafficClass)
from flexstack.btp.btp_header import BTPAHeader, BTPBHeader
from flexstack.btp.router import Router as BTPRouter
from flexstack.btp.service_access_point import BTPDataRequest
import flexstack.geonet.router as router_mod
import flexstack.geonet.location_table as loct_mod
from flexstack.security.sn_sap import SNVERIFYConfirm, ReportVerify
import dsched

MODULES = ["Props.C02"] + __import__("gen_extract").bridge_modules("C02")   # + bridge lemmas of the functions py2lean could extract
DRIVERS = ["Wire"]
# bridge modules that are obligations of a run when py2lean can translate the current source (gen_extract families of C02);
# one missing from MODULES = that family is covered by correspondence alone: recorded loudly by bridge_report()
EXPECTED_BRIDGES = ["Props.C02BridgeBasic", "Props.C02BridgeCommon", "Props.C02BridgePV", "Props.C02BridgeExt", "Props.C02BridgeBtp"]
TRUSTED = [
    "Wire/Spec.lean + REF in harness/props/c02.py: the ETSI layouts as data, transcribed by hand from EN 302 636-4-1 "
    "V1.4.1 clause 9 / 6.3 and EN 302 636-5-1 clause 7 (cross-checked against each other on every run)",
    "harness/gen_wire.py (ast passes: enum tables; the binding of the per-reception secured-message context of geonet.Router and "
    "its reset; the length= argument of the GNDataRequest built by btp_data_request; the number of loads of a `.position_vector` "
    "attribute behind every ShortPositionVector(...) copy of geonet.Router) and harness/dsched.py (deterministic scheduler, "
    "line-granular pre-emption; opcode-granular inside the four functions that copy a LocTE vector into a header) for the "
    "two-receive-threads and the copy-under-concurrent-beacon scenarios",
    "modelled rather than verified: nothing inside the header codecs (pure integer code); the Router's choice WHETHER to "
    "send/forward (geometry, location table, CBF timers) is outside C02 - only the octets of what is sent are judged",
]
ASSUMPTIONS = [
    "a caller that enters at the GeoNetworking service access point passes GNDataRequest.length == len(data) (contract of the "
    "GN-DATA.request primitive; PL is that length). NOT assumed for requests entering at the BTP layer: btp_data_request is "
    "modelled (btpGnRequest) and exercised with ANY declared BTPDataRequest.length (0, stale, too small, too large) - PL must be "
    "the number of payload octets emitted (Lean btp_pl_is_emitted_payload + regenerated fact btp_length_fact)",
    "originated packets: security disabled (the secured envelope is C03/C05); forwarding: unsecured packets, one signed DENM "
    "through a verifying forwarder, and secured/unsecured packets with a stub SN-VERIFY service (the envelope is opaque; the "
    "verified plain message is an input) incl. two receive threads on one router under harness/dsched.py (line-granular "
    "pre-emption in geonet/router.py, lock points; all 1-pre-emption schedules of the always-on pair)",
    "a LocTE position vector is an immutable object that other threads only REPLACE (LocationTableEntry.update_position_vector; "
    "LongPositionVector is a frozen dataclass): the thread model of Wire/Snap.lean is 'history of whole vectors + instants of the "
    "loads'; exercised on the real code with one copying thread || one thread receiving 1-3 beacons of that station, <= 1 "
    "pre-emption (thorough: one case with 2)",
    "requested lifetimes < 1 000 000 ms (the cap above is known finding C20-KF1); the LT octet is judged by its VALUE "
    "(greatest representable lifetime not exceeding the request), the standard does not fix the (multiplier, base) pair",
    "interface convention for the hop limit (property text of C20, Lean LTSpec.requestedHops): request.max_hop_limit 0 and 1 mean "
    "'not specified' -> itsGnDefaultHopLimit; a multi-hop request can therefore not ask for hop limit 1 (design_notes/C20.md)",
    "known finding C02-KF1: the beacon common header carries itsGnIsMobile in bit 7 (0x01) instead of bit 0 (0x80) - pinned by "
    "tests/flexstack/geonet/test_router.py::test_GNDataRequestBeacon",
    "known finding C02-KF2: originated packets carry version 1 whatever itsGnProtocolVersion says - a repair breaks "
    "tests/flexstack/geonet/test_basic_header.py::test_initialize_with_mib_and_rhl (mock MIB)",
    "C02-KF3 (a SECURED packet forwarded without its security envelope) is fixed in /repo (e105657); the model stays dual-variant "
    "(forwardSecured), the variant is probed at run time; one always-on scenario (signed DENM through a verifying forwarder); "
    "the envelope itself (signature, certificate) is C03/C05's subject",
]

# =====================================================================================================
# REFERENCE CODEC (the oracle) - written from the standard.  (name, width, signed)
# =====================================================================================================
R_BASIC = [("version", 4, 0), ("nh", 4, 0), ("reserved", 8, 0), ("ltMultiplier", 6, 0), ("ltBase", 2, 0), ("rhl", 8, 0)]
R_COMMON = [("nh", 4, 0), ("reserved", 4, 0), ("ht", 4, 0), ("hst", 4, 0), ("scf", 1, 0), ("channelOffload", 1, 0),
            ("tcId", 6, 0), ("mobile", 1, 0), ("flagsReserved", 7, 0), ("pl", 16, 0), ("mhl", 8, 0), ("reserved2", 8, 0)]
R_TC = [("scf", 1, 0), ("channelOffload", 1, 0), ("tcId", 6, 0)]
R_GNADDR = [("m", 1, 0), ("st", 5, 0), ("reserved", 10, 0), ("mid", 48, 0)]
R_LPV = R_GNADDR + [("tst", 32, 0), ("lat", 32, 1), ("lon", 32, 1), ("pai", 1, 0), ("s", 15, 1), ("h", 16, 0)]
R_SPV = R_GNADDR + [("tst", 32, 0), ("lat", 32, 1), ("lon", 32, 1)]
R_SNRES = [("sn", 16, 0), ("reserved", 16, 0)]
R_GBC = R_SNRES + R_LPV + [("areaLat", 32, 1), ("areaLon", 32, 1), ("a", 16, 0), ("b", 16, 0), ("angle", 16, 0),
                           ("reserved2", 16, 0)]
R_TSB = R_SNRES + R_LPV
R_SHB = R_LPV + [("mediaDependent", 32, 0)]
R_GUC = R_SNRES + R_LPV + R_SPV
R_LSQ = R_SNRES + R_LPV + R_GNADDR
R_BTPA = [("destinationPort", 16, 0), ("sourcePort", 16, 0)]
R_BTPB = [("destinationPort", 16, 0), ("destinationPortInfo", 16, 0)]
REF_LAYOUT = {"bh": R_BASIC, "ch": R_COMMON, "ga": R_GNADDR, "lpv": R_LPV, "spv": R_SPV, "gbc": R_GBC, "tsb": R_TSB,
              "guc": R_GUC, "lsr": R_GUC, "lsq": R_LSQ, "btpa": R_BTPA, "btpb": R_BTPB}
LEAN_LAYOUT = {"bh": "basic", "ch": "common", "ga": "gnaddr", "lpv": "lpv", "spv": "spv", "gbc": "gbc", "tsb": "tsb",
               "guc": "guc", "lsr": "lsreply", "lsq": "lsrequest", "btpa": "btpa", "btpb": "btpb"}
# code points (EN 302 636-4-1 Tables 4/5/9, 6.3 Table 1)
REF_BASIC_NH = (0, 1, 2)
REF_COMMON_NH = (0, 1, 2, 3)
REF_HT = (0, 1, 2, 3, 4, 5, 6)
REF_HST = {0: (0,), 1: (0,), 2: (0,), 3: (0, 1, 2), 4: (0, 1, 2), 5: (0, 1), 6: (0, 1)}
REF_ST = (0, 1, 2, 3, 4, 5, 6, 7, 8, 9, 10, 11, 15)


def ref_bits(layout):
    return sum(w for _, w, _ in layout)


def ref_fits(layout, vals):
    for (_, w, s), v in zip(layout, vals):
        if s:
            if not -(1 << (w - 1)) <= v < (1 << (w - 1)):
                return False
        elif not 0 <= v < (1 << w):
            return False
    return True


def ref_pack(layout, vals) -> bytes:
    """first field in the most significant bits; signed fields in two's complement"""
    assert len(layout) == len(vals)
    acc = 0
    for (_, w, s), v in zip(layout, vals):
        if s and v < 0:
            v += 1 << w
        acc = acc * (1 << w) + (v % (1 << w))
    return acc.to_bytes(ref_bits(layout) // 8, "big")


def ref_unpack(layout, data: bytes):
    n = int.from_bytes(data, "big")
    out = []
    for (_, w, s) in reversed(layout):
        v = n % (1 << w)
        n //= (1 << w)
        if s and v >= (1 << (w - 1)):
            v -= 1 << w
        out.append(v)
    return list(reversed(out))


# field-tuple order used by the real-code adapters and by the Lean driver -> reference value list (reserved made explicit)
def ga_ref(t):
    return [t[0], t[1], 0, t[2]]


def lpv_ref(t):
    return ga_ref(t[0:3]) + list(t[3:9])


def spv_ref(t):
    return ga_ref(t[0:3]) + list(t[3:6])


def to_ref(hdr, t):
    t = list(t)
    if hdr == "bh":
        return t
    if hdr == "ch":
        nh, res, ht, hst, scf, co, tcid, flags, pl, mhl = t
        return [nh, res, ht, hst, scf, co, tcid, flags >> 7, flags & 127, pl, mhl, res]
    if hdr == "ga":
        return ga_ref(t)
    if hdr == "lpv":
        return lpv_ref(t)
    if hdr == "spv":
        return spv_ref(t)
    if hdr == "gbc":
        return t[0:2] + lpv_ref(t[2:11]) + t[11:17]
    if hdr == "tsb":
        return t[0:2] + lpv_ref(t[2:11])
    if hdr in ("guc", "lsr"):
        return t[0:2] + lpv_ref(t[2:11]) + spv_ref(t[11:17])
    if hdr == "lsq":
        return t[0:2] + lpv_ref(t[2:11]) + ga_ref(t[11:14])
    if hdr in ("btpa", "btpb"):
        return t
    raise Infra("hdr " + hdr)


def addr_ok(t):
    return t[0] in (0, 1) and t[1] in REF_ST


def conformant(hdr, t):
    """the tuple is something a conformant encoder may put on the wire: in width, valid code points, reserved 0"""
    r = to_ref(hdr, t)
    if not ref_fits(REF_LAYOUT[hdr], r):
        return False
    if hdr == "bh":
        return t[1] in REF_BASIC_NH and t[2] == 0
    if hdr == "ch":
        return (t[0] in REF_COMMON_NH and t[1] == 0 and t[2] in REF_HT and t[3] in REF_HST[t[2]] and (t[7] & 127) == 0)
    if hdr == "ga":
        return addr_ok(t)
    if hdr in ("lpv", "spv"):
        return addr_ok(t)
    if hdr in ("btpa", "btpb"):
        return True
    ok = t[1] == 0 and addr_ok(t[2:5])
    if hdr == "gbc":
        ok = ok and t[16] == 0
    if hdr in ("guc", "lsr", "lsq"):
        ok = ok and addr_ok(t[11:14])
    return ok


# =====================================================================================================
# REAL-CODE ADAPTERS
# =====================================================================================================
def mk_addr(t):
    return GNAddress(m=M(t[0]), st=ST(t[1]), mid=MID(int(t[2]).to_bytes(6, "big")))


def mk_lpv(t):
    return LongPositionVector(gn_addr=mk_addr(t[0:3]), tst=TST(msec=t[3]), latitude=t[4], longitude=t[5], pai=bool(t[6]),
                              s=t[7], h=t[8])


def mk_spv(t):
    return ShortPositionVector(gn_addr=mk_addr(t[0:3]), tst=TST(msec=t[3]), latitude=t[4], longitude=t[5])


def addr_t(a):
    return [a.m.value, a.st.value, int.from_bytes(a.mid.mid, "big")]


def lpv_t(p):
    return addr_t(p.gn_addr) + [p.tst.msec, p.latitude, p.longitude, int(p.pai), p.s, p.h]


def spv_t(p):
    return addr_t(p.gn_addr) + [p.tst.msec, p.latitude, p.longitude]


_HST_ENUM = {3: GeoAnycastHST, 4: GeoBroadcastHST, 5: TopoBroadcastHST, 6: LocationServiceHST}


def mk_hst(ht, hst):
    return _HST_ENUM.get(ht, HeaderSubType)(hst)


def real_enc(hdr, t):
    """encode the field tuple with the repository's encoder; hex or exception name"""
    try:
        if hdr == "bh":
            b = BasicHeader(version=t[0], nh=BasicNH(t[1]), reserved=t[2], lt=LT(multiplier=t[3], base=LTbase(t[4])),
                            rhl=t[5]).encode_to_bytes()
        elif hdr == "ch":
            b = CommonHeader(nh=CommonNH(t[0]), reserved=t[1], ht=HeaderType(t[2]), hst=mk_hst(t[2], t[3]),
                             tc=TrafficClass(scf=bool(t[4]), channel_offload=bool(t[5]), tc_id=t[6]), flags=t[7], pl=t[8],
                             mhl=t[9]).encode_to_bytes()
        elif hdr == "ga":
            b = mk_addr(t).encode()
        elif hdr == "lpv":
            b = mk_lpv(t).encode()
        elif hdr == "spv":
            b = mk_spv(t).encode()
        elif hdr == "gbc":
            b = GBCExtendedHeader(sn=t[0], reserved=t[1], so_pv=mk_lpv(t[2:11]), latitude=t[11], longitude=t[12], a=t[13],
                                  b=t[14], angle=t[15], reserved2=t[16]).encode()
        elif hdr == "tsb":
            b = TSBExtendedHeader(sn=t[0], reserved=t[1], so_pv=mk_lpv(t[2:11])).encode()
        elif hdr == "guc":
            b = GUCExtendedHeader(sn=t[0], reserved=t[1], so_pv=mk_lpv(t[2:11]), de_pv=mk_spv(t[11:17])).encode()
        elif hdr == "lsr":
            b = LSReplyExtendedHeader(sn=t[0], reserved=t[1], so_pv=mk_lpv(t[2:11]), de_pv=mk_spv(t[11:17])).encode()
        elif hdr == "lsq":
            b = LSRequestExtendedHeader(sn=t[0], reserved=t[1], so_pv=mk_lpv(t[2:11]), request_gn_addr=mk_addr(t[11:14])).encode()
        elif hdr == "btpa":
            b = BTPAHeader(destination_port=t[0], source_port=t[1]).encode()
        elif hdr == "btpb":
            b = BTPBHeader(destination_port=t[0], destination_port_info=t[1]).encode()
        else:
            raise Infra("hdr " + hdr)
        return b.hex() if b else "-"
    except Infra:
        raise
    except Exception as e:  # noqa: BLE001 - the exception kind is part of the compared behaviour
        return type(e).__name__


def real_dec(hdr, data: bytes):
    """decode with the repository's decoder; list of ints or exception name"""
    try:
        if hdr == "bh":
            h = BasicHeader.decode_from_bytes(data)
            return [h.version, h.nh.value, h.reserved, h.lt.multiplier, h.lt.base.value, h.rhl]
        if hdr == "ch":
            h = CommonHeader.decode_from_bytes(data)
            return [h.nh.value, h.reserved, h.ht.value, h.hst.value, int(h.tc.scf), int(h.tc.channel_offload), h.tc.tc_id,
                    h.flags, h.pl, h.mhl]
        if hdr == "ga":
            return addr_t(GNAddress.decode(data))
        if hdr == "lpv":
            return lpv_t(LongPositionVector.decode(data))
        if hdr == "spv":
            return spv_t(ShortPositionVector.decode(data))
        if hdr == "gbc":
            h = GBCExtendedHeader.decode(data)
            return [h.sn, h.reserved] + lpv_t(h.so_pv) + [h.latitude, h.longitude, h.a, h.b, h.angle, h.reserved2]
        if hdr == "tsb":
            h = TSBExtendedHeader.decode(data)
            return [h.sn, h.reserved] + lpv_t(h.so_pv)
        if hdr in ("guc", "lsr"):
            h = (GUCExtendedHeader if hdr == "guc" else LSReplyExtendedHeader).decode(data)
            return [h.sn, h.reserved] + lpv_t(h.so_pv) + spv_t(h.de_pv)
        if hdr == "lsq":
            h = LSRequestExtendedHeader.decode(data)
            return [h.sn, h.reserved] + lpv_t(h.so_pv) + addr_t(h.request_gn_addr)
        if hdr == "btpa":
            h = BTPAHeader.decode(data)
            return [h.destination_port, h.source_port]
        if hdr == "btpb":
            h = BTPBHeader.decode(data)
            return [h.destination_port, h.destination_port_info]
        raise Infra("hdr " + hdr)
    except Infra:
        raise
    except Exception as e:  # noqa: BLE001
        return type(e).__name__


MODEL_OP = {"lsr": "guc", "btpa": "btp", "btpb": "btp"}

# fields of the standard's layout a decoder does NOT return (the classes have no attribute for them): the 10 reserved bits
# of every GN_ADDR, and in the common header the 4 reserved bits after NH and the 7 reserved flag bits (Lean:
# common_decode_reads_layout).  Every other field - the 8/16-bit reserved fields included - must be what is on the wire.
UNRETURNED = {h: {i for i, (nm, w, _) in enumerate(REF_LAYOUT[h]) if nm == "reserved" and w == 10} for h in REF_LAYOUT}
UNRETURNED["ch"] = {1, 8}


def decraw_diff(hdr, wire: bytes, rd):
    """fields (name, on the wire, returned) where an accepting decoder deviates from what the reference `unpack` reads"""
    ref = ref_unpack(REF_LAYOUT[hdr], wire)
    got = to_ref(hdr, rd)
    return [(f[0], r, g) for i, (f, r, g) in enumerate(zip(REF_LAYOUT[hdr], ref, got)) if i not in UNRETURNED[hdr] and r != g]


def hx(b: bytes):
    return b.hex() if b else "-"


def out_s(x):
    return x if isinstance(x, str) else " ".join(str(int(v)) for v in x)


# =====================================================================================================
# GENERATORS
# =====================================================================================================
def bvals(w, signed):
    """boundary values of a w-bit field (in width)"""
    if not signed:
        lo, hi = 0, (1 << w) - 1
        s = {0, 1, hi, hi - 1}
        for k in range(w):
            s |= {1 << k, (1 << k) - 1, (1 << k) + 1}
    else:
        lo, hi = -(1 << (w - 1)), (1 << (w - 1)) - 1
        s = {0, 1, -1, lo, hi, lo + 1, hi - 1}
        for k in range(w - 1):
            for d in (-1, 0, 1):
                s |= {(1 << k) + d, -(1 << k) + d}
    return sorted(v for v in s if lo <= v <= hi)


WGS = [900000000, -900000000, 1800000000, -1800000000, 899999999, -899999999, 1799999999, -1799999999, 415000000, 21000000,
       -337000000, -709000000]
B32S = sorted(set(bvals(32, 1) + WGS))
B32U = bvals(32, 0)
B48U = bvals(48, 0)
B16U = bvals(16, 0)
B15S = bvals(15, 1)
STS = list(REF_ST)


def pick(rng, bs, lo, hi):
    """boundary-biased sample of [lo, hi]"""
    return rng.choice(bs) if rng.random() < 0.5 else rng.randint(lo, hi)


def g_addr(rng):
    return [rng.randint(0, 1), rng.choice(STS), pick(rng, B48U, 0, (1 << 48) - 1)]


def g_lpv(rng):
    return g_addr(rng) + [pick(rng, B32U, 0, (1 << 32) - 1), pick(rng, B32S, -(1 << 31), (1 << 31) - 1),
                          pick(rng, B32S, -(1 << 31), (1 << 31) - 1), rng.randint(0, 1), pick(rng, B15S, -(1 << 14), (1 << 14) - 1),
                          pick(rng, B16U, 0, 65535)]


def g_spv(rng):
    return g_lpv(rng)[0:6]


def g16(rng):
    return pick(rng, B16U, 0, 65535)


def g_hthst(rng):
    ht = rng.choice(REF_HT)
    return ht, rng.choice(REF_HST[ht])


def gen_wf(hdr, rng, reserved_zero=True):
    """in-width field tuple with valid code points (reserved fields 0 unless reserved_zero=False)"""
    rz = (lambda w: 0) if reserved_zero else (lambda w: rng.randint(0, (1 << w) - 1))
    if hdr == "bh":
        return [rng.randint(0, 15), rng.choice(REF_BASIC_NH), rz(8), rng.randint(0, 63), rng.randint(0, 3), rng.randint(0, 255)]
    if hdr == "ch":
        ht, hst = g_hthst(rng)
        return [rng.choice(REF_COMMON_NH), rz(4), ht, hst, rng.randint(0, 1), rng.randint(0, 1), rng.randint(0, 63),
                rng.choice((0, 128)) | (0 if reserved_zero else rng.randint(0, 127)), g16(rng), rng.randint(0, 255)]
    if hdr == "ga":
        return g_addr(rng)
    if hdr == "lpv":
        return g_lpv(rng)
    if hdr == "spv":
        return g_spv(rng)
    if hdr == "gbc":
        return [g16(rng), rz(16)] + g_lpv(rng) + [pick(rng, B32S, -(1 << 31), (1 << 31) - 1),
                                                  pick(rng, B32S, -(1 << 31), (1 << 31) - 1), g16(rng), g16(rng), g16(rng), rz(16)]
    if hdr == "tsb":
        return [g16(rng), rz(16)] + g_lpv(rng)
    if hdr in ("guc", "lsr"):
        return [g16(rng), rz(16)] + g_lpv(rng) + g_spv(rng)
    if hdr == "lsq":
        return [g16(rng), rz(16)] + g_lpv(rng) + g_addr(rng)
    if hdr in ("btpa", "btpb"):
        return [g16(rng), g16(rng)]
    raise Infra("hdr " + hdr)


# (index into the field tuple, width, signed, enumerated values or None) of every sweepable field
def sweep_fields(hdr):
    lp = lambda o: [(o + 1, 5, 0, STS), (o + 0, 1, 0, None), (o + 6, 1, 0, None), (o + 7, 15, 1, None), (o + 8, 16, 0, None)]
    if hdr == "bh":
        return [(0, 4, 0, None), (1, 4, 0, list(REF_BASIC_NH)), (2, 8, 0, None), (3, 6, 0, None), (4, 2, 0, None), (5, 8, 0, None)]
    if hdr == "ch":
        return [(0, 4, 0, list(REF_COMMON_NH)), (1, 4, 0, None), (6, 6, 0, None), (7, 8, 0, None), (8, 16, 0, None), (9, 8, 0, None),
                (4, 1, 0, None), (5, 1, 0, None)]
    if hdr == "ga":
        return [(0, 1, 0, None), (1, 5, 0, STS)]
    if hdr == "lpv":
        return lp(0)
    if hdr == "spv":
        return [(1, 5, 0, STS)]
    if hdr == "gbc":
        return [(0, 16, 0, None), (1, 16, 0, None), (13, 16, 0, None), (14, 16, 0, None), (15, 16, 0, None), (16, 16, 0, None)] + lp(2)
    if hdr == "tsb":
        return [(0, 16, 0, None), (1, 16, 0, None)]
    if hdr in ("guc", "lsr", "lsq"):
        return [(0, 16, 0, None), (1, 16, 0, None), (12, 5, 0, STS)]
    if hdr in ("btpa", "btpb"):
        return [(0, 16, 0, None), (1, 16, 0, None)]
    raise Infra("hdr " + hdr)


# wide (32/48-bit) fields: (index, boundary list)
def wide_fields(hdr):
    lp = lambda o: [(o + 2, B48U), (o + 3, B32U), (o + 4, B32S), (o + 5, B32S)]
    return {"ga": [(2, B48U)], "lpv": lp(0), "spv": lp(0), "gbc": lp(2) + [(11, B32S), (12, B32S)], "tsb": lp(2),
            "guc": lp(2) + lp(11), "lsr": lp(2) + lp(11), "lsq": lp(2) + [(13, B48U)]}.get(hdr, [])


def field_values(ctx, w, signed, enum_vals):
    if enum_vals is not None:
        return list(enum_vals)
    lo, hi = (-(1 << (w - 1)), (1 << (w - 1)) - 1) if signed else (0, (1 << w) - 1)
    if w <= 8 or ctx.thorough:
        return list(range(lo, hi + 1))
    vals = set(bvals(w, signed))
    while len(vals) < 1200:
        vals.add(ctx.rng.randint(lo, hi))
    return sorted(vals)


HDRS = ["bh", "ch", "ga", "lpv", "spv", "gbc", "tsb", "guc", "lsr", "lsq", "btpa", "btpb"]
HDR_LEN = {h: ref_bits(REF_LAYOUT[h]) // 8 for h in HDRS}


def out_of_width(hdr, rng):
    """field tuple with ONE non-negative field pushed out of its width / a signed field out of range (what the
    code does then - spill into the neighbour, wrap, OverflowError - is model-vs-code correspondence only)"""
    t = gen_wf(hdr, rng, reserved_zero=rng.random() < 0.5)
    lay = [f for f in REF_LAYOUT[hdr]]
    # positions in t of non-enum numeric fields, with their layout entry
    cands = {"bh": [(0, 4, 0), (2, 8, 0), (3, 6, 0), (5, 8, 0)],
             "ch": [(1, 4, 0), (6, 6, 0), (7, 8, 0), (8, 16, 0), (9, 8, 0)],
             "lpv": [(3, 32, 0), (4, 32, 1), (5, 32, 1), (7, 15, 1), (8, 16, 0)],
             "spv": [(3, 32, 0), (4, 32, 1), (5, 32, 1)],
             "gbc": [(0, 16, 0), (1, 16, 0), (6, 32, 1), (9, 15, 1), (10, 16, 0), (11, 32, 1), (12, 32, 1), (13, 16, 0),
                     (14, 16, 0), (15, 16, 0), (16, 16, 0)],
             "tsb": [(0, 16, 0), (1, 16, 0), (9, 15, 1)],
             "guc": [(0, 16, 0), (1, 16, 0), (15, 32, 1), (16, 32, 1)], "lsr": [(0, 16, 0), (1, 16, 0), (15, 32, 1)],
             "lsq": [(0, 16, 0), (1, 16, 0)], "btpa": [(0, 16, 0), (1, 16, 0)], "btpb": [(0, 16, 0), (1, 16, 0)]}.get(hdr)
    del lay
    if not cands:
        return None
    i, w, s = rng.choice(cands)
    if s:
        half = 1 << (w - 1)
        t[i] = rng.choice([half, half + 1, -half - 1, 2 * half, 2 * half - 1, 2 * half + 1, -2 * half, 3 * half + 5,
                           rng.randint(half, 4 * half), -rng.randint(half + 1, 4 * half)])
    else:
        full = 1 << w
        t[i] = rng.choice([full, full + 1, 2 * full - 1, 2 * full, full + rng.randint(0, 3 * full)])
    return t


# =====================================================================================================
# CODEC CHECKS
# =====================================================================================================
class Batch:
    """collects (stream, input, real output, model line) and resolves the model lines in one driver call"""

    def __init__(self, ctx):
        self.ctx, self.items = ctx, []

    def add(self, stream, inp, real, line):
        self.items.append((stream, inp, out_s(real), line))
        self.total = getattr(self, "total", 0) + 1
        if len(self.items) >= 250_000:   # bound memory in the thorough tier (one driver start per chunk)
            self.flush()

    def flush(self):
        ctx = self.ctx
        if ctx.model_ok and self.items:
            outs = ctx.model("Wire", [it[3] for it in self.items])
            for (stream, inp, real, line), mo in zip(self.items, outs):
                if mo != real:
                    ctx.mismatch(stream, {"input": inp, "line": line[:300]}, real, mo)
        self.items = []


def judge_enc(ctx, hdr, t, real):
    """oracle on an encoder result for a conformant tuple: octets must be the reference packing"""
    want = hx(ref_pack(REF_LAYOUT[hdr], to_ref(hdr, t)))
    if real != want:
        ctx.violation(f"{hdr} encoder: fields {t} -> {real}, standard layout prescribes {want}",
                      {"kind": "enc", "hdr": hdr, "fields": list(t)}, classify_codec(hdr, t))
        return False
    return True


def judge_dec(ctx, hdr, t, wire: bytes, real):
    """oracle on a decoder result for conformant wire octets `wire` = reference packing of `t`"""
    if real != list(t):
        ctx.violation(f"{hdr} decoder: octets {wire.hex()} carry {t}, decoder returned {real}",
                      {"kind": "dec", "hdr": hdr, "fields": list(t)}, classify_codec(hdr, t))
        return False
    return True


def classify_codec(hdr, t):
    return None   # no codec deviation is a *known* (unrepaired) finding; all are fixed


def check_tuple(ctx, batch, hdr, t, tag):
    """one field tuple through encoder (+oracle if conformant), decoder on the reference octets (+oracle), model"""
    op = MODEL_OP.get(hdr, hdr)
    real = real_enc(hdr, t)
    ctx.evals()
    batch.add(f"{hdr}.enc", list(t), real, f"{op}.enc " + " ".join(str(v) for v in t))
    conf = conformant(hdr, t)
    if conf:
        judge_enc(ctx, hdr, t, real)
        wire = ref_pack(REF_LAYOUT[hdr], to_ref(hdr, t))
        rd = real_dec(hdr, wire)
        ctx.evals()
        judge_dec(ctx, hdr, t, wire, rd)
        batch.add(f"{hdr}.dec", wire.hex(), rd, f"{op}.dec {hx(wire)}")
        ctx.cover(f"{hdr}:{tag}:conformant")
    else:
        ctx.cover(f"{hdr}:{tag}:nonconformant:" + ("error" if real.endswith("Error") else "bytes"))
    if isinstance(real, str) and real.endswith("Error"):
        ctx.cover("enc_error:" + real)


def check_sweeps(ctx, batch):
    rng = ctx.rng
    for hdr in HDRS:
        for (i, w, s, ev) in sweep_fields(hdr):
            vals = field_values(ctx, w, s, ev)
            for v in vals:
                t = gen_wf(hdr, rng)
                t[i] = v
                if hdr == "ch" and i == 7:
                    pass  # flags octet sweep: values with reserved bits are non-conformant -> correspondence only
                check_tuple(ctx, batch, hdr, t, "sweep")
                if w <= 6 or v % 257 == 0:
                    ctx.nontrivial((hdr, i, v))
            ctx.cover(f"sweep:{hdr}[{i}]:{'all' if (w <= 8 or ctx.thorough or ev is not None) else 'sampled'}", len(vals))
        for (i, bs) in wide_fields(hdr):
            for v in bs:
                t = gen_wf(hdr, rng)
                t[i] = v
                check_tuple(ctx, batch, hdr, t, "boundary")
                ctx.nontrivial((hdr, i, v))
            ctx.cover(f"boundary:{hdr}[{i}]", len(bs))
    # all HT x HST code points (valid) through the common header
    for ht in REF_HT:
        for hst in REF_HST[ht]:
            for nh in REF_COMMON_NH:
                t = gen_wf("ch", rng)
                t[0], t[2], t[3] = nh, ht, hst
                check_tuple(ctx, batch, "ch", t, "hthst")
    # all traffic classes (256 octets) both ways
    for tc in range(256):
        scf, co, tid = tc >> 7, (tc >> 6) & 1, tc & 63
        t = gen_wf("ch", rng)
        t[4], t[5], t[6] = scf, co, tid
        check_tuple(ctx, batch, "ch", t, "tc")
        real = TrafficClass(scf=bool(scf), channel_offload=bool(co), tc_id=tid).encode_to_int()
        ctx.evals()
        if real != tc:
            ctx.violation(f"TrafficClass({scf},{co},{tid}) encodes to {real}, standard: {tc}", {"kind": "tc", "tc": tc})
        d = TrafficClass.decode_from_int(tc)
        if (int(d.scf), int(d.channel_offload), d.tc_id) != (scf, co, tid):
            ctx.violation(f"TrafficClass octet {tc} decodes to {d}", {"kind": "tc", "tc": tc})
        batch.add("tc.enc", tc, str(real), f"tc.enc {scf} {co} {tid}")
        batch.add("tc.dec", tc, [int(d.scf), int(d.channel_offload), d.tc_id], f"tc.dec {tc}")
    ctx.cover("traffic_classes_all_256")
    # all GN address M x ST with boundary MIDs
    for m in (0, 1):
        for st in STS:
            for mid in (0, 1, (1 << 48) - 1, 0x0200_0000_0001, rng.randint(0, (1 << 48) - 1)):
                check_tuple(ctx, batch, "ga", [m, st, mid], "addr")


def check_random(ctx, batch):
    rng = ctx.rng
    n = ctx.scale(500, 6000)
    for hdr in HDRS:
        for _ in range(n):
            t = gen_wf(hdr, rng, reserved_zero=rng.random() < 0.7)
            check_tuple(ctx, batch, hdr, t, "random")
            ctx.nontrivial((hdr, tuple(t)))
        for _ in range(n // 2):
            t = out_of_width(hdr, rng)
            if t is not None:
                check_tuple(ctx, batch, hdr, t, "outofwidth")


def check_decoders(ctx, batch):
    """decoder streams on raw octets: random (mostly non-conformant: reserved codes, reserved bits), every HT x HST
    nibble pair, every NH nibble, every ST code, short and over-long inputs (error stream)"""
    rng = ctx.rng
    n = ctx.scale(400, 5000)

    def one(hdr, data, tag):
        rd = real_dec(hdr, data)
        ctx.evals()
        batch.add(f"{hdr}.dec", data.hex(), rd, f"{MODEL_OP.get(hdr, hdr)}.dec {hx(data)}")
        ctx.cover(f"dec:{hdr}:{tag}:" + (rd if isinstance(rd, str) else "ok"))
        if not isinstance(rd, str):
            # whatever the decoder accepts must be what the reference decoder reads, for the non-reserved fields
            L = HDR_LEN[hdr]
            if len(data) >= L and (hdr != "spv" or len(data) == L):   # ShortPositionVector.decode reads the WHOLE input
                bad = decraw_diff(hdr, data[:L], rd)
                if bad:
                    ctx.violation(f"{hdr} decoder on {data[:L].hex()}: field {bad[0][0]} is {bad[0][1]} on the wire, decoder "
                                  f"returned {bad[0][2]}", {"kind": "decraw", "hdr": hdr, "hex": data.hex()})
        return rd

    for hdr in HDRS:
        L = HDR_LEN[hdr]
        for _ in range(n):
            one(hdr, bytes(rng.getrandbits(8) for _ in range(L)), "random")
        for k in sorted({0, 1, L - 1, L // 2, max(0, L - 2)}):
            one(hdr, bytes(rng.getrandbits(8) for _ in range(k)), "short")
        if hdr not in ("spv",):
            one(hdr, bytes(rng.getrandbits(8) for _ in range(L + 5)), "long")
        else:
            one(hdr, b"\x00" * 3 + bytes(rng.getrandbits(8) for _ in range(L)), "long-leading-zero")
            one(hdr, b"\x01" + bytes(rng.getrandbits(8) for _ in range(L)), "long")
    # every HT/HST octet x every NH nibble (incl. reserved codes -> ValueError) in the common header
    for b0 in (range(256) if ctx.thorough else [(nh << 4) | rng.randint(0, 15) for nh in range(16)]):
        for b1 in range(256):
            one("ch", bytes([b0, b1]) + bytes(rng.getrandbits(8) for _ in range(6)), "nibbles")
    for nh in range(16):
        for hi in range(16):
            one("bh", bytes([(hi << 4) | nh, rng.getrandbits(8), rng.getrandbits(8), rng.getrandbits(8)]), "nibbles")
    for b0 in range(256):   # M, ST (all 32 codes), 2 reserved bits
        one("ga", bytes([b0]) + bytes(rng.getrandbits(8) for _ in range(7)), "st-codes")
    ctx.cover("dec:all-ht-hst-nibbles")


def check_spec_twin(ctx, batch):
    """the Lean Spec (about which the theorems speak) and the Python reference codec (the run-time oracle) agree"""
    if not ctx.model_ok:
        return
    rng = ctx.rng
    lines, want = [], []
    for hdr in HDRS:
        for _ in range(ctx.scale(40, 400)):
            t = gen_wf(hdr, rng, reserved_zero=False)
            r = to_ref(hdr, t)
            if hdr == "ga":
                r[2] = rng.randint(0, 1023)
            b = ref_pack(REF_LAYOUT[hdr], r)
            lines.append(f"spec.pack {LEAN_LAYOUT[hdr]} " + " ".join(str(v) for v in r))
            want.append(b.hex())
            lines.append(f"spec.unpack {LEAN_LAYOUT[hdr]} {b.hex()}")
            want.append(" ".join(str(v) for v in ref_unpack(REF_LAYOUT[hdr], b)))
            if ref_unpack(REF_LAYOUT[hdr], b) != r:
                raise Infra(f"reference codec does not round-trip {hdr} {r}")
    for w, ln in zip(want, lines):
        ctx.evals()
        batch.add("spec-twin", ln[:200], w, ln)
    ctx.cover("spec_twin_cases", len(lines))


# =====================================================================================================
# PACKETS
# =====================================================================================================
class _NoTimer:
    def __init__(self, *a, **k):
        self.daemon = True

    def start(self):
        pass

    def cancel(self):
        pass


NOW_MS = 1_700_000_000_000
CLOCK = None     # the installed realstack.VClock (set by env())


class env:
    """virtual clock at NOW_MS + router timers that never fire (scenarios that need timers install VTimers themselves)"""

    def __enter__(self):
        global CLOCK
        self.c = rs.VClock(NOW_MS)
        self.c.install()
        CLOCK = self.c
        self.old = router_mod.Timer
        router_mod.Timer = _NoTimer
        return self.c

    def __exit__(self, *a):
        global CLOCK
        router_mod.Timer = self.old
        self.c.uninstall()
        CLOCK = None


class vtimers:
    """router_mod.Timer -> virtual timers on the installed clock (ether.VTimers); the clock is put back afterwards so
    that position-vector timestamps of later cases stay congruent with it"""

    def __enter__(self):
        import ether
        self.vt = ether.VTimers(CLOCK)
        self.old = router_mod.Timer
        router_mod.Timer = self.vt.make_timer_class()
        return self.vt

    def __exit__(self, *a):
        router_mod.Timer = self.old
        CLOCK.ms = NOW_MS
UNITS = (50, 1000, 10000, 100000)
REPRESENTABLE = sorted({m * u for u in UNITS for m in range(64)})


def greatest_representable(ms):
    import bisect
    return REPRESENTABLE[bisect.bisect_right(REPRESENTABLE, ms) - 1]


def now_tst():
    return TST.set_in_normal_timestamp_milliseconds(NOW_MS).msec


def mib5(mibp):
    """[version, mobile, default hop limit, default lifetime s, default traffic class octet] (older cases: 4 entries)"""
    return list(mibp) + [0] * (5 - len(mibp))


def mk_mib(mibp, addr_t3, **kw):
    version, mobile, dhl, dlife, dtc = mib5(mibp)
    return MIB(itsGnLocalGnAddr=mk_addr(addr_t3), itsGnProtocolVersion=version, itsGnIsMobile=GnIsMobile(mobile),
               itsGnDefaultHopLimit=dhl, itsGnDefaultPacketLifetime=dlife, itsGnDefaultTrafficClass=dtc,
               itsGnMaxGeoAreaSize=10 ** 9, **kw)


def mk_router(mibp, ego, **kw):
    r = router_mod.Router(mk_mib(mibp, ego[0:3], **kw))
    ll = rs.CaptureLL()
    r.link_layer = ll
    inds = []
    r.register_indication_callback(inds.append)
    r.ego_position_vector = mk_lpv(ego)
    return r, ll, inds


KIND_HT = {"shb": (5, 0), "gbc": (4, None), "gac": (3, None), "guc": (2, 0)}
EXT_OCTETS = {"shb": 28, "gbc": 44, "gac": 44, "guc": 48}      # extended header octets behind basic (4) + common (8) header


def emit(case):
    """originate one packet on a real Router (optionally through the BTP router); returns the octets sent"""
    kind, mibp, ego = case["kind"], case["mib"], case["ego"]
    r, ll, _ = mk_router(mibp, ego)
    r.sequence_number = case.get("sn_prev", 0)
    with rs.quiet():
        if kind == "beacon":
            r.gn_data_request_beacon()
        elif kind == "lsq":
            if case.get("retrans"):
                # LS retransmit timer path (Router._ls_retransmit -> _send_ls_request_packet): every expiry sends again
                with vtimers() as vt:
                    r.gn_ls_request(mk_addr(case["sought"]))
                    for _ in range(case["retrans"]):
                        vt.advance(r.mib.itsGnLocationServiceRetransmitTimer)
                    return ll.take()
            r.gn_ls_request(mk_addr(case["sought"]))
        elif kind == "lsr":
            # a requester asks for r's address; r answers
            q, qll, _ = mk_router(case["peer_mib"], case["peer"])
            q._send_ls_request_packet(r.mib.itsGnLocalGnAddr)
            r.gn_data_indicate(qll.take()[0])
        else:
            rq = case["req"]
            ht, hst = KIND_HT[kind]
            hst = rq["hst"] if hst is None else hst
            ptt = PacketTransportType(header_type=HeaderType(ht), header_subtype=mk_hst(ht, hst))
            tc = TrafficClass(scf=bool(rq["tc"][0]), channel_offload=bool(rq["tc"][1]), tc_id=rq["tc"][2])
            life = None if rq["life_ms"] is None else rq["life_ms"] / 1000.0
            area = Area(latitude=rq["area"][0], longitude=rq["area"][1], a=rq["area"][2], b=rq["area"][3], angle=rq["area"][4])
            payload = bytes.fromhex(rq["payload"])
            dest = None
            if kind == "guc":
                peer = case["peer"]
                if not case.get("via_ls"):
                    r.location_table.new_shb_packet(mk_lpv(peer), b"")
                dest = mk_addr(peer[0:3])
            if rq["btp"] is not None and (kind != "guc" or (rq.get("guc_btp") and not case.get("via_ls"))):
                b = BTPRouter(r)
                decl = rq.get("decl")
                kw = {} if dest is None else {"gn_destination_address": dest}
                b.btp_data_request(BTPDataRequest(
                    btp_type=CommonNH.BTP_A if rq["btp"] == "A" else CommonNH.BTP_B, source_port=rq["p2"],
                    destination_port=rq["p1"], destination_port_info=rq["p2"], gn_packet_transport_type=ptt, gn_area=area,
                    gn_max_hop_limit=rq["mhl"], gn_max_packet_lifetime=life, traffic_class=tc, data=payload,
                    length=len(payload) if decl is None else decl, **kw))
            else:
                data = payload
                nh = CommonNH(rq["nh"])
                if rq["btp"] is not None:   # GUC entering at the GN service access point: BTP header by hand
                    hdr = (BTPAHeader(destination_port=rq["p1"], source_port=rq["p2"]) if rq["btp"] == "A"
                           else BTPBHeader(destination_port=rq["p1"], destination_port_info=rq["p2"]))
                    data = hdr.encode() + payload
                    nh = CommonNH.BTP_A if rq["btp"] == "A" else CommonNH.BTP_B
                r.gn_data_request(GNDataRequest(upper_protocol_entity=nh, packet_transport_type=ptt, traffic_class=tc,
                                                data=data, length=len(data), area=area, max_hop_limit=rq["mhl"],
                                                max_packet_lifetime=life, destination=dest))
                if kind == "guc" and case.get("via_ls"):
                    # destination unknown: r sent an LS request and buffered the request; the destination answers; on the LS
                    # reply r releases the buffered request as a GUC packet (send site of gn_data_request_guc via the LS path)
                    first = ll.take()
                    q, qll, _ = mk_router(case["peer_mib"], case["peer"])
                    if len(first) == 1:
                        q.gn_data_indicate(first[0])
                        for rep in qll.take():
                            r.gn_data_indicate(rep)
                    return first + ll.take()
    return ll.take()


def req_nh(rq):
    return {"A": 1, "B": 2}.get(rq["btp"], rq.get("nh", 0))


def req_data(rq):
    """octets handed to GeoNetworking: BTP header (reference packing) + payload"""
    payload = bytes.fromhex(rq["payload"])
    if rq["btp"] == "A":
        return ref_pack(R_BTPA, [rq["p1"], rq["p2"]]) + payload
    if rq["btp"] == "B":
        return ref_pack(R_BTPB, [rq["p1"], rq["p2"]]) + payload
    return payload


def spec_requested_hops(max_hop_limit):
    """INTERFACE CONVENTION (property text of C20; Lean: LTSpec.requestedHops): GNDataRequest.max_hop_limit is a plain int
    (dataclass default 1, from_dict default 0) with no value for "not specified"; 0 and 1 stand for it"""
    return max_hop_limit if max_hop_limit > 1 else None


def spec_hop_limit(requested, mib_default):
    """EN 302 636-4-1 10.3.x source operations (Lean: LTSpec.hopLimit): MHL = maximum hop limit of the GN-DATA.request if
    specified, otherwise itsGnDefaultHopLimit; RHL = MHL"""
    return mib_default if requested is None else requested


def life_ms_eff(rq):
    return None if rq["life_ms"] is None else int(rq["life_ms"] / 1000.0 * 1000)


def expected(case, lt_octet):
    """the packet the standard prescribes (EN 302 636-4-1 10.3: field settings per packet type); the LT octet is
    judged separately by value"""
    kind, (version, mobile, dhl, dlife, dtc), ego = case["kind"], mib5(case["mib"]), case["ego"]
    sn = (case.get("sn_prev", 0) + 1) % 65535
    lt_m, lt_b = lt_octet >> 2, lt_octet & 3
    dtc3 = (dtc >> 7, (dtc >> 6) & 1, dtc & 63)    # TC of beacon / LS packets: itsGnDefaultTrafficClass
    if kind == "beacon":
        nh, ht, hst, tc, pl, mhl, data = 0, 1, 0, dtc3, 0, 1, b""
        ext = ref_pack(R_LPV, lpv_ref(ego))
    elif kind in ("lsq", "lsr"):
        nh, ht, hst, tc, pl, mhl, data = 0, 6, 0 if kind == "lsq" else 1, dtc3, 0, dhl, b""
        if kind == "lsq":
            ext = ref_pack(R_LSQ, [sn, 0] + lpv_ref(ego) + ga_ref(case["sought"]))
        else:
            ext = ref_pack(R_GUC, [sn, 0] + lpv_ref(ego) + spv_ref(case["peer"][0:6]))
    else:
        rq = case["req"]
        data = req_data(rq)
        nh, tc, pl = req_nh(rq), tuple(rq["tc"]), len(data)
        ht, hst = KIND_HT[kind]
        hst = rq["hst"] if hst is None else hst
        if kind == "shb":
            mhl = 1
            ext = ref_pack(R_SHB, lpv_ref(ego) + [0])
        else:
            mhl = spec_hop_limit(spec_requested_hops(rq["mhl"]), dhl)
            if kind in ("gbc", "gac"):
                ext = ref_pack(R_GBC, [sn, 0] + lpv_ref(ego) + list(rq["area"]) + [0])
            else:
                ext = ref_pack(R_GUC, [sn, 0] + lpv_ref(ego) + spv_ref(case["peer"][0:6]))
    basic = ref_pack(R_BASIC, [version, 1, 0, lt_m, lt_b, mhl])
    common = ref_pack(R_COMMON, [nh, 0, ht, hst, tc[0], tc[1], tc[2], mobile, 0, pl, mhl, 0])
    return basic + common + ext + data


def want_lifetime_ms(case):
    if case["kind"] in ("shb", "gbc", "gac", "guc") and case["req"]["life_ms"] is not None:
        return life_ms_eff(case["req"])
    return mib5(case["mib"])[3] * 1000


def judge_packet(ctx, case, sent, report=True):
    """oracle for one originated packet. returns list of (what, finding_id)"""
    out = []
    if len(sent) != 1:
        out.append((f"{case['kind']}: {len(sent)} packets on the link layer, expected 1", None))
    else:
        pkt = sent[0]
        if len(pkt) < 12:
            out.append((f"{case['kind']}: packet of {len(pkt)} octets", None))
        else:
            want_ms = want_lifetime_ms(case)
            lt_ms = (pkt[2] >> 2) * UNITS[pkt[2] & 3]
            if want_ms < 1_000_000 and lt_ms != greatest_representable(want_ms):
                out.append((f"{case['kind']}: LT octet {pkt[2]:#x} = {lt_ms} ms for {want_ms} ms", None))
            exp = expected(case, pkt[2])
            pl_bad = False
            if case["kind"] in EXT_OCTETS:
                # clause "the payload-length field equals the number of payload octets", read off the emitted packet itself
                hdr_len = 12 + EXT_OCTETS[case["kind"]]
                pl = int.from_bytes(pkt[8:10], "big")
                if pl != len(pkt) - hdr_len:
                    pl_bad = True
                    decl = case["req"].get("decl")
                    out.append((f"{case['kind']}: PL field = {pl} but {len(pkt) - hdr_len} payload octets are emitted behind the "
                                f"{hdr_len} header octets" + ("" if decl is None else f" (BTP-Data.request declares length {decl} for "
                                f"{len(bytes.fromhex(case['req']['payload']))} octets)") + f"; wire {pkt[:16].hex()}...", None))
            if pkt != exp:
                if len(pkt) != len(exp):
                    out.append((f"{case['kind']}: {len(pkt)} octets on the wire, standard prescribes {len(exp)}: {pkt.hex()} vs {exp.hex()}", None))
                else:
                    diffs = {i for i in range(len(pkt)) if pkt[i] != exp[i]}
                    version, mobile = case["mib"][0], case["mib"][1]
                    if case["kind"] in ("beacon", "lsq", "lsr") and 6 in diffs and pkt[6] == 0 and mib5(case["mib"])[4] != 0:
                        pass  # TC 0 instead of itsGnDefaultTrafficClass: plain violation (finding C02-F5, fixed)
                    if 0 in diffs and version != 1 and pkt[0] >> 4 == 1 and (pkt[0] & 15) == (exp[0] & 15):
                        diffs.discard(0)
                        out.append((f"{case['kind']}: version nibble 1 on the wire, itsGnProtocolVersion = {version}", "C02-KF2"))
                    if 7 in diffs and case["kind"] == "beacon" and mobile == 1 and pkt[7] == 0x01:
                        diffs.discard(7)
                        out.append(("beacon: flags octet 0x01 on the wire, standard prescribes 0x80 (itsGnIsMobile in bit 0 = MSB)", "C02-KF1"))
                    if pl_bad:
                        diffs -= {8, 9}
                    if diffs:
                        i = min(diffs)
                        out.append((f"{case['kind']}: octet {i} ({where(i, case)}) is {pkt[i]:#04x}, standard prescribes {exp[i]:#04x}; "
                                    f"wire {pkt.hex()} expected {exp.hex()}", None))
    if report:
        for what, fid in out:
            ctx.violation(what, {"kind": "pkt", "case": case}, fid)
    return out


def where(i, case):
    if i < 4:
        return "basic header"
    if i < 12:
        return ["NH/reserved", "HT/HST", "TC", "flags", "PL", "PL", "MHL", "reserved"][i - 4] + " of common header"
    return "extended header/payload"


def variant():
    capped = 1 if LT().set_value_in_millis(1_000_000).get_value_in_millis() == 0 else 0
    beacon_fixed = 1 if CommonHeader.initialize_beacon(MIB()).flags == 128 else 0
    ver_mib = 1 if BasicHeader.initialize_with_mib_and_rhl(MIB(itsGnProtocolVersion=2), 1).version == 2 else 0
    return [capped, beacon_fixed, ver_mib]


def model_line(case, var):
    kind = case["kind"]
    head = f"pkt {'gbc' if kind == 'gac' else kind} " + " ".join(str(v) for v in var + mib5(case["mib"]))
    ego = " ".join(str(v) for v in case["ego"])
    sn = (case.get("sn_prev", 0) + 1) % 65535
    if kind == "beacon":
        return f"{head} {ego}"
    if kind == "lsq":
        return f"{head} {sn} {ego} " + " ".join(str(v) for v in case["sought"])
    if kind == "lsr":
        return f"{head} {sn} {ego} " + " ".join(str(v) for v in case["peer"][0:6])
    rq = case["req"]
    data = req_data(rq)
    ht, hst = KIND_HT[kind]
    hst = rq["hst"] if hst is None else hst
    life = life_ms_eff(rq)
    rl = [req_nh(rq), ht, hst] + list(rq["tc"]) + [len(data), rq["mhl"], -1 if life is None else life] + list(rq["area"])
    rs_ = " ".join(str(v) for v in rl)
    if kind == "shb":
        return f"{head} {rs_} {ego} {hx(data)}"
    if kind in ("gbc", "gac"):
        return f"{head} {rs_} {sn} {ego} {hx(data)}"
    return f"{head} {rs_} {sn} {ego} " + " ".join(str(v) for v in case["peer"][0:6]) + f" {hx(data)}"


def g_ego(rng, tst=None):
    e = g_lpv(rng)
    e[0] = 0
    if tst is not None:
        e[3] = tst
    return e


def g_mib(rng, plain=False):
    if plain:
        return [1, rng.randint(0, 1), rng.choice([1, 2, 10, 255]), rng.choice([1, 60, 600]), 0]
    return [rng.choice([1, 1, 1, 0, 2, 15]), rng.randint(0, 1), rng.choice([1, 2, 10, 128, 255]), rng.choice([1, 5, 60, 63, 600]),
            rng.choice([0, 0, 1, 63, 64, 128, 255, rng.randint(0, 255)])]


def g_decl(rng, n):
    """DECLARED length of a BTP-Data.request (`BTPDataRequest.length`) for n payload octets: consistent, the dataclass /
    from_dict default 0, off by one, the length including the BTP header, stale (a previous longer / shorter message), 16-bit
    extremes.  The property's PL is the number of octets EMITTED: whatever is declared must not reach the wire"""
    return rng.choice([None, None, 0, 0, max(0, n - 1), n + 1, n + 4, 300, 65535, 65531, rng.randint(0, 2000)])


def g_req(rng, kind):
    btp = rng.choice(["A", "B", "B", None])
    n = rng.choice([0, 1, 2, 7, 100, 300, rng.randint(0, 1200)])
    return {"btp": btp, "decl": None if btp is None else g_decl(rng, n), "guc_btp": rng.random() < 0.5, "nh": rng.choice(REF_COMMON_NH), "p1": g16(rng), "p2": g16(rng),
            "payload": bytes(rng.getrandbits(8) for _ in range(n)).hex(),
            "hst": rng.randint(0, 2) if kind in ("gbc", "gac") else 0,
            "tc": [0, rng.randint(0, 1), rng.randint(0, 63)],   # SCF 0: with no neighbour the code buffers (not implemented) instead of sending
            "mhl": rng.choice([0, 1, 2, 3, 10, 255, rng.randint(0, 255)]),
            "life_ms": rng.choice([None, None, 50, 1000, 3000, 60000, 600000, rng.randint(50, 630) * 1000, rng.randint(1, 63) * 50]),
            "area": [pick(rng, B32S, -(1 << 31), (1 << 31) - 1), pick(rng, B32S, -(1 << 31), (1 << 31) - 1),
                     max(1, g16(rng)), max(1, g16(rng)), g16(rng)]}


def g_case(rng, kind, plain_mib=False):
    case = {"kind": kind, "mib": g_mib(rng, plain_mib), "ego": g_ego(rng), "sn_prev": rng.choice([0, 1, 65533, 65534, 65535, g16(rng)])}
    if kind in ("shb", "gbc", "gac", "guc"):
        case["req"] = g_req(rng, kind)
    if kind in ("guc", "lsr"):
        peer = g_lpv(rng)
        peer[3] = now_tst()
        while peer[2] == case["ego"][2]:
            peer[2] = rng.randint(1, (1 << 48) - 1)
        case["peer"] = peer
        case["peer_mib"] = [1, 1, 10, 60]
    if kind == "lsq":
        case["sought"] = g_addr(rng)
        while case["sought"][2] == case["ego"][2]:
            case["sought"][2] = rng.randint(1, (1 << 48) - 1)
    if kind == "lsr":
        case["ego"][3] = now_tst()
        case["mib"][0] = 1   # the replier must accept the requester's packet (receivers check the version)
    if kind in ("gbc", "gac") and rng.random() < 0.35:
        # source inside its own destination area: the AREA_FORWARDING send site of gn_data_request_gbc
        case["req"]["area"][0], case["req"]["area"][1] = case["ego"][4], case["ego"][5]
        case["inside"] = True
    if kind == "lsq" and rng.random() < 0.2:
        case["retrans"] = rng.randint(1, 3)      # + packets sent from the LS retransmit timer
    if kind == "guc" and rng.random() < 0.25:
        case["via_ls"] = True                    # destination unknown: LS request, reply, buffered request released
        case["ego"][3] = now_tst()
        case["mib"][0] = 1
    return case


KINDS = ["beacon", "shb", "gbc", "gac", "guc", "lsq", "lsr"]


def split_case(case, sent):
    """cases that legitimately put several packets on the link layer -> [(single-packet case, [packet])]"""
    nxt = lambda sn: (sn + 1) % 65535
    if case["kind"] == "lsq" and case.get("retrans"):
        if len(sent) != case["retrans"] + 1:
            return None
        out, sn = [], case.get("sn_prev", 0)
        for p in sent:
            out.append((dict(case, sn_prev=sn, retrans=0), [p]))
            sn = nxt(sn)
        return out
    if case["kind"] == "guc" and case.get("via_ls"):
        if len(sent) != 2:
            return None
        sn = case.get("sn_prev", 0)
        ls = {"kind": "lsq", "mib": case["mib"], "ego": case["ego"], "sn_prev": sn, "sought": case["peer"][0:3]}
        return [(ls, [sent[0]]), (dict(case, sn_prev=nxt(sn), via_ls=False), [sent[1]])]
    return [(case, sent)]


def run_packet_cases(ctx, batch, cases, var, tag):
    for case in cases:
        try:
            sent = emit(case)
        except Exception as e:  # noqa: BLE001  an exception while originating a conformant request is a violation
            ctx.violation(f"{case['kind']}: origination raised {type(e).__name__}: {e}", {"kind": "pkt", "case": case})
            sent = None
        ctx.evals()
        if sent is None:
            continue
        parts = split_case(case, sent)
        if parts is None:
            ctx.violation(f"{case['kind']} ({'LS retransmission' if case.get('retrans') else 'released by LS reply'}): "
                          f"{len(sent)} packets on the link layer", {"kind": "pkt", "case": case})
            continue
        sub = ("retrans" if case.get("retrans") else "via_ls" if case.get("via_ls") else
               "inside" if case.get("inside") else "plain")
        ctx.cover(f"pkt:{case['kind']}:{tag}:{sub}")
        if case.get("req") and case["req"].get("btp") is not None:
            d, n = case["req"].get("decl"), len(case["req"]["payload"]) // 2
            via = case["kind"] != "guc" or (case["req"].get("guc_btp") and not case.get("via_ls"))
            ctx.cover("pkt:btp-declared-length:" + ("gn-sap" if not via else "consistent" if d in (None, n) else
                                                     "default-0" if d == 0 else "smaller" if d < n else "larger"))
        ctx.nontrivial(("pkt", case["kind"], tuple(case["ego"]), tuple(case["mib"]), str(case.get("req")), sub))
        for sc, pk in parts:
            res = judge_packet(ctx, sc, pk, report=False)
            for what, fid in res:
                ctx.violation(what, {"kind": "pkt", "case": case}, fid)    # replay re-runs the whole scenario
            if len(pk) == 1:
                batch.add("pkt." + sc["kind"], sc, pk[0].hex(), model_line(sc, var))
                if sc["kind"] != "beacon":
                    ctx.sample("packet:" + sc["kind"] + ":" + sub, {"case": sc, "wire": pk[0].hex(), "oracle": [w for w, _ in res] or "conforms"}, per_kind=1)


def check_packets(ctx, batch, var):
    rng = ctx.rng
    n = ctx.scale(220, 2500)
    cases = []
    for kind in KINDS:
        for _ in range(n):
            cases.append(g_case(rng, kind))
        # both mobility settings x every origination path, default MIB otherwise (the `mobile flag` clause)
        for mobile in (0, 1):
            c = g_case(rng, kind, plain_mib=True)
            c["mib"][1] = mobile
            cases.append(c)
    # SN sweep and PL sweep through GBC / SHB
    for sn_prev in ([0, 1, 2, 255, 256, 32767, 32768, 65533, 65534, 65535] + [rng.randint(0, 65535) for _ in range(ctx.scale(20, 2000))]):
        c = g_case(rng, rng.choice(["gbc", "gac", "guc", "lsq"]), plain_mib=True)
        c["sn_prev"] = sn_prev
        cases.append(c)
    for plen in ([0, 1, 2, 255, 256, 257, 1000, 1398] + [rng.randint(0, 1400) for _ in range(ctx.scale(20, 600))]):
        c = g_case(rng, rng.choice(["shb", "gbc", "guc"]), plain_mib=True)
        c["req"]["payload"] = bytes(rng.getrandbits(8) for _ in range(plen)).hex()
        cases.append(c)
    # the DECLARED length of the BTP-Data.request against the payload actually given, every kind x BTP-A/B: always
    for kind in ("shb", "gbc", "gac", "guc"):
        for btp in ("A", "B"):
            for plen in (0, 1, 40, rng.randint(2, 900)):
                for decl in (0, plen + 1, max(0, plen - 1), plen + 4, 300, 65535):
                    if decl == plen:
                        continue
                    c = g_case(rng, kind, plain_mib=True)
                    c.pop("via_ls", None)
                    c["req"].update(btp=btp, decl=decl, guc_btp=True, payload=bytes(rng.getrandbits(8) for _ in range(plen)).hex())
                    cases.append(c)
    # every traffic class through SHB (SCF 1 included: SHB sends regardless)
    for tc in range(0, 256, ctx.scale(5, 1)):
        c = g_case(rng, "shb", plain_mib=True)
        c["req"]["tc"] = [tc >> 7, (tc >> 6) & 1, tc & 63]
        cases.append(c)
    # every default traffic class octet through beacon and LS request (C02-F5)
    for dtc in range(0, 256, ctx.scale(3, 1)):
        for kind in ("beacon", "lsq", "lsr"):
            c = g_case(rng, kind, plain_mib=True)
            c["mib"][4] = dtc
            cases.append(c)
    run_packet_cases(ctx, batch, cases, var, "orig")


# ---- forwarding ---------------------------------------------------------------------------------------
FWD_MODES = {"tsb": ["simple"], "gac": ["simple"], "guc": ["simple"], "lsq": ["simple"], "lsr": ["simple"],
             # GBC: immediate re-broadcast inside the area (SIMPLE), greedy outside the area, buffered by contention-based
             # forwarding and sent from the CBF timer (the MIB default), SCF set with no neighbour (third send site)
             "gbc": ["simple-inside", "outside", "cbf", "cbf", "scf-noneigh"]}


RHL_CLASSES = ["mid"] * 6 + ["0", "1", "2", "max", "max"]
DE_STATES = ["absent"] * 3 + ["nbr-newer", "nbr-newer", "nbr-older", "nbr-equal", "known-not-nbr"]


def tst_newer(a, b):
    """EN 302 636-4-1 annex C.2: timestamp a is newer than b (32-bit wrap-around aware)"""
    return (a > b and a - b <= (1 << 31)) or (b > a and b - a > (1 << 31))


def build_fwd_case(rng, kind, mode=None, rhl_class=None, de_state=None, fwd_ego=None):
    """a conformant packet of `kind` from some source, built with the reference packer, + the forwarder's set-up:
    received RHL in every class (0, 1 = exhausted: nothing may go out; 2; MHL; in between; MHL up to 255), the destination
    of GUC / LS reply absent from, or present in, the forwarder's location table (neighbour with a newer / older / equal
    position vector, or known but not a neighbour)"""
    mode = mode or rng.choice(FWD_MODES[kind])
    tst = now_tst()
    so = g_lpv(rng)
    so[3] = tst
    so[2] = rng.randint(1, (1 << 47))
    # GAC/GBC forwarders consult the source position when PAI is set (the packet may then legitimately not be forwarded)
    so[6] = rng.randint(0, 1) if kind in ("tsb", "guc", "lsq", "lsr") else 0
    mhl = rng.choice([1, 2, 3, 10, 255, 255])
    rc = rhl_class or rng.choice(RHL_CLASSES)
    rhl = {"0": 0, "1": 1, "2": min(2, mhl), "max": mhl}.get(rc)
    if rhl is None:
        rhl = rng.randint(min(2, mhl), mhl)
    payload = bytes(rng.getrandbits(8) for _ in range(rng.choice([0, 4, 9, 60])))
    tc = [0, rng.randint(0, 1), rng.randint(0, 63)]
    mobile = rng.randint(0, 1)
    sn = g16(rng)
    lt = rng.randint(1, 63) << 2 | rng.randint(1, 3)
    nh = rng.choice([1, 2])
    if fwd_ego is None:
        fwd_ego = g_ego(rng, tst)
        fwd_ego[2] = (1 << 47) + rng.randint(1, 1 << 40)
    extra = {}
    if kind == "tsb":
        ht, hst, ext = 5, 1, ref_pack(R_TSB, [sn, 0] + lpv_ref(so))
    elif kind in ("gbc", "gac"):
        ht, hst = (4 if kind == "gbc" else 3), rng.randint(0, 2)
        # area far from the forwarder (GAC must not be delivered locally; GBC then goes the non-area path) or around it
        inside = kind == "gbc" and mode in ("simple-inside", "cbf")
        if mode == "scf-noneigh":
            tc[0] = 1
        if mode == "cbf":
            so[6] = rng.randint(0, 1)   # with PAI the timeout depends on the distance to the sender, without it is TO_CBF_MAX
        if inside:
            alat, alon = fwd_ego[4], fwd_ego[5]
        else:
            alat = 100000000 if fwd_ego[4] < 0 else -100000000
            alon = 100000000 if fwd_ego[5] < 0 else -100000000
        ext = ref_pack(R_GBC, [sn, 0] + lpv_ref(so) + [alat, alon, rng.randint(1, 500), rng.randint(1, 500), g16(rng), 0])
    elif kind in ("guc", "lsr"):
        de = g_spv(rng)
        de[2] = (1 << 47) + (1 << 44) + rng.randint(1, 1 << 40)
        ds = de_state or rng.choice(DE_STATES)
        if ds != "absent":
            # the forwarder's location table knows the destination: PV time stamp within the entry lifetime of the clock
            loct_tst = (tst - rng.randint(0, 5000)) % (1 << 32)
            d = {"nbr-newer": rng.choice([1, 2, 999, 3000, 100000]), "nbr-equal": 0, "nbr-older": -rng.choice([1, 2, 999, 3000]),
                 "known-not-nbr": rng.choice([1, 3000])}[ds]
            de[3] = (loct_tst - d) % (1 << 32)             # DE PV time stamp carried by the packet
            loct = list(de[0:3]) + [loct_tst, pick(rng, B32S, -(1 << 31), (1 << 31) - 1), pick(rng, B32S, -(1 << 31), (1 << 31) - 1),
                                    rng.randint(0, 1), pick(rng, B15S, -(1 << 14), (1 << 14) - 1), g16(rng)]
            extra = {"de_state": ds, "de_loct": loct, "de_nbr": ds != "known-not-nbr"}
        ht, hst = (2, 0) if kind == "guc" else (6, 1)
        if kind == "lsr":
            nh, payload = 0, b""
        ext = ref_pack(R_GUC, [sn, 0] + lpv_ref(so) + spv_ref(de))
    else:  # lsq
        sought = g_addr(rng)
        sought[2] = (1 << 47) + (1 << 45) + rng.randint(1, 1 << 40)
        ht, hst, nh, payload = 6, 0, 0, b""
        ext = ref_pack(R_LSQ, [sn, 0] + lpv_ref(so) + ga_ref(sought))
    basic = ref_pack(R_BASIC, [1, 1, 0, lt >> 2, lt & 3, rhl])
    common = ref_pack(R_COMMON, [nh, 0, ht, hst, tc[0], tc[1], tc[2], mobile, 0, len(payload), mhl, 0])
    case = {"kind": "fwd", "orig": kind, "mode": mode, "pkt": (basic + common + ext + payload).hex(), "fwd_ego": fwd_ego,
            "rhl_class": rc}
    case.update(extra)
    return case


def prime_loct(r, case):
    """the forwarder already knows the destination of the GUC / LS reply: as a neighbour (a single-hop packet was heard
    from it) or as a non-neighbour (a multi-hop packet of it was heard)"""
    if case.get("de_loct"):
        lpv = mk_lpv(case["de_loct"])
        if case.get("de_nbr"):
            r.location_table.new_shb_packet(lpv, b"")
        else:
            r.location_table.new_tsb_packet(TSBExtendedHeader(sn=1, reserved=0, so_pv=lpv), b"")


def forward(case):
    """everything the forwarder puts on the link layer for the received packet, timer paths included"""
    if case.get("mode") == "cbf":
        # MIB default: area forwarding = CBF.  The packet is buffered and transmitted by Router._cbf_timeout when the
        # contention timer (<= itsGnCbfMaxTime) expires
        with vtimers() as vt:
            r, ll, inds = mk_router([1, 1, 10, 60, 0], case["fwd_ego"])
            with rs.quiet():
                r.gn_data_indicate(bytes.fromhex(case["pkt"]))
                vt.advance(r.mib.itsGnCbfMaxTime + 1)
            return ll.take()
    r, ll, inds = mk_router([1, 1, 10, 60, 0], case["fwd_ego"], itsGnAreaForwardingAlgorithm=AreaForwardingAlgorithm.SIMPLE)
    with rs.quiet():
        prime_loct(r, case)
        r.gn_data_indicate(bytes.fromhex(case["pkt"]))
    return ll.take()


def refresh_pv(case):
    """ORACLE (EN 302 636-4-1 10.3.8.3 step 8 + annex C.3): the forwarder of a GUC / LS reply replaces the DE PV of the packet
    by the PV of its location table entry iff the destination is a NEIGHBOUR and the entry's PV is strictly newer (annex
    C.2 order); returns that short PV (6 ints) or None"""
    if not case.get("de_loct") or not case.get("de_nbr"):
        return None
    pkt = bytes.fromhex(case["pkt"])
    de = ref_unpack(R_SPV, pkt[12 + 28:12 + 48])       # m st reserved mid tst lat lon
    loct = case["de_loct"]
    return list(loct[0:6]) if tst_newer(loct[3], de[4]) else None


def want_forward(case):
    """ORACLE: octets a forwarder has to put on the wire for the received conformant packet; None = nothing (hop limit
    exhausted: EN 302 636-4-1 10.3.x forwarder step 'decrement RHL; if RHL = 0 discard' - a packet received with RHL <= 1)"""
    pkt = bytes.fromhex(case["pkt"])
    if pkt[3] <= 1:
        return None
    want = pkt[:3] + bytes([pkt[3] - 1]) + pkt[4:]
    pv = refresh_pv(case)
    if pv is not None:
        want = want[:12 + 28] + ref_pack(R_SPV, spv_ref(pv)) + want[12 + 48:]
    return want


def judge_forward(ctx, case, sent, report=True):
    want = want_forward(case)
    out = []
    tagm = f"forwarded {case['orig']} [{case.get('mode', 'simple')}, rhl {case.get('rhl_class', 'mid')}, de {case.get('de_state', 'absent')}]"
    if want is None:
        if sent:
            out.append(f"{tagm}: received with RHL {bytes.fromhex(case['pkt'])[3]} (hop limit exhausted) but {len(sent)} packet(s) "
                       f"sent: {sent[0].hex()}")
    elif len(sent) != 1:
        # with PAI set the GAC/GBC forwarders may legitimately not forward (C06); the generator sets PAI only for types
        # whose forwarders do not look at it, so exactly one packet is due here
        out.append(f"{tagm}: {len(sent)} packets sent, expected 1")
    elif sent[0] != want:
        i = next((i for i in range(min(len(want), len(sent[0]))) if want[i] != sent[0][i]), -1)
        what = "DE PV (octets 40..59) not refreshed from the neighbour's location table entry / refreshed wrongly" \
            if 40 <= i < 60 else "differs from the received packet beyond RHL-1"
        out.append(f"{tagm}: {what} at octet {i}: {sent[0].hex()} vs {want.hex()}")
    if report:
        for w in out:
            ctx.violation(w, {"kind": "fwd", "case": case})
    return out


def fwd_model_line(case):
    pv = refresh_pv(case)
    if pv is None:
        return f"pkt fwd {case['pkt']}"
    return "pkt fwdr " + " ".join(str(v) for v in pv) + f" {case['pkt']}"


def add_fwd_to_batch(ctx, batch, case, sent):
    """model correspondence for one forwarding case: one packet out -> its octets; nothing out -> `none`"""
    if len(sent) == 1:
        batch.add("pkt.fwd." + case["orig"], case, sent[0].hex(), fwd_model_line(case))
    elif not sent and want_forward(case) is None:
        batch.add("pkt.fwd." + case["orig"], case, "none", fwd_model_line(case))


def check_forwarding(ctx, batch):
    rng = ctx.rng
    for kind in ("tsb", "gbc", "gac", "guc", "lsq", "lsr"):
        cases = [build_fwd_case(rng, kind) for _ in range(ctx.scale(120, 1500))]
        # every received-RHL class and, for GUC / LS reply, every state of the destination in the location table: always
        for rc in ("0", "1", "2", "max"):
            cases.append(build_fwd_case(rng, kind, rhl_class=rc))
        if kind in ("guc", "lsr"):
            for ds in ("nbr-newer", "nbr-older", "nbr-equal", "known-not-nbr"):
                cases.append(build_fwd_case(rng, kind, rhl_class="mid", de_state=ds))
        for case in cases:
            try:
                sent = forward(case)
            except Exception as e:  # noqa: BLE001
                ctx.violation(f"forwarder raised {type(e).__name__}: {e} on a conformant {kind} packet", {"kind": "fwd", "case": case})
                continue
            ctx.evals()
            judge_forward(ctx, case, sent)
            ctx.cover(f"fwd:{kind}:{case['mode']}")
            ctx.cover(f"fwd:rhl:{case['rhl_class']}")
            if kind in ("guc", "lsr"):
                ctx.cover(f"fwd:{kind}:de:{case.get('de_state', 'absent')}:" + ("refresh" if refresh_pv(case) else "keep"))
            ctx.nontrivial(("fwd", case["pkt"]))
            add_fwd_to_batch(ctx, batch, case, sent)
            if len(sent) == 1:
                ctx.sample("forward:" + kind + (":refresh" if refresh_pv(case) else ""),
                           {"received": case["pkt"], "forwarded": sent[0].hex(), "de_loct": case.get("de_loct")}, per_kind=1)


# ---- forwarding of a secured packet -----------------------------------------------------------------------
def secured_forward_scenario():
    """a signed DENM (GBC, basic-header NH = 2) from station 1 reaches a verifying station inside the area (SIMPLE area
    forwarding); returns (received frame, verified plain message, frames the forwarder put on the link layer)"""
    import dataclasses
    import sec_common as sc
    now = sc.its_now_s(CLOCK.ms)
    live = dict(start=now - 1000, duration=("hours", 100))
    p = sc.PKI()
    root = p.root("root", **live)
    aa = p.issue(root, "aa", issue=[sc.perm_all(1)], **live)
    at = p.issue(aa, app=[36, 37], **live)
    with rs.quiet():
        tx = sc.RouterStation(p.backend, 1, [root], [aa], [], own=[at])
        fw = sc.RouterStation(p.backend, 9, [root], [aa], [], lat=415000100, lon=21000100)
        fw.router.mib = dataclasses.replace(fw.router.mib, itsGnAreaForwardingAlgorithm=AreaForwardingAlgorithm.SIMPLE)
        fw.set_position(CLOCK.ms)
        frames = tx.send("denm", b"c02-secured-forward", CLOCK.ms)
        if len(frames) != 1:
            return None
        out = fw.receive(frames[0])
        sent = fw.ll.take()
    conf = out[3]
    plain = bytes(conf.plain_message) if conf is not None and conf.plain_message else b""
    return frames[0], plain, sent


def judge_secured_forward(rx, plain, sent):
    """ORACLE: EN 302 636-4-1 10.3.11.3 (forwarder operations) + 9.6 / TS 103 097: the basic header is outside the signed part
    so that a forwarder updates RHL (and LT) only; the secured message is forwarded as received: octet for octet the
    received packet with RHL - 1.  Returns [(what, finding id)]"""
    if rx[0] & 15 != 2 or rx[3] < 2:
        return None                                    # not the scenario (sender did not secure / hop limit exhausted)
    want = rx[:3] + bytes([rx[3] - 1]) + rx[4:]
    if len(sent) == 1 and sent[0] == want:
        return []
    fid = None
    # precise signature of C02-KF3: exactly the unsecured re-assembly of the verified plain message
    if len(sent) == 1 and plain and sent[0] == bytes([(rx[0] & 0xF0) | 1]) + rx[1:3] + bytes([rx[3] - 1]) + plain:
        fid = "C02-KF3"
        what = (f"forwarded secured GBC: {len(rx)} octets received with basic-header NH = 2, {len(sent[0])} octets forwarded with "
                f"NH = 1: the security envelope (signature, signer, generation time) is stripped - forwarded {sent[0][:12].hex()}..., "
                f"standard prescribes the received packet with RHL-1 {want[:12].hex()}...")
    else:
        what = (f"forwarded secured GBC: {len(sent)} packet(s) sent, expected the received packet with RHL-1; "
                f"first {sent[0].hex() if sent else '-'} vs {want.hex()}")
    return [(what, fid)]


def check_secured_forward(ctx, batch):
    try:
        res = secured_forward_scenario()
    except Exception as e:  # noqa: BLE001  (sec_common belongs to the security builders: a changed helper must not fail C02)
        ctx.note(f"secured forwarding scenario skipped: {type(e).__name__}: {e}")
        ctx.cover("fwd:secured:skipped")
        return
    ctx.evals()
    out = None if res is None else judge_secured_forward(*res)
    if out is None:
        ctx.note("secured forwarding scenario skipped: the sender did not emit one secured packet with RHL >= 2")
        ctx.cover("fwd:secured:skipped")
        return
    rx, plain, sent = res
    for what, fid in out:
        ctx.violation(what, {"kind": "fwd_secured"}, fid)
    kept = 1 if (len(sent) == 1 and sent[0][0] & 15 == 2) else 0
    ctx.extra.setdefault("variant", {})["C02-KF3 secured envelope kept when forwarding"] = bool(kept)
    ctx.cover("fwd:secured:" + ("envelope-kept" if kept else "envelope-stripped"))
    if len(sent) == 1 and plain:
        batch.add("pkt.fwd.secured", {"received": rx.hex()[:80]}, sent[0].hex(), f"pkt fwds {kept} {rx.hex()} {plain.hex()}")
        ctx.sample("forward:secured", {"received": rx.hex(), "forwarded": sent[0].hex()}, per_kind=1)


# ---- the GN-DATA.request built by the BTP router ------------------------------------------------------------
class _GNStub:
    """stands in for the GeoNetworking router below btp.Router: records the GN-DATA.request"""

    def __init__(self):
        self.reqs = []

    def gn_data_request(self, request):
        self.reqs.append(request)

    def register_indication_callback(self, cb):
        pass


def btp_request(case):
    """`btp.Router.btp_data_request` for one BTP-Data.request -> (length, data) of the GN-DATA.request | exception name"""
    ty, sp, dp, dpi, decl, payload = case["type"], case["sp"], case["dp"], case["dpi"], case["decl"], bytes.fromhex(case["payload"])
    gn = _GNStub()
    try:
        b = BTPRouter(gn)
        b.btp_data_request(BTPDataRequest(btp_type=CommonNH(ty), source_port=sp, destination_port=dp, destination_port_info=dpi,
                                          data=payload, length=decl))
    except Exception as e:  # noqa: BLE001
        return type(e).__name__
    if len(gn.reqs) != 1:
        return f"{len(gn.reqs)}-requests"
    return gn.reqs[0].length, bytes(gn.reqs[0].data), gn.reqs[0].upper_protocol_entity.value


def judge_btp_request(case, res):
    """ORACLE (EN 302 636-5-1 clause 7 + the PL clause): the T-SDU handed to GeoNetworking is the 4 BTP header octets
    (BTP-A: destination port, source port; BTP-B: destination port, destination port info) followed by the payload, and the
    length handed over with it is the number of its octets - whatever length the BTP-Data.request declares"""
    if case["type"] not in (1, 2) or not all(0 <= case[k] < 65536 for k in ("sp", "dp", "dpi")):
        return []                       # not a BTP-Data.request the primitive allows (correspondence only)
    payload = bytes.fromhex(case["payload"])
    want = (ref_pack(R_BTPA, [case["dp"], case["sp"]]) if case["type"] == 1 else ref_pack(R_BTPB, [case["dp"], case["dpi"]])) + payload
    if isinstance(res, str):
        return [f"btp_data_request raised / returned {res} for a well-formed BTP-Data.request"]
    ln, data, nh = res
    out = []
    if data != want:
        out.append(f"btp_data_request: T-SDU {data[:12].hex()}.. ({len(data)} octets), standard prescribes {want[:12].hex()}.. ({len(want)})")
    if ln != len(data):
        out.append(f"btp_data_request: GN-DATA.request length = {ln} for {len(data)} octets of data (BTP-Data.request declares "
                   f"length {case['decl']} for {len(payload)} payload octets): the common header PL field will not count the payload emitted")
    if nh != case["type"]:
        out.append(f"btp_data_request: upper protocol entity {nh} for btp_type {case['type']}")
    return out


def check_btp_requests(ctx, batch):
    rng = ctx.rng
    cases = []
    for _ in range(ctx.scale(300, 3000)):
        n = rng.choice([0, 1, 2, 40, rng.randint(0, 600)])
        d = g_decl(rng, n)
        cases.append({"type": rng.choice([1, 2, 2]), "sp": g16(rng), "dp": g16(rng), "dpi": g16(rng), "decl": n if d is None else d,
                      "payload": bytes(rng.getrandbits(8) for _ in range(n)).hex()})
    for ty in (0, 3):                   # not a BTP type -> ValueError
        cases.append({"type": ty, "sp": 1, "dp": 2, "dpi": 3, "decl": 0, "payload": "00"})
    for k in ("sp", "dp", "dpi"):       # out-of-width ports (spill / OverflowError: correspondence only)
        for v in (65536, 70000, 1 << 32):
            c = {"type": rng.choice([1, 2]), "sp": 1, "dp": 2, "dpi": 3, "decl": 0, "payload": "0102"}
            c[k] = v
            cases.append(c)
    for c in cases:
        res = btp_request(c)
        ctx.evals()
        for w in judge_btp_request(c, res):
            ctx.violation(w, {"kind": "btpreq", "case": c})
        n = len(c["payload"]) // 2
        ctx.cover("btpreq:" + (res if isinstance(res, str) else "declared-" + ("consistent" if c["decl"] == n else "default-0" if c["decl"] == 0
                                                                                else "smaller" if c["decl"] < n else "larger")))
        ctx.nontrivial(("btpreq", str(c)))
        real = res if isinstance(res, str) else f"{res[0]} {hx(res[1])}"
        batch.add("btp.req", c, real, f"btp req {c['type']} {c['sp']} {c['dp']} {c['dpi']} {c['decl']} {hx(bytes.fromhex(c['payload']))}")


# ---- several receive threads on ONE router ---------------------------------------------------------------------
# Two link layers / interfaces (or any caller-side concurrency) call Router.gn_data_indicate from different threads.  What a
# thread forwards for ITS packet must not depend on what another thread is doing: an unsecured packet leaves as the
# received packet with RHL-1, a secured one as the received secured packet with RHL-1 (its OWN envelope).  The threads run under
# harness/dsched.py (one at a time, pre-emption before every line of geonet/router.py and at every lock operation); the
# SN-VERIFY service is a stub that accepts the envelopes of the case and hands back their plain message (the envelope is
# opaque to GeoNetworking: C03/C05 judge it).
RX_KINDS = ["tsb", "gbc", "gac", "guc", "lsq", "lsr", "shb"]
RX_FILES = [router_mod.__file__]


def build_rx(rng, kind, secured, fwd_ego, rhl_class=None):
    """one reception: a conformant packet of `kind` (reference packer) and, if `secured`, the opaque secured message the frame
    carries instead of the plain common header ‖ extended header ‖ payload"""
    if kind == "badsec":
        # a secured frame whose verified plain message cannot be processed (shorter than a common header: DecodeError inside
        # process_common_header): nothing is sent, and the reception must leave nothing behind for the NEXT reception of the thread
        lt = rng.randint(1, 63) << 2 | rng.randint(1, 3)
        pkt = (ref_pack(R_BASIC, [1, 1, 0, lt >> 2, lt & 3, rng.randint(2, 10)]) + bytes(rng.getrandbits(8) for _ in range(rng.randint(0, 7)))).hex()
        secured = True
    elif kind == "shb":
        so = g_lpv(rng)
        so[3], so[2] = now_tst(), rng.randint(1, (1 << 47))
        payload = bytes(rng.getrandbits(8) for _ in range(rng.choice([0, 5, 30])))
        lt = rng.randint(1, 63) << 2 | rng.randint(1, 3)
        pkt = (ref_pack(R_BASIC, [1, 1, 0, lt >> 2, lt & 3, 1])
               + ref_pack(R_COMMON, [rng.choice([1, 2]), 0, 5, 0, 0, rng.randint(0, 1), rng.randint(0, 63), rng.randint(0, 1), 0, len(payload), 1, 0])
               + ref_pack(R_SHB, lpv_ref(so) + [0]) + payload).hex()
    else:
        pkt = build_fwd_case(rng, kind, mode="simple-inside" if kind == "gbc" else "simple", rhl_class=rhl_class, de_state="absent",
                             fwd_ego=fwd_ego)["pkt"]
    rx = {"orig": kind, "pkt": pkt, "secured": bool(secured)}
    if secured:
        rx["env"] = (b"\x03\x81\x00" + bytes(rng.getrandbits(8) for _ in range(rng.randint(12, 70)))).hex()
    return rx


def rx_frame(rx):
    """octets on the link: the packet itself, or basic header with NH = 2 (Secured Packet) ‖ secured message"""
    pkt = bytes.fromhex(rx["pkt"])
    if not rx["secured"]:
        return pkt
    return bytes([(pkt[0] & 0xF0) | 2]) + pkt[1:4] + bytes.fromhex(rx["env"])


def rx_want(rx):
    """ORACLE: what the forwarder has to put on the link for this reception - the RECEIVED frame with RHL-1 (EN 302 636-4-1
    10.3.x forwarder operations; a secured message is forwarded as received, the basic header is outside the signed part);
    nothing for SHB (never forwarded) and for a received RHL <= 1"""
    f = rx_frame(rx)
    if rx["orig"] in ("shb", "badsec") or f[3] <= 1:
        return None
    return f[:3] + bytes([f[3] - 1]) + f[4:]


def build_rx_case(rng, kinds=None, secured=None, must_forward=False):
    """must_forward: every reception of a forwardable type has a received RHL >= 2 (something is due on the link)"""
    tst = now_tst()
    fwd_ego = g_ego(rng, tst)
    fwd_ego[2] = (1 << 47) + rng.randint(1, 1 << 40)
    kinds = kinds or [rng.choice(RX_KINDS), rng.choice(RX_KINDS)]
    secured = secured if secured is not None else [rng.random() < 0.5 for _ in kinds]
    rxs = []
    for k, sec in zip(kinds, secured):
        while True:
            rc = rng.choice([None, None, None, "mid", "2", "max", "1"])
            rx = build_rx(rng, k, sec, fwd_ego, rhl_class=rc)
            if not must_forward or k in ("shb", "badsec") or rx_want(rx) is not None:
                break
        rxs.append(rx)
    return {"kind": "rx2", "fwd_ego": fwd_ego, "rx": rxs}


class _StubVerify:
    """SN-VERIFY stand-in: SUCCESS + the plain message for the secured messages of the case, FALSE_SIGNATURE otherwise"""

    def __init__(self, table, note):
        self.table, self.note = table, note

    def verify(self, request):
        msg = bytes(request.message)
        plain = self.table.get(msg)
        if plain is None:
            return SNVERIFYConfirm(report=ReportVerify.FALSE_SIGNATURE, certificate_id=b"", its_aid_length=0, its_aid=b"",
                                   permissions=b"", plain_message=b"")
        self.note(msg)
        return SNVERIFYConfirm(report=ReportVerify.SUCCESS, certificate_id=b"\x01" * 8, its_aid_length=1, its_aid=b"\x24",
                               permissions=b"", plain_message=plain)


class RxRun:
    """the receptions of an rx2 case on ONE real router: serially in the order `serial` (policy None) or one thread per
    reception under the scheduling policy"""

    def __init__(self, case, policy=None, serial=None, max_steps=40000):
        rxs = case["rx"]
        n = len(rxs)
        frames = [rx_frame(rx) for rx in rxs]
        table = {bytes.fromhex(rx["env"]): bytes.fromhex(rx["pkt"])[4:] for rx in rxs if rx["secured"]}
        self.sent = [[] for _ in range(n)]
        self.events, self.pdus = [], []
        self.steps, self.choices, self.abort, self.excs = [], [], None, []
        cur = {"i": None}
        sched = {"s": None}

        def who():
            s = sched["s"]
            if s is None:
                return cur["i"]
            me = s.me()
            return me.tid if me is not None else None

        pending = {}
        with dsched.patched([router_mod, loct_mod], extra={"Timer": _NoTimer}):
            r, _ll, inds = mk_router([1, 1, 10, 60, 0], case["fwd_ego"], itsGnAreaForwardingAlgorithm=AreaForwardingAlgorithm.SIMPLE)
            r.verify_service = _StubVerify(table, lambda msg: pending.__setitem__(who(), msg))
            run = self

            class LL:
                def send(self, packet):
                    run.sent[who()].append(bytes(packet))
            r.link_layer = LL()
            orig_pch = r.process_common_header

            def pch(packet, basic_header):
                i = who()
                msg = pending.pop(i, None)
                if msg is not None:
                    self.events.append(f"E{i}:{hx(msg)}")
                try:
                    return orig_pch(packet, basic_header)
                finally:
                    if msg is not None:
                        self.events.append(f"L{i}")
            r.process_common_header = pch
            self.has_fp = hasattr(r, "_forward_pdu")
            if self.has_fp:
                orig_fp = r._forward_pdu

                def fp(basic_header, common_header, extended_header, payload):
                    i = who()
                    bh = basic_header
                    tail = common_header.encode_to_bytes() + extended_header + payload
                    self.events.append(f"F{i}:{bh.version},{bh.nh.value},{bh.reserved},{bh.lt.multiplier},{bh.lt.base.value},{bh.rhl}:{hx(tail)}")
                    k = len(self.pdus)
                    self.pdus.append(f"{i}:raised")     # the PDU is listed at the position of its F event (the model's order)
                    out = orig_fp(basic_header, common_header, extended_header, payload)
                    self.pdus[k] = f"{i}:{hx(bytes(out))}"
                    return out
                r._forward_pdu = fp

            def body(i):
                def go():
                    r.gn_data_indicate(frames[i])
                return go
            with rs.quiet():
                if policy is None:
                    for i in (serial or range(n)):
                        cur["i"] = i
                        body(i)()
                else:
                    s = dsched.DSched(policy, line_files=RX_FILES, opcode_codes=(), max_steps=max_steps)
                    sched["s"] = s
                    for i in range(n):
                        s.spawn(body(i), name=f"rx{i}")
                    s.run(timeout=30.0)
                    self.steps = s.steps
                    self.choices = [c[0] for c in s.steps]
                    self.abort = s.abort_reason
                    self.nsteps = s.nsteps
                    self.excs = [type(ts.exc).__name__ for ts in s.threads if ts.exc is not None]
        self.case = case

    def judge(self):
        out = []
        if self.abort:
            return [f"run aborted by the scheduler: {self.abort}"]
        for i, rx in enumerate(self.case["rx"]):
            want = rx_want(rx)
            got = self.sent[i]
            tag = f"reception {i} ({'secured' if rx['secured'] else 'unsecured'} {rx['orig']}, RHL {bytes.fromhex(rx['pkt'])[3]})"
            if want is None:
                if got:
                    out.append(f"{tag}: nothing is to be forwarded, {len(got)} packet(s) sent: {got[0].hex()}")
            elif len(got) != 1:
                out.append(f"{tag}: {len(got)} packets sent, expected 1")
            elif got[0] != want:
                other = [j for j, o in enumerate(self.case["rx"]) if j != i and o["secured"] and got[0][4:] == bytes.fromhex(o["env"])]
                out.append(f"{tag}: forwarded {got[0][:8].hex()}.. ({len(got[0])} octets, basic-header NH = {got[0][0] & 15}) is not the "
                           f"received frame with RHL-1 {want[:8].hex()}.. ({len(want)} octets)"
                           + (f": the octets behind its basic header are the secured message of reception {other[0]} (another thread)"
                              if other else ""))
        return out


def rx_model(batch, case, run, tag):
    if run.has_fp and not run.abort:
        batch.add("rx.pdu", {"case": case, "schedule": run.choices, "how": tag}, " ".join(run.pdus) or "-", "rx 1 " + " ".join(run.events))


RX_BRANCH_KINDS = dsched.BRANCH_KINDS | {"line"}      # pre-emption also before every line of geonet/router.py


def enumerate_rx_schedules(run_once, bound, cap, rng):
    """dsched.enumerate_schedules with `line` pre-emption points as alternatives too (the window a shared per-reception
    attribute opens need not contain a lock operation): stateless search, children differ from their parent at one later
    step, at most `bound` pre-emptions; returns (#runs, complete?)"""
    work, runs, seen = [[]], 0, set()
    while work:
        if runs >= cap:
            return runs, False
        prefix = work.pop(rng.randrange(len(work)))
        steps = run_once(prefix)
        runs += 1
        choices = [s[0] for s in steps]
        p = dsched.preemptions(steps, len(prefix))
        for i in range(len(prefix), len(steps)):
            chosen, enabled, cur, kind = steps[i]
            for alt in enabled:
                if alt == chosen or kind not in RX_BRANCH_KINDS:
                    continue
                if p + (1 if (cur is not None and cur in enabled and alt != cur) else 0) > bound:
                    continue
                child = tuple(choices[:i] + [alt])
                if child not in seen:
                    seen.add(child)
                    work.append(list(child))
            if cur is not None and cur in enabled and chosen != cur:
                p += 1
    return runs, True


def explore_rx(ctx, batch, case, cap, bound=1, model_every=1):
    """both serial orders, then the schedules with at most `bound` pre-emptions (complete if there are at most `cap`, a seeded
    random sample of them otherwise); every run judged by the oracle.  Returns #violating runs"""
    found = 0
    names = "+".join(("sec-" if rx["secured"] else "") + rx["orig"] for rx in case["rx"])
    for order in ([0, 1], [1, 0]):
        run = RxRun(case, None, serial=order)
        ctx.evals()
        bad = run.judge()
        rx_model(batch, case, run, f"serial{order}")
        if bad:
            found += 1
            ctx.violation(f"receptions one after the other {order} on one router [{names}]: {bad[0]}", {"kind": "rx2", "case": dict(case, serial=order)})
    if found:
        return found
    state = {"n": 0}

    def once(prefix):
        run = RxRun(case, dsched.Replay(prefix))
        ctx.evals()
        state["n"] += 1
        ctx.cover("rx2:preemptions_%d" % min(dsched.preemptions(run.steps), 3))
        bad = run.judge()
        if run.abort:
            ctx.cover("rx2:aborted:" + run.abort)
            if state.get("noted") is None:
                state["noted"] = True
                ctx.note(f"rx2 [{names}]: a scheduled run was aborted ({run.abort}) - not judged (deadlocks are C15's subject)")
            return run.steps
        if state["n"] % model_every == 0 or bad:
            rx_model(batch, case, run, "sched")
        if bad:
            state["found"] = state.get("found", 0) + 1
            if state["found"] == 1:
                ctx.violation(f"two receive threads on one router [{names}], {dsched.preemptions(run.steps)} pre-emption(s): {bad[0]}",
                              {"kind": "rx2", "case": dict(case, schedule=run.choices)})
        state["steps"] = max(state.get("steps", 0), run.nsteps)
        return run.steps
    runs, exhausted = enumerate_rx_schedules(once, bound, cap, ctx.rng)
    ctx.cover("rx2:scheduled_runs", runs)
    ctx.cover(f"rx2:pair:{names}")
    if exhausted:
        ctx.cover("rx2:all-schedules-within-bound-%d" % bound)
    ctx.nontrivial(("rx2", names, case["rx"][0]["pkt"], case["rx"][1]["pkt"]))
    ctx.extra.setdefault("rx2", {})[names] = {"runs": runs, "bound": bound, "complete": exhausted, "yield_points": state.get("steps")}
    return found + state.get("found", 0)


def check_rx_threads(ctx, batch, volume=1):
    rng = ctx.rng
    # always: a secured single-hop packet (CAM-like: delivered, never forwarded) against an unsecured multi-hop one, ALL schedules
    # with one pre-emption; secured against secured and secured against unsecured of forwardable types, sampled
    fixed = [(["shb", "tsb"], [True, False], 100000), (["badsec", "gbc"], [True, False], ctx.scale(20, 200)),
             (["gbc", "guc"], [True, False], ctx.scale(40, 400)),
             (["gbc", "tsb"], [True, True], ctx.scale(40, 400)), (["lsr", "gac"], [False, True], ctx.scale(30, 400))]
    found = 0
    for kinds, sec, cap in fixed:
        found += explore_rx(ctx, batch, build_rx_case(rng, kinds, sec, must_forward=True), cap * volume, model_every=4)
        if found:
            return found
    for _ in range(ctx.scale(3, 40) * volume):
        case = build_rx_case(rng)
        if not any(rx["secured"] for rx in case["rx"]):
            case["rx"][rng.randint(0, 1)]["secured"] = True
            case["rx"] = [dict(rx, env=rx.get("env") or (b"\x03\x81\x00" + bytes(rng.getrandbits(8) for _ in range(20))).hex()) for rx in case["rx"]]
        found += explore_rx(ctx, batch, case, ctx.scale(25, 300) * volume, model_every=4)
        if found:
            break
    if ctx.thorough and not found:
        found += explore_rx(ctx, batch, build_rx_case(rng, ["gbc", "tsb"], [True, False]), 3000, bound=2, model_every=20)
    return found


# ---- a location-table position vector copied into a header while a receive thread replaces it ---------------------
#
# Class: the SOURCE operations (and the forwarders' DE PV refresh) that copy the `position_vector` of a LocTE into a header as a
# Short Position Vector - gn_data_request_guc (DE PV of the originated GUC packet), gn_data_indicate_ls_request (DE PV of the LS
# reply), gn_data_indicate_guc / gn_data_indicate_ls_reply (step 8 refresh) - run on one thread while the link-layer receive
# thread processes beacons of THAT station, each of which REPLACES the entry's immutable vector.  Both threads run on the real
# Router under harness/dsched.py: pre-emption before every attribute / subscript / call bytecode of the four copying functions,
# before every line of the rest of geonet/router.py and at every lock operation of router / location table.
# ORACLE (EN 302 636-4-1 10.3.8.2 table 28, 10.3.7.3, 10.3.8.3 step 8): the DE PV field on the wire (octets 40..59) is the short
# form of ONE of the vectors the location table held for the station during the run - as a whole.  Every vector of a case differs
# from every other in TST, latitude AND longitude, so any combination of fields of two of them is a vector that never existed.
# Lean side: Props.C02.de_pv_is_a_table_vector / guc_de_pv_any_schedule / ls_reply_de_pv_any_schedule /
# forward_guc_refresh_any_schedule on the load counts of the source (Props.C02.de_pv_copies_single_load).
DEPV_WHATS = ["guc-src", "ls-reply", "guc-fwd", "lsr-fwd"]
DEPV_FUNCS = ("gn_data_request_guc", "gn_data_indicate_guc", "gn_data_indicate_ls_request", "gn_data_indicate_ls_reply")


def depv_codes():
    return [getattr(router_mod.Router, n).__code__ for n in DEPV_FUNCS if hasattr(router_mod.Router, n)]


def beacon_frame(pv, rng_tc=0, mobile=0):
    """a conformant beacon (reference packer) carrying the long position vector `pv`"""
    return (ref_pack(R_BASIC, [1, 1, 0, 26 >> 2, 26 & 3, 1])
            + ref_pack(R_COMMON, [0, 0, 1, 0, 0, 0, rng_tc, mobile, 0, 0, 1, 0]) + ref_pack(R_LPV, lpv_ref(pv)))


def build_depv_case(rng, what=None, n_new=None):
    """one station D with a sequence of position vectors pvs[0], pvs[1], ... (strictly newer time stamps; latitude and longitude
    change with every vector); pvs[0] is what the router's location table holds when the threads start (`ls-reply`: the SO PV of the
    LS request itself), pvs[1:] arrive as beacons of D on the receive thread while the other thread copies D's vector into a header"""
    what = what or rng.choice(DEPV_WHATS)
    n_new = n_new or rng.choice([1, 1, 2, 3])
    tst = now_tst()
    ego = g_ego(rng, tst)
    ego[2] = (1 << 47) + rng.randint(1, 1 << 40)
    case = {"kind": "depv", "what": what, "ego": ego}
    if what in ("guc-fwd", "lsr-fwd"):
        while True:
            f = build_fwd_case(rng, "guc" if what == "guc-fwd" else "lsr", mode="simple", rhl_class=rng.choice(["mid", "2", "max"]),
                               de_state="nbr-newer", fwd_ego=ego)
            if bytes.fromhex(f["pkt"])[3] >= 2:
                break
        case["pkt"] = f["pkt"]
        first = list(f["de_loct"])
    else:
        d = g_addr(rng)
        d[2] = (1 << 47) + (1 << 44) + rng.randint(1, 1 << 40)
        first = d + [(tst - rng.randint(1500, 5000)) % (1 << 32), pick(rng, B32S, -(1 << 31), (1 << 31) - 1),
                     pick(rng, B32S, -(1 << 31), (1 << 31) - 1), rng.randint(0, 1), pick(rng, B15S, -(1 << 14), (1 << 14) - 1), g16(rng)]
    pvs = [first]
    dlat, dlon = (-1 if first[4] > 0 else 1), (-1 if first[5] > 0 else 1)      # strictly monotone, away from the 32-bit limits
    for _ in range(n_new):
        p = list(pvs[-1])
        p[3] = (p[3] + rng.choice([1, 2, 100, 333])) % (1 << 32)      # strictly newer (annex C.2)
        p[4] += dlat * rng.choice([1, 1000, 54321])
        p[5] += dlon * rng.choice([1, 3000, 98765])
        p[6], p[7], p[8] = rng.randint(0, 1), pick(rng, B15S, -(1 << 14), (1 << 14) - 1), g16(rng)
        pvs.append(p)
    case["pvs"] = pvs
    if what == "guc-src":
        payload = bytes(rng.getrandbits(8) for _ in range(rng.choice([0, 4, 30])))
        case["req"] = {"payload": payload.hex(), "mhl": rng.choice([0, 1, 2, 10, 255]), "tc": [0, rng.randint(0, 1), rng.randint(0, 63)],
                       "nh": rng.choice([0, 1, 2])}
    elif what == "ls-reply":
        lt = rng.randint(1, 63) << 2 | rng.randint(1, 3)
        mhl = rng.choice([1, 2, 10, 255])
        case["pkt"] = (ref_pack(R_BASIC, [1, 1, 0, lt >> 2, lt & 3, rng.randint(1, mhl)])
                       + ref_pack(R_COMMON, [0, 0, 6, 0, 0, rng.randint(0, 1), rng.randint(0, 63), rng.randint(0, 1), 0, 0, mhl, 0])
                       + ref_pack(R_LSQ, [g16(rng), 0] + lpv_ref(first) + ga_ref(ego[0:3]))).hex()
    return case


class DeRun:
    """one execution of a `depv` case on ONE real router: thread 0 = the copying operation, thread 1 = the receptions of the
    beacons of D, one after the other; serially in the order `serial` (policy None) or under the scheduling policy"""

    def __init__(self, case, policy=None, serial=None, max_steps=60000):
        self.case = case
        what, pvs = case["what"], case["pvs"]
        beacons = [beacon_frame(pv) for pv in pvs[1:]]
        self.sent = [[], []]
        self.steps, self.choices, self.abort, self.excs, self.nsteps = [], [], None, [], 0
        cur = {"i": None}
        sched = {"s": None}

        def who():
            s = sched["s"]
            if s is None:
                return cur["i"]
            me = s.me()
            return me.tid if me is not None else None

        with dsched.patched([router_mod, loct_mod], extra={"Timer": _NoTimer}):
            r, _ll, _inds = mk_router([1, 1, 10, 60, 0], case["ego"], itsGnAreaForwardingAlgorithm=AreaForwardingAlgorithm.SIMPLE)
            run = self

            class LL:
                def send(self, packet):
                    run.sent[who()].append(bytes(packet))
            r.link_layer = LL()
            with rs.quiet():
                if what != "ls-reply":
                    r.location_table.new_shb_packet(mk_lpv(pvs[0]), b"")      # D is a neighbour holding pvs[0]
                if what == "guc-src":
                    rq = case["req"]
                    data = bytes.fromhex(rq["payload"])
                    req = GNDataRequest(upper_protocol_entity=CommonNH(rq["nh"]),
                                        packet_transport_type=PacketTransportType(header_type=HeaderType.GEOUNICAST,
                                                                                  header_subtype=HeaderSubType.UNSPECIFIED),
                                        traffic_class=TrafficClass(scf=False, channel_offload=bool(rq["tc"][1]), tc_id=rq["tc"][2]),
                                        data=data, length=len(data), destination=mk_addr(pvs[0][0:3]), max_hop_limit=rq["mhl"])

                    def op():
                        r.gn_data_request(req)
                else:
                    frame = bytes.fromhex(case["pkt"])

                    def op():
                        r.gn_data_indicate(frame)

                def rx():
                    for b in beacons:
                        r.gn_data_indicate(b)
                bodies = [op, rx]
                if policy is None:
                    for i in (serial or (0, 1)):
                        cur["i"] = i
                        try:
                            bodies[i]()
                        except Exception as e:  # noqa: BLE001 - the exception IS the observation
                            self.excs.append((i, type(e).__name__))
                else:
                    s = dsched.DSched(policy, line_files=RX_FILES, opcode_codes=depv_codes(), max_steps=max_steps)
                    sched["s"] = s
                    s.spawn(op, name="op")
                    s.spawn(rx, name="beacon")
                    s.run(timeout=30.0)
                    self.steps = s.steps
                    self.choices = [c[0] for c in s.steps]
                    self.abort = s.abort_reason
                    self.nsteps = s.nsteps
                    self.excs = [(ts.tid, type(ts.exc).__name__) for ts in s.threads if ts.exc is not None]

    def judge(self):
        case = self.case
        what, pvs = case["what"], case["pvs"]
        if self.abort:
            return [f"run aborted by the scheduler: {self.abort}"]
        tag = {"guc-src": "originated GUC packet (gn_data_request_guc)", "ls-reply": "LS reply (gn_data_indicate_ls_request)",
               "guc-fwd": "forwarded GUC packet (gn_data_indicate_guc)", "lsr-fwd": "forwarded LS reply (gn_data_indicate_ls_reply)"}[what]
        tag += f" while {len(pvs) - 1} beacon(s) of the {'requester' if what == 'ls-reply' else 'destination'} are received"
        out = [f"{tag}: thread {'op' if i == 0 else 'beacon'} raised {e}" for i, e in self.excs]
        got = self.sent[0]
        if self.sent[1]:
            out.append(f"{tag}: the reception of a beacon put {len(self.sent[1])} packet(s) on the link")
        if len(got) != 1:
            out.append(f"{tag}: {len(got)} packets sent, expected 1")
            return out
        pkt = got[0]
        ht = {"guc-src": 2, "guc-fwd": 2, "ls-reply": 6, "lsr-fwd": 6}[what]
        if len(pkt) < 60 or pkt[5] >> 4 != ht:
            out.append(f"{tag}: sent {pkt[:12].hex()}.. ({len(pkt)} octets) is not a packet of header type {ht} with a 48-octet extended header")
            return out
        if what in ("guc-fwd", "lsr-fwd"):
            rcv = bytes.fromhex(case["pkt"])
            want = rcv[:3] + bytes([rcv[3] - 1]) + rcv[4:]
            if pkt[:40] != want[:40] or pkt[60:] != want[60:]:
                out.append(f"{tag}: differs from the received packet beyond RHL-1 and the DE PV: {pkt.hex()} vs {want.hex()}")
        held = [ref_pack(R_SPV, spv_ref(pv[0:6])) for pv in pvs]
        de = pkt[40:60]
        if de not in held:
            f = ref_unpack(R_SPV, de)          # m st reserved mid tst lat lon

            def src(i, v):
                ks = [str(k) for k, pv in enumerate(pvs) if pv[i] == v]
                return "vector " + "/".join(ks) if ks else "no vector"
            out.append(f"{tag}: DE PV on the wire (tst={f[4]} lat={f[5]} lon={f[6]}; {de.hex()}) is NONE of the {len(pvs)} position vectors the "
                       f"location table held for that station " + str([(pv[3], pv[4], pv[5]) for pv in pvs])
                       + f": TST of {src(3, f[4])}, latitude of {src(4, f[5])}, longitude of {src(5, f[6])} - a vector that never existed")
        return out


def explore_depv(ctx, case, cap, bound=1):
    """both serial orders, then the schedules with at most `bound` pre-emptions (complete if at most `cap`, else a seeded random
    sample); every run judged by the oracle.  Returns #violating runs"""
    what = case["what"]
    found = 0
    for order in ([0, 1], [1, 0]):
        run = DeRun(case, None, serial=order)
        ctx.evals()
        bad = run.judge()
        if bad:
            found += 1
            ctx.violation(f"threads one after the other {order}: {bad[0]}", {"kind": "depv", "case": dict(case, serial=order)})
    if found:
        return found
    state = {"n": 0}

    def once(prefix):
        if state.get("found"):
            return []
        run = DeRun(case, dsched.Replay(prefix))
        ctx.evals()
        state["n"] += 1
        ctx.cover("depv:preemptions_%d" % min(dsched.preemptions(run.steps), 3))
        if run.abort:
            ctx.cover("depv:aborted:" + run.abort)
            if state.get("noted") is None:
                state["noted"] = True
                ctx.note(f"depv [{what}]: a scheduled run was aborted ({run.abort}) - not judged (deadlocks are C15's subject)")
            return run.steps
        bad = run.judge()
        if bad:
            again = DeRun(case, dsched.Replay(run.choices))
            if again.judge():
                state["found"] = 1
                ctx.violation(f"{dsched.preemptions(run.steps)} pre-emption(s) (schedule {state['n']} of the enumeration): {bad[0]}",
                              {"kind": "depv", "case": dict(case, schedule=run.choices)})
            else:
                ctx.cover("depv:not_reproduced")
        state["steps"] = max(state.get("steps", 0), run.nsteps)
        return run.steps
    runs, exhausted = enumerate_rx_schedules(once, bound, cap, ctx.rng)
    ctx.cover("depv:scheduled_runs", runs)
    ctx.cover(f"depv:{what}:vectors_{len(case['pvs'])}")
    if exhausted and not state.get("found"):
        ctx.cover("depv:all-schedules-within-bound-%d" % bound)
    ctx.nontrivial(("depv", what, case.get("pkt"), str(case["pvs"])))
    ev = ctx.extra.setdefault("depv", {})
    ev[f"{len(ev)}:{what}/{len(case['pvs'])} vectors"] = {"runs": runs, "bound": bound, "complete": exhausted, "yield_points": state.get("steps")}
    return found + state.get("found", 0)


def check_depv_threads(ctx, volume=1):
    rng = ctx.rng
    found = 0
    # always: each of the four copy sites against ONE concurrent beacon, all schedules with one pre-emption (within the cap)
    for what in DEPV_WHATS:
        found += explore_depv(ctx, build_depv_case(rng, what, n_new=1), ctx.scale(400, 4000) * volume)
        if found:
            return found
    for _ in range(ctx.scale(2, 24) * volume):
        found += explore_depv(ctx, build_depv_case(rng), ctx.scale(60, 600) * volume)
        if found:
            return found
    if ctx.thorough:
        found += explore_depv(ctx, build_depv_case(rng, "guc-src", n_new=3), 4000, bound=2)
    return found


def bridge_report(ctx):
    """make the loss of a bridge obligation visible: evidence field + note + histogram key"""
    active = [m for m in MODULES if m != "Props.C02"]
    dropped = [m for m in EXPECTED_BRIDGES if m not in MODULES]
    ctx.extra["bridge_obligations"] = {"expected": EXPECTED_BRIDGES, "active": active, "dropped": dropped}
    for m in dropped:
        msg = (f"BRIDGE-DROPPED {m}: py2lean could not translate the current source (see `extraction`); the equality "
               f"'extracted function = model' is NOT a proof obligation of this run - correspondence only")
        ctx.note(msg)
        print(msg)
        ctx.cover("bridge_dropped:" + m)
    for m in active:
        ctx.cover("bridge_active:" + m)


# =====================================================================================================
def run_corpus(ctx, batch, var):
    pk = []
    for name, c in corpus("C02"):
        case = c if "kind" in c else c["case"]   # bare case (corpus) or wrapped (copied replay file)
        k = case.get("kind")
        if k in ("enc", "dec"):
            check_tuple(ctx, batch, case["hdr"], case["fields"], "corpus")
        elif k == "pkt":
            pk.append(case["case"])
        elif k == "fwd":
            sent = forward(case["case"])
            judge_forward(ctx, case["case"], sent)
            add_fwd_to_batch(ctx, batch, case["case"], sent)
        elif k == "btpreq":
            for w in judge_btp_request(case["case"], btp_request(case["case"])):
                ctx.violation(w, {"kind": "btpreq", "case": case["case"]})
        elif k == "rx2":
            c = case["case"]
            run = RxRun(c, None, serial=c["serial"]) if "serial" in c else RxRun(c, dsched.Replay(c.get("schedule", [])))
            for w in run.judge():
                ctx.violation("corpus rx2: " + w, {"kind": "rx2", "case": c})
            rx_model(batch, c, run, "corpus")
        elif k == "depv":
            c = case["case"] if "case" in case else case
            run = DeRun(c, None, serial=c["serial"]) if "serial" in c else DeRun(c, dsched.Replay(c.get("schedule", [])))
            for w in run.judge():
                ctx.violation("corpus depv: " + w, {"kind": "depv", "case": c})
        elif k == "fwd_secured":
            pass    # the signed-DENM forwarding scenario is always on (check_secured_forward): keys are fresh per run
        ctx.cover("corpus_cases:" + str(k))
    run_packet_cases(ctx, batch, pk, var, "corpus")


def run(ctx):
    ctx.extra["rule"] = ("codec cases: one field tuple through the real encoder + oracle, the reference octets through the real "
                         "decoder + oracle, both against the Lean model; per-field sweeps (<=8 bit and enumerations always complete, "
                         "<=16 bit complete in the thorough tier), boundary lists for 32/48-bit fields, out-of-width and raw-octet "
                         "error streams; packets: one real Router (+BTP router) origination or forwarding per case. "
                         "distinct_nontrivial counts distinct (header, field, value) sweep points, random tuples, packets")
    var = variant()
    ctx.extra["variant"] = {"C20-KF1 capped": bool(var[0]), "C02-KF1 beacon flag repaired": bool(var[1]),
                            "C02-KF2 version from MIB": bool(var[2])}
    bridge_report(ctx)
    try:
        with env():
            batch = Batch(ctx)
            run_corpus(ctx, batch, var)
            check_spec_twin(ctx, batch)
            check_sweeps(ctx, batch)
            check_random(ctx, batch)
            check_decoders(ctx, batch)
            check_packets(ctx, batch, var)
            check_forwarding(ctx, batch)
            check_secured_forward(ctx, batch)
            check_btp_requests(ctx, batch)
            check_rx_threads(ctx, batch)
            check_depv_threads(ctx)
    finally:
        pass
    batch.flush()
    ctx.cover("model_lines", getattr(batch, "total", 0))   # ONE driver call for the whole run (driver start-up dominates otherwise)
    if ctx.thorough:
        ctx.exhaustive = True   # every <=16-bit field of every header enumerated completely (other fields random)


def search(ctx):
    """a theorem / generated obligation / correspondence broke: 3x volume on the real code, oracle only"""
    ok = ctx.model_ok
    ctx.model_ok = False
    try:
        with env():
            var = variant()
            batch = Batch(ctx)
            for _ in range(3):
                check_sweeps(ctx, batch)
                check_random(ctx, batch)
                check_decoders(ctx, batch)
                check_packets(ctx, batch, var)
                check_forwarding(ctx, batch)
                check_secured_forward(ctx, batch)
                check_btp_requests(ctx, batch)
                check_rx_threads(ctx, batch, volume=3)
                check_depv_threads(ctx, volume=3)
                batch.items = []
                if ctx.violations:
                    break
    finally:
        ctx.model_ok = ok


def replay(ctx, obj):
    case = obj if "kind" in obj else obj["case"]   # corpus files hold the bare case, replay files wrap it
    kind = case.get("kind")
    if kind in ("enc", "dec"):
        hdr, t = case["hdr"], case["fields"]
        if not conformant(hdr, t):
            print(f"{hdr} {t}: not a conformant field tuple - outside the property")
            return False
        want = ref_pack(REF_LAYOUT[hdr], to_ref(hdr, t))
        e = real_enc(hdr, t)
        d = real_dec(hdr, want)
        print(f"{hdr} {t}: encoder -> {e} (standard {want.hex()}); decoder on the standard octets -> {d}")
        return e != want.hex() or d != list(t)
    if kind == "decraw":
        hdr, data = case["hdr"], bytes.fromhex(case["hex"])
        rd = real_dec(hdr, data)
        if isinstance(rd, str):
            print(f"{hdr} decoder raised {rd}")
            return False
        L = HDR_LEN[hdr]
        bad = decraw_diff(hdr, data[:L], rd)
        print(f"{hdr} {data.hex()} -> {rd}: {bad or 'ok'}")
        return bool(bad)
    if kind == "tc":
        tc = case["tc"]
        scf, co, tid = tc >> 7, (tc >> 6) & 1, tc & 63
        d = TrafficClass.decode_from_int(tc)
        bad = TrafficClass(scf=bool(scf), channel_offload=bool(co), tc_id=tid).encode_to_int() != tc or \
            (int(d.scf), int(d.channel_offload), d.tc_id) != (scf, co, tid)
        print(f"traffic class {tc}: {'violated' if bad else 'ok'}")
        return bad
    if kind == "btpreq":
        res = btp_request(case["case"])
        bad = judge_btp_request(case["case"], res)
        print(f"btp_data_request({case['case']}) -> {res if isinstance(res, str) else (res[0], res[1][:16].hex() + '..', res[2])}: {bad or 'ok'}")
        return bool(bad)
    if kind == "rx2":
        c = case["case"]
        with env():
            run = RxRun(c, None, serial=c["serial"]) if "serial" in c else RxRun(c, dsched.Replay(c.get("schedule", [])))
        bad = run.judge()
        for i, rx in enumerate(c["rx"]):
            w = rx_want(rx)
            print(f"reception {i}: {'secured' if rx['secured'] else 'unsecured'} {rx['orig']} frame {rx_frame(rx)[:8].hex()}.. -> sent "
                  f"{[p[:8].hex() + '..(' + str(len(p)) + ')' for p in run.sent[i]]}, prescribed {None if w is None else w[:8].hex() + '..(' + str(len(w)) + ')'}")
        print(bad or "every reception forwarded its own frame with RHL-1")
        return bool(bad)
    if kind == "depv":
        c = case["case"] if "case" in case else case
        with env():
            run = DeRun(c, None, serial=c["serial"]) if "serial" in c else DeRun(c, dsched.Replay(c.get("schedule", [])))
        bad = run.judge()
        for k, pv in enumerate(c["pvs"]):
            print(f"vector {k} of the station: tst={pv[3]} lat={pv[4]} lon={pv[5]}  short form {ref_pack(R_SPV, spv_ref(pv[0:6])).hex()}")
        for p in run.sent[0]:
            print(f"sent by the copying thread: {p[:12].hex()}.. ({len(p)} octets), DE PV (octets 40..59) {p[40:60].hex()}")
        if "schedule" in c:
            print(f"schedule with {dsched.preemptions(run.steps)} pre-emption(s)")
        print(bad or "the DE PV on the wire is one of the vectors the location table held, as a whole")
        return bool(bad)
    if kind == "fwd_secured":
        with env():
            res = secured_forward_scenario()
        out = None if res is None else judge_secured_forward(*res)
        if out is None:
            print("scenario did not produce a secured packet with RHL >= 2")
            return False
        known = {k["id"] for k in ctx.known if k.get("status") == "known"}
        for w, fid in out:
            print(("KNOWN " + fid + ": " if fid in known else "") + w)
        if not out:
            print("secured packet forwarded as received with RHL-1")
        return any(fid not in known for _, fid in out)
    if kind in ("pkt", "fwd"):
        try:
            with env():
                if kind == "pkt":
                    try:
                        sent = emit(case["case"])
                    except Exception as e:  # noqa: BLE001
                        print(f"origination raised {type(e).__name__}: {e}")
                        return True
                    parts = split_case(case["case"], sent)
                    if parts is None:
                        print(f"{len(sent)} packets on the link layer for a multi-packet scenario")
                        return True
                    res = [x for sc, pk in parts for x in judge_packet(ctx, sc, pk, report=False)]
                    known = {k["id"] for k in ctx.known if k.get("status") == "known"}
                    for w, fid in res:
                        print(("KNOWN " + fid + ": " if fid in known else "") + w)
                    if not res:
                        print("packet conforms")
                    unknown = [w for w, fid in res if fid not in known]
                    if res and not unknown:
                        print("only deviations under known findings (suppressed by the check, listed as KNOWN-FINDING)")
                    return bool(unknown)
                try:
                    sent = forward(case["case"])
                except Exception as e:  # noqa: BLE001
                    print(f"forwarder raised {type(e).__name__}: {e}")
                    return True
                res = judge_forward(ctx, case["case"], sent, report=False)
                print(res or "forwarded packet conforms")
                return bool(res)
        finally:
            pass
    raise Infra(f"unknown replay kind {kind}")

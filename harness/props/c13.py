"""C13 — LDM queries return exactly the matching objects, identically on both back-ends.

Theorems: lean/Props/C13.lean about lean/FlexModel/Ldm/Filter.lean (dictionary and TinyDB search, ordering) and the
specification lean/FlexModel/Ldm/Query.lean.
Tie: stores of CAM / VAM / DENM dictionaries produced by the repository's real coders (with and without optional
containers) are loaded through IF.LDM.3 into two real facilities (DictionaryDataBase and TinyDB in a temp dir),
queried through IF.LDM.4 with generated filters / type selections / orders, side by side and against the model
(`req` = dictionary path, `treq` = TinyDB path).
Oracle: `spec_query` below, a brute-force evaluator written from the property text, applied to the REAL content of
each store (read back from the database).
"""
from __future__ import annotations

import functools

from common import Infra, corpus
import ldm_common as L

MODULES = ["Props.C13"]
DRIVERS = ["Ldm"]
TRUSTED = [
    "modelled rather than verified: tinydb (query objects, doc ids, JSON storage; modelled as: path resolution with "
    "KeyError/TypeError -> no match, JSON round trip turns tuples into lists, bytes cannot be stored); CPython's "
    "sorted() (modelled as stable insertion sort using `<` only; equal on keys of one comparable scalar class)",
    "the Lean operator model (`pyEq`, `compare3`, `pyContains`) is compared with native Python ==, <, in on every "
    "generated filter through the correspondence; harness/ldm_common.py serialises Python values for the model",
]
ASSUMPTIONS = [
    "filters: one or two statements, joined by and/or when two (a second statement with logical operator None is run "
    "for model correspondence only - the property does not define it and the back-ends differ there)",
    "attribute paths are dotted paths inside the message; order attributes are dotted paths too (bare names keep "
    "their legacy depth-first meaning and are compared model-vs-code only)",
    "comparison of a value with a reference value of another type: == false, != true, ordering not matching",
    "known finding C13-KF1: TinyDB cannot store a message that contains bytes (BIT STRING / OCTET STRING values): "
    "add_provider_data raises TypeError; side-by-side histories therefore use messages without such fields",
    "known finding C13-KF2: ordering by an attribute that a selected object lacks (or whose values are of mixed "
    "types) raises TypeError out of request_data_objects",
    "back-end equality is modulo JSON (TinyDB returns lists where tuples were stored); known finding C13-KF3: filters "
    "whose reference value is or contains a tuple/list select differently on the two back-ends",
]

TYPES = {"cam": 2, "vam": 16, "denm": 1}
MISSING = object()


# ------------------------------------------------------------------------------------ specification (oracle)

def spec_lookup(obj, path):
    for k in path.split("."):
        if isinstance(obj, dict) and k in obj:
            obj = obj[k]
        else:
            return MISSING
    return obj


def spec_contains(v, ref):
    if isinstance(v, str):
        return str(ref) in v
    if isinstance(v, (list, tuple)):
        return ref in v
    return False


def spec_holds(stmt, obj):
    attr, op, refser = stmt
    v = spec_lookup(obj, attr)
    if v is MISSING:
        return False                       # "an object lacking an attribute simply not matching"
    ref = L.deser(refser)
    try:
        if op == "eq":
            return bool(v == ref)
        if op == "ne":
            return bool(v != ref)
        if op == "lt":
            return bool(v < ref)
        if op == "le":
            return bool(v <= ref)
        if op == "gt":
            return bool(v > ref)
        if op == "ge":
            return bool(v >= ref)
        if op == "like":
            return spec_contains(v, ref)
        if op == "notlike":
            return not spec_contains(v, ref)
    except TypeError:
        return False                       # values of non-matching type are not ordered: no match
    raise Infra(f"operator {op}")


def spec_matches(flt, obj):
    if flt is None:
        return True
    if len(flt) == 1:
        return spec_holds(flt[0], obj)
    a, b = spec_holds(flt[0], obj), spec_holds(flt[2], obj)
    return (a and b) if flt[1] == "&" else (a or b)


def type_of(obj):
    names = {"denm": 1, "cam": 2, "poi": 3, "spatem": 4, "mapem": 5, "ivim": 6, "ev-rsr": 7, "tistpgtransaction": 8,
             "srem": 9, "ssem": 10, "evcsn": 11, "saem": 12, "rtcmem": 13, "cpm": 14, "imzm": 15, "vam": 16, "dsm": 17,
             "pcim": 18, "pcvm": 19, "payload": 20, "pam": 21}
    for k in obj:
        if k in names:
            return names[k]
    return None


def spec_query(stored, types, flt, order):
    """stored: list of record dicts (store order).  Returns ("ok", [records]) or ("order-undefined", None)."""
    sel = [d for d in stored if type_of(d["dataObject"]) in types and spec_matches(flt, d["dataObject"])]
    if order is None or not order["keys"]:
        return "ok", sel
    keys = []
    for d in sel:
        ks = [spec_lookup(d["dataObject"], a) for a, _ in order["keys"]]
        keys.append(ks)
    for j in range(len(order["keys"])):
        col = [ks[j] for ks in keys]
        if len(col) >= 2 and not (all(isinstance(x, int) for x in col) or all(isinstance(x, str) for x in col)):
            return "order-undefined", None
        if len(col) == 1 and col[0] is MISSING:
            col[0] = None

    def cmp(x, y):
        for j, (_, d) in enumerate(order["keys"]):
            a, b = x[0][j], y[0][j]
            if a == b:
                continue
            lt = a < b
            return (-1 if lt else 1) * (1 if d == "a" else -1)
        return 0
    out = [d for _, d in sorted(zip(keys, sel), key=functools.cmp_to_key(lambda x, y: cmp(x, y)))]
    return "ok", out


# ------------------------------------------------------------------------------------ helpers

def has_bytes(o):
    if isinstance(o, (bytes, bytearray)):
        return True
    if isinstance(o, dict):
        return any(has_bytes(v) for v in o.values())
    if isinstance(o, (list, tuple)):
        return any(has_bytes(v) for v in o)
    return False


def has_seq(o):
    if isinstance(o, (list, tuple)):
        return True
    if isinstance(o, dict):
        return any(has_seq(v) for v in o.values())
    return False


def ref_has_seq(flt):
    """signature of C13-KF3: some statement's reference value is or contains a list / tuple"""
    if flt in (None, "!"):
        return False
    return any(has_seq(L.deser(s[2])) for s in flt if isinstance(s, list))


def jsonish(tok):
    """canonical form modulo JSON: tuples read as lists"""
    return tok.replace("U", "L") if "U" in tok else tok


def canon_json(tok):
    rec = L.parse_record(tok)
    if "obj" not in rec:
        return tok

    def conv(o):
        if isinstance(o, (list, tuple)):
            return [conv(x) for x in o]
        if isinstance(o, dict):
            return {k: conv(v) for k, v in o.items()}
        return o
    rec["obj"] = L.ser(conv(L.deser(rec["obj"])))
    return repr(sorted(rec.items(), key=lambda kv: kv[0]))


FAR = dict(lat=10 ** 8, lon=10 ** 8, majC=0, minC=0, majO=0, alt=0, altC=0, radius=0, relDist=1, relDir=0)
CFG = {"lat": 415000000, "lon": 21000000, "alt": 0, "relDist": 4}      # every object far from it: no C12-KF1 noise


def message_pool(ctx, n):
    pool = []
    for i in range(n):
        kind = ("cam", "vam", "denm")[i % 3]
        pool.append(L.make_message(ctx.rng, kind, (i // 3) % 2 == 1))
    # other message types and odd shapes (synthetic: the repository has no coder for them)
    pool.append({"header": {"stationId": 5}, "cpm": {"generationDeltaTime": 7, "list": [1, 2, 3], "flag": True, "none": None}})
    pool.append({"header": {"stationId": 6}, "poi": {"name": "charging-spot", "tags": ["ev", "fast"], "pos": (1, 2)}})
    pool.append({"header": {"stationId": "seven"}, "cam": {"generationDeltaTime": "text", "camParameters": {}}})
    pool.append({"payload": {"x": 1}, "cam": {"generationDeltaTime": 3}})     # first type key decides
    pool.append({"unknownThing": {"x": 1}})
    return pool


def gen_ref(rng, values):
    """reference value: matching type (an occurring value or a neighbour) or non-matching type"""
    x = rng.random()
    vals = [v for v in values if v is not MISSING]
    if vals and x < 0.6:
        v = rng.choice(vals)
        if isinstance(v, bool) or v is None:
            return v
        if isinstance(v, int):
            return v + rng.choice([0, 0, 1, -1])
        if isinstance(v, str):
            return rng.choice([v, v[:3], v + "x", ""]) if v else v
        if isinstance(v, (list, tuple)):
            return rng.choice([v, v[0] if v else 0])
        if isinstance(v, dict):
            return v
        return v
    return rng.choice([0, 1, -1, 2 ** 40, "", "a", "unavailable", "5", None, True, False, [1, 2], (1, 2), [],
                       b"\x00", {"a": 1}, 4095, 3601])


def gen_true_stmt(rng, objs):
    """a statement that holds for at least one stored object"""
    o = rng.choice(objs)
    cands = [(p, v) for p, v in L.leaf_paths(o) if not isinstance(v, dict)]
    if not cands:
        return None
    p, v = rng.choice(cands)
    try:
        if isinstance(v, int) and not isinstance(v, bool):
            op, ref = rng.choice([("eq", v), ("ge", v), ("le", v), ("gt", v - 1), ("lt", v + 1), ("ne", v + 1), ("notlike", 1)])
        elif isinstance(v, str):
            op, ref = rng.choice([("eq", v), ("like", v[:2]), ("ge", v), ("le", v), ("ne", v + "x"), ("notlike", v + "x")])
        else:
            op, ref = rng.choice([("eq", v), ("ne", 0)])
        return [p, op, L.ser(ref)]
    except TypeError:
        return None


def gen_stmt(rng, objs, paths):
    if objs and rng.random() < 0.5:
        s = gen_true_stmt(rng, objs)
        if s is not None:
            return s
    x = rng.random()
    if x < 0.82:
        attr = rng.choice(paths)
    elif x < 0.90:
        attr = rng.choice(paths) + rng.choice([".zz", ".0", ".latitude"])        # through a scalar / tuple / missing
    else:
        attr = rng.choice(["nope", "header.nope", "cam", "cam.camParameters.highFrequencyContainer.heading", "", "a..b"])
    op = rng.choice(["eq", "ne", "gt", "lt", "ge", "le", "like", "notlike"])
    values = [spec_lookup(o, attr) for o in objs]
    ref = gen_ref(rng, values)
    try:
        return [attr, op, L.ser(ref)]
    except TypeError:
        return [attr, op, L.ser(None)]


def gen_filter(rng, objs, paths):
    x = rng.random()
    if x < 0.08:
        return None
    if x < 0.55:
        return [gen_stmt(rng, objs, paths)]
    lop = "&" if x < 0.76 else ("|" if x < 0.97 else "?")
    return [gen_stmt(rng, objs, paths), lop, gen_stmt(rng, objs, paths)]


def gen_order(rng, objs, paths, legacy=False):
    x = rng.random()
    if x < 0.5:
        return None
    if legacy and x < 0.6:
        return {"kind": "U", "keys": [[rng.choice(["stationId", "generationDeltaTime", "timestamp", "latitude", "zzz"]),
                                       rng.choice("ad")]]}
    scal = [p for p in paths if any(isinstance(spec_lookup(o, p), (int, str)) and not isinstance(spec_lookup(o, p), bool)
                                    for o in objs)]
    if not scal:
        return None
    n = 1 if rng.random() < 0.6 else 2
    keys = [[rng.choice(scal), rng.choice("ad")] for _ in range(n)]
    if x > 0.97:
        return {"kind": "U", "keys": []}
    return {"kind": rng.choice("LU"), "keys": keys}


def gen_case(rng, pool, force_json=None):
    """one store and its requests.  json_only: every message storable by TinyDB (side-by-side)"""
    json_only = force_json if force_json is not None else rng.random() < 0.6
    cand = [m for m in pool if not (json_only and has_bytes(m))]
    n = rng.choice([0, 1, 2, 3, 5, 8, 12])
    objs = [rng.choice(cand) for _ in range(n)]
    if objs and rng.random() < 0.5:          # make order keys collide / stores more uniform
        objs += [rng.choice(objs) for _ in range(rng.randrange(1, 4))]
    paths = sorted({p for o in objs for p, v in L.leaf_paths(o)}) or ["header.stationId"]
    now = L.now_its(L.UTC0_MS)
    adds = []
    for k, o in enumerate(objs):
        app = type_of(o) if type_of(o) in (1, 2, 16) else 2
        adds.append(["add", app, now + k, dict(FAR, minC=k % 3), 10 ** 6, L.ser(o)])
    reqs = []
    for _ in range(10):
        present = sorted({type_of(o) for o in objs if type_of(o) is not None})
        y = rng.random()
        if present and y < 0.5:
            types = present
        elif present and y < 0.75:
            types = [rng.choice(present)]
        else:
            types = rng.choice([[2], [16], [1], [2, 16], [1, 2, 16], [1, 2, 16, 14, 3, 20], [14, 3], []])
        legacy = rng.random() < 0.1
        reqs.append(["req", 2, types, None, gen_order(rng, objs, paths, legacy), gen_filter(rng, objs, paths)])
    return {"json_only": json_only, "adds": adds, "reqs": reqs}


PRE = [["regp", 1, [1]], ["regp", 2, [2]], ["regp", 16, [16]], ["regc", 2, [2]]]


def is_legacy_order(order):
    return order not in (None, "!") and any("." not in a for a, _ in order["keys"])


def judge_request(req, line, stored, backend):
    """compare one real answer with the specification evaluated on the real store content"""
    _, app, types, prio, order, flt = req
    if flt not in (None, "!") and len(flt) == 3 and flt[1] == "?":
        return []                                     # outside the property (see ASSUMPTIONS)
    if is_legacy_order(order):
        return []
    head, recs, _ = L.split_line(line)
    kind, want = spec_query(stored, set(types), flt, order)
    if kind == "order-undefined":
        if head[0] == "x":
            return [(f"{backend}: ordering by an attribute missing / of mixed type in the selection raised {head[1]}", "C13-KF2")]
        return []
    if head[0] != "ok":
        return [(f"{backend}: query answered {head[:2]} instead of data", None)]
    want_tok = [L.ser_record(d) for d in want]
    if recs == want_tok:
        return []
    if sorted(recs) == sorted(want_tok):
        return [(f"{backend}: right objects in the wrong order (order={order})", None)]
    return [(f"{backend}: returned {len(recs)} objects, the specification selects {len(want_tok)} "
             f"(types={types}, filter={flt_text(flt)})", None)]


def flt_text(flt):
    if flt in (None, "!"):
        return str(flt)
    def st(s):
        try:
            return f"{s[0]} {s[1]} {L.deser(s[2])!r}"
        except Exception:
            return str(s)
    return st(flt[0]) if len(flt) == 1 else f"{st(flt[0])} {flt[1]} {st(flt[2])}"


def run_case(ctx, case, tag, model_dict=None, model_tiny=None):
    """load the store into a Dictionary facility (and a TinyDB one when storable), run the requests on both"""
    backends = ["Dictionary"] + (["TinyDB"] if case["json_only"] else [])
    answers = {}
    for be in backends:
        with L.RealLdm(CFG, be) as r:
            for op in PRE + case["adds"]:
                ln = r.apply(op)
                if ln.startswith("x "):
                    fid = "C13-KF1" if (be == "TinyDB" and op[0] == "add" and has_bytes(L.deser(op[5]))) else None
                    ctx.violation(f"{tag}: {be}: {op[0]} raised {ln[2:]}", replay_case(case, None), fid)
            stored = r.stored()
            lines = []
            for req in case["reqs"]:
                ln = r.apply(req)
                lines.append(ln)
                ctx.evals()
                for what, fid in judge_request(req, ln, stored, be):
                    ctx.violation(f"{tag}: {what}", replay_case(case, req), fid)
                hd = ln.split(" ")[0]
                nrec = ln.count("{")
                ctx.cover(f"{be}:{hd}")
                flt = req[5]
                if flt not in (None, "!"):
                    for s in ([flt[0]] if len(flt) == 1 else [flt[0], flt[2]]):
                        ctx.cover("op_" + s[1])
                    ctx.cover("filter_" + ("1" if len(flt) == 1 else {"&": "and", "|": "or", "?": "none"}[flt[1]]))
                ctx.cover("selected_" + ("0" if nrec == 0 else "some" if nrec < len(stored) else "all"))
                ctx.nontrivial((be, hd, min(nrec, 6), None if flt in (None, "!") else tuple(s[1] for s in flt if isinstance(s, list)),
                                req[4] is not None))
            answers[be] = lines
    if "TinyDB" in answers:
        for req, a, b in zip(case["reqs"], answers["Dictionary"], answers["TinyDB"]):
            if req[5] not in (None, "!") and len(req[5]) == 3 and req[5][1] == "?":
                continue
            ha, ra, _ = L.split_line(a)
            hb, rb, _ = L.split_line(b)
            if ha[0] != hb[0] or [canon_json(t) for t in ra] != [canon_json(t) for t in rb]:
                fid = "C13-KF3" if ref_has_seq(req[5]) else None
                ctx.violation(f"{tag}: back-ends disagree: Dictionary {ha[0]}/{len(ra)} objects, TinyDB {hb[0]}/{len(rb)} "
                              f"(filter={flt_text(req[5])}, order={req[4]})", replay_case(case, req), fid)
            ctx.cover("side_by_side")
    for be, mo in (("Dictionary", model_dict), ("TinyDB", model_tiny)):
        if mo is not None and be in answers:
            for req, a, b in zip(case["reqs"], answers[be], mo):
                if a != b and b.startswith("x ") and not a.startswith("x "):
                    # the model mirrors C13-KF2 (TypeError); code that answers instead has been repaired there
                    ctx.cover("kf2_repaired_variant_skips")
                    continue
                if a != b and be == "TinyDB" and ref_has_seq(req[5]):
                    ctx.cover("kf3_repaired_variant_skips")
                    continue
                if a != b:
                    ctx.mismatch(f"ldm.query.{be}", replay_case(case, req), a[:300], b[:300])
                    break
    return answers


def replay_case(case, req):
    return {"kind": "query", "json_only": case["json_only"], "adds": case["adds"], "reqs": [req] if req else case["reqs"]}


def model_lines(ctx, cases, variants):
    if not ctx.model_ok:
        return [(None, None)] * len(cases)
    lines, spans = [], []
    for c in cases:
        lines.append(L.init_line(CFG, variants))
        lines += [L.op_line(op) for op in PRE + c["adds"]]
        a = len(lines)
        lines += [L.op_line(r) for r in c["reqs"]]
        b = len(lines)
        lines += [L.op_line(["treq"] + r[1:]) for r in c["reqs"]]
        spans.append((a, b, len(c["reqs"])))
    out = ctx.model("Ldm", lines)
    if any(o == "bad-op" for o in out):
        k = next(i for i, o in enumerate(out) if o == "bad-op")
        raise Infra(f"model driver rejected line: {lines[k][:300]}")
    return [(out[a:a + n], out[b:b + n]) for a, b, n in spans]


def kf1_witness(ctx):
    """TinyDB and bytes: run the witness every time (variant detection: repaired code passes silently)"""
    obj = {"header": {"stationId": 1}, "cam": {"generationDeltaTime": 1, "exteriorLights": (b"\x80", 8)}}
    with L.RealLdm(CFG, "TinyDB") as r:
        for op in PRE:
            r.apply(op)
        ln = r.apply(["add", 2, L.now_its(L.UTC0_MS), FAR, 1000, L.ser(obj)])
    if ln.startswith("x "):
        ctx.violation(f"TinyDB: add of a message with a BIT STRING value raised {ln[2:]}",
                      {"kind": "tinydb-bytes"}, "C13-KF1")
    ctx.extra.setdefault("variant", {})["C13-KF1"] = "TinyDB rejects bytes (code as is)" if ln.startswith("x ") else "bytes storable"


def corpus_cases():
    return [(n, c) for n, c in corpus("C13") if c.get("kind") == "query"]


def run(ctx):
    ctx.extra["rule"] = ("one evaluation = one request through IF.LDM.4 on a real facility, judged by the brute-force "
                         "specification on the real store content; distinct_nontrivial counts distinct (back-end, outcome, "
                         "result size, operators, ordered?) tuples")
    import props.c12 as c12
    variants = c12.detect_variants()
    kf1_witness(ctx)
    pool = message_pool(ctx, ctx.scale(18, 60))
    cases = [("corpus:" + n, {"json_only": c["json_only"], "adds": c["adds"], "reqs": c["reqs"]}) for n, c in corpus_cases()]
    ctx.cover("corpus_cases", len(cases))
    for i in range(ctx.scale(260, 6000)):
        cases.append((f"random:{i}", gen_case(ctx.rng, pool)))
    chunk = 200
    for a in range(0, len(cases), chunk):
        part = cases[a:a + chunk]
        mos = model_lines(ctx, [c for _, c in part], variants)
        for (tag, c), (md, mt) in zip(part, mos):
            run_case(ctx, c, tag, md, mt)
    if cases:
        c = cases[-1][1]
        ctx.sample("query", {"objects": len(c["adds"]), "json_only": c["json_only"],
                             "requests": [[r[2], r[4], flt_text(r[5])] for r in c["reqs"][:4]]})


def search(ctx):
    pool = message_pool(ctx, 24)
    for i in range(ctx.scale(330, 9000)):
        run_case(ctx, gen_case(ctx.rng, pool), f"search:{i}")
        if len(ctx.violations) >= 3:
            break


def replay(ctx, obj):
    case = obj.get("case", obj)
    if case.get("kind") == "tinydb-bytes":
        kf1_witness(ctx)
        return bool(ctx.known_seen or ctx.violations)
    if case.get("kind") != "query":
        raise Infra(f"unknown replay kind {case.get('kind')}")
    n0 = len(ctx.violations) + sum(v["count"] for v in ctx.known_seen.values())
    ans = run_case(ctx, {"json_only": case["json_only"], "adds": case["adds"], "reqs": case["reqs"]}, "replay")
    for be, lines in ans.items():
        for req, ln in zip(case["reqs"], lines):
            print(f"  {be}: types={req[2]} order={req[4]} filter={flt_text(req[5])} -> {ln.split(' ')[0]} {ln.count('{')} objects")
    for v in ctx.violations:
        print("  VIOLATED:", v["what"][:300])
    for k, v in ctx.known_seen.items():
        print(f"  VIOLATED [{k}]:", v["what"][:300])
    return len(ctx.violations) + sum(v["count"] for v in ctx.known_seen.values()) > n0

"""C13 — LDM queries return exactly the matching objects, identically on both back-ends.

Theorems: lean/Props/C13.lean about lean/FlexModel/Ldm/Filter.lean (dictionary and TinyDB search, ordering) and the
specification lean/FlexModel/Ldm/Query.lean (comparisons specified independently of the implementation model).
Tie: HISTORIES of add / delete / update / clock advance / maintenance (objects with short validity expire) are run
through IF.LDM.3 on two real facilities (DictionaryDataBase and TinyDB in a temp dir), with CAM / VAM / DENM
dictionaries produced by the repository's real coders (with and without optional containers) plus synthetic shapes;
requests (generated filters / type selections / orders) go through IF.LDM.4 in the middle and at the end of the
history, side by side and against the model (`req` = dictionary path, `treq` = TinyDB path).  Always-on boundary cases:
objects lacking the attribute x every operator, two-statement AND/OR filters over objects satisfying exactly one
statement, add/delete(not the newest)/add histories.
Oracle: `spec_query` below, a brute-force evaluator written from the property text, applied to the REAL content of
each store (read back from the database); the store content itself is judged against the history (`RefStore`: added and
not deleted, as long as no time passes).
Histories made by SEVERAL THREADS (round 4): `DbRace` runs 2-3 real threads, each issuing calls (insert / update / remove by
value / remove by id / search / all) on one real DictionaryDataBase under harness/dsched.py - all one-pre-emption
schedules of ten always-on scenarios (a provider update racing the removal of the previous version, equal objects under
two ids, concurrent inserts, searches during writes ...), random scenarios in the failing-input search and the thorough
tier; the outcome (every call's result, the final store) must be the outcome of SOME sequential order of the same calls
(`RefDb`, written from the interface).  Theorems: Props.C13 section Conc (lean/FlexModel/Ldm/QueryConc.lean), whose
premise - every method is one lock section - is read from the source (lean/Generated/LdmSections.lean `dbUnits`).
Round 5: (1) the TinyDB back-end under threads - the same `DbRace` on a real TinyDB (JSON file in a temp dir), tinydb's
JSONStorage.read / write traced too (`TINYRACE_SCENARIOS`: a search / all racing a removal, an update by a shorter record,
an insert); obligation `tinydb_methods_single_section` over the regenerated `tinyUnits`.  (2) Histories with EQUAL
containers stored several times and removal BY VALUE (`delv k` = LDMMaintenance.del_provider_data with the container of
the k-th add, model line `delv`, boundary family (d)): one copy goes per removal on both back-ends
(Props.C13 `same_history_same_objects`, lean/FlexModel/Ldm/QueryBackends.lean).
Round 6: HETEROGENEOUS selections ordered by PLAIN attribute names living at different paths in the selected message types
(`gen_plain_order`, boundary family (e); oracle `spec_find` / `order_value`); obligation `order_key_is_per_object` over the
regenerated `orderKeyShared` (harness/gen_ldm_subs.py order_key_shared); Props.C13 `plain_name_order_exact`.
"""
from __future__ import annotations

import functools

from common import Infra, corpus
import ldm_common as L

MODULES = ["Props.C13"]
DRIVERS = ["Ldm"]
TRUSTED = [
    "modelled rather than verified: tinydb (query objects, doc ids, JSON storage; modelled as: path resolution with "
    "KeyError/TypeError -> no match, JSON round trip turns tuples into lists, bytes cannot be stored); CPython's "
    "sorted() (modelled as stable insertion sort using `<` only; equal on keys of one comparable scalar class)",
    "the Lean operator model (`pyEq`, `compare3`, `pyContains`) is compared with native Python ==, <, in on every "
    "generated filter through the correspondence; harness/ldm_common.py serialises Python values for the model",
    "thread schedules: harness/dsched.py (CPython executes one bytecode atomically; RLock replaced by a scheduler-aware "
    "equivalent; every method of DictionaryDataBase - and of the TinyDB class plus tinydb's JSONStorage.read / write - traced "
    "at opcode granularity; the rest of the tinydb library runs un-pre-empted); the Lean thread model (QueryConc.lean "
    "over FlexModel/Conc/Sched.lean) treats a `with self._lock` section as one atomic block and is tied to the source by "
    "the regenerated section list only (an `ast` pass: harness/gen_ldm_subs.py db_units)",
]
ASSUMPTIONS = [
    "filters: one or two statements, joined by and/or when two (a second statement with logical operator None is run "
    "for model correspondence only - the property does not define it and the back-ends differ there)",
    "attribute paths are dotted paths inside the message; order attributes are dotted paths too, or PLAIN names: a plain "
    "name means, for EACH object on its own, the first occurrence of the key depth-first through the stored record "
    "(`spec_find`; round 6: judged by the oracle whenever every selected object has the name with values of one "
    "comparable class - the same name sits at different paths in different message types; a plain name missing / of "
    "mixed type somewhere is compared model-vs-code only and is NOT waived by C13-KF2)",
    "comparison of a value with a reference value of another type: == false, != true, ordering not matching",
    "known finding C13-KF1: TinyDB cannot store a message that contains bytes (BIT STRING / OCTET STRING values): "
    "add_provider_data raises TypeError; side-by-side histories therefore use messages without such fields",
    "reference values are None / bool / int / str / bytes / list / tuple / dict (what decoded messages contain); float "
    "reference values are neither modelled nor generated",
    "the two back-ends number the objects differently (in-memory from 0, TinyDB document ids from 1): histories name an "
    "object by the position of its add; update / delete use the identifier the back-end returned",
    "known finding C13-KF2: ordering by an attribute that a selected object lacks (or whose values are of mixed "
    "types) raises TypeError out of request_data_objects",
    "back-end equality is modulo JSON (TinyDB returns lists where tuples were stored); known finding C13-KF3: filters "
    "whose reference value is or contains a tuple/list select differently on the two back-ends",
    "'the same history of operations' for calls issued by several threads = some sequential order of the calls that keeps "
    "each thread's own order (linearisability); judged on the in-memory back-end and (round 5) on the TinyDB class, whose "
    "lock is the only protection of tinydb's shared file handle; update / remove_by_id use identifiers that have been "
    "issued, and on TinyDB an update never races the removal of its own id (TinyDB.update of an absent id raises KeyError "
    "where the in-memory back-end upserts; IF.LDM.3 checks `exists` first)",
    "removal by value (`delv`) is issued on LDMMaintenance.del_provider_data with the container in the form the back-end "
    "returns it (what add_provider_data stored; its JSON image on TinyDB) - the call the maintenance passes make; 'equal' "
    "is Python's == on the stored dictionaries",
]

TYPES = {"cam": 2, "vam": 16, "denm": 1}
MISSING = object()


# ------------------------------------------------------------------------------------ specification (oracle)

def spec_lookup(obj, path):
    for k in path.split("."):
        if isinstance(obj, dict) and k in obj:
            obj = obj[k]
        else:
            return MISSING
    return obj


def spec_contains(v, ref):
    if isinstance(v, str):
        return str(ref) in v
    if isinstance(v, (list, tuple)):
        return ref in v
    return False


def spec_holds(stmt, obj):
    attr, op, refser = stmt
    v = spec_lookup(obj, attr)
    if v is MISSING:
        return False                       # "an object lacking an attribute simply not matching"
    ref = L.deser(refser)
    try:
        if op == "eq":
            return bool(v == ref)
        if op == "ne":
            return bool(v != ref)
        if op == "lt":
            return bool(v < ref)
        if op == "le":
            return bool(v <= ref)
        if op == "gt":
            return bool(v > ref)
        if op == "ge":
            return bool(v >= ref)
        if op == "like":
            return spec_contains(v, ref)
        if op == "notlike":
            return not spec_contains(v, ref)
    except TypeError:
        return False                       # values of non-matching type are not ordered: no match
    raise Infra(f"operator {op}")


def spec_matches(flt, obj):
    if flt is None:
        return True
    if len(flt) == 1:
        return spec_holds(flt[0], obj)
    a, b = spec_holds(flt[0], obj), spec_holds(flt[2], obj)
    return (a and b) if flt[1] == "&" else (a or b)


def type_of(obj):
    names = {"denm": 1, "cam": 2, "poi": 3, "spatem": 4, "mapem": 5, "ivim": 6, "ev-rsr": 7, "tistpgtransaction": 8,
             "srem": 9, "ssem": 10, "evcsn": 11, "saem": 12, "rtcmem": 13, "cpm": 14, "imzm": 15, "vam": 16, "dsm": 17,
             "pcim": 18, "pcvm": 19, "payload": 20, "pam": 21}
    for k in obj:
        if k in names:
            return names[k]
    return None


def spec_find(rec, name):
    """value of a PLAIN order attribute in one stored record: the first occurrence of the key, depth-first through the
    dictionaries of the record in dictionary order (the documented meaning of a bare name) - looked up in EVERY object on
    its own: the same name sits at different paths in different message types (cam.generationDeltaTime /
    vam.generationDeltaTime; ...basicContainer.stationType / denm.management.stationType)"""
    stack = [iter(rec.items())]
    while stack:
        for k, v in stack[-1]:
            if k == name:
                return v
            if isinstance(v, dict):
                stack.append(iter(v.items()))
                break
        else:
            stack.pop()
    return MISSING


def order_value(rec, attr):
    return spec_lookup(rec["dataObject"], attr) if "." in attr else spec_find(rec, attr)


def spec_query(stored, types, flt, order):
    """stored: list of record dicts (store order).  Returns ("ok", [records]) or ("order-undefined", None)."""
    sel = [d for d in stored if type_of(d["dataObject"]) in types and spec_matches(flt, d["dataObject"])]
    if order is None or not order["keys"]:
        return "ok", sel
    keys = []
    for d in sel:
        ks = [order_value(d, a) for a, _ in order["keys"]]
        keys.append(ks)
    for j in range(len(order["keys"])):
        col = [ks[j] for ks in keys]
        if len(col) >= 2 and not (all(isinstance(x, int) for x in col) or all(isinstance(x, str) for x in col)):
            return "order-undefined", None
        if len(col) == 1 and col[0] is MISSING:
            col[0] = None

    def cmp(x, y):
        for j, (_, d) in enumerate(order["keys"]):
            a, b = x[0][j], y[0][j]
            if a == b:
                continue
            lt = a < b
            return (-1 if lt else 1) * (1 if d == "a" else -1)
        return 0
    out = [d for _, d in sorted(zip(keys, sel), key=functools.cmp_to_key(lambda x, y: cmp(x, y)))]
    return "ok", out


# ------------------------------------------------------------------------------------ helpers

def has_bytes(o):
    if isinstance(o, (bytes, bytearray)):
        return True
    if isinstance(o, dict):
        return any(has_bytes(v) for v in o.values())
    if isinstance(o, (list, tuple)):
        return any(has_bytes(v) for v in o)
    return False


def has_seq(o):
    if isinstance(o, (list, tuple)):
        return True
    if isinstance(o, dict):
        return any(has_seq(v) for v in o.values())
    return False


def ref_has_seq(flt):
    """signature of C13-KF3: some statement's reference value is or contains a list / tuple"""
    if flt in (None, "!"):
        return False
    return any(has_seq(L.deser(s[2])) for s in flt if isinstance(s, list))


def jsonish(tok):
    """canonical form modulo JSON: tuples read as lists"""
    return tok.replace("U", "L") if "U" in tok else tok


def canon_json(tok):
    rec = L.parse_record(tok)
    if "obj" not in rec:
        return tok

    def conv(o):
        if isinstance(o, (list, tuple)):
            return [conv(x) for x in o]
        if isinstance(o, dict):
            return {k: conv(v) for k, v in o.items()}
        return o
    rec["obj"] = L.ser(conv(L.deser(rec["obj"])))
    return repr(sorted(rec.items(), key=lambda kv: kv[0]))


FAR = dict(lat=10 ** 8, lon=10 ** 8, majC=0, minC=0, majO=0, alt=0, altC=0, radius=0, relDist=1, relDir=0)
CFG = {"lat": 415000000, "lon": 21000000, "alt": 0, "relDist": 4}      # every object far from it: no C12-KF1 noise


def message_pool(ctx, n):
    pool = []
    for i in range(n):
        kind = ("cam", "vam", "denm")[i % 3]
        pool.append(L.make_message(ctx.rng, kind, (i // 3) % 2 == 1))
    # other message types and odd shapes (synthetic: the repository has no coder for them)
    pool.append({"header": {"stationId": 5}, "cpm": {"generationDeltaTime": 7, "list": [1, 2, 3], "flag": True, "none": None}})
    pool.append({"header": {"stationId": 6}, "poi": {"name": "charging-spot", "tags": ["ev", "fast"], "pos": (1, 2)}})
    pool.append({"header": {"stationId": "seven"}, "cam": {"generationDeltaTime": "text", "camParameters": {}}})
    pool.append({"payload": {"x": 1}, "cam": {"generationDeltaTime": 3}})     # first type key decides
    pool.append({"unknownThing": {"x": 1}})
    return pool


def gen_ref(rng, values):
    """reference value: matching type (an occurring value or a neighbour) or non-matching type"""
    x = rng.random()
    vals = [v for v in values if v is not MISSING]
    if vals and x < 0.6:
        v = rng.choice(vals)
        if isinstance(v, bool) or v is None:
            return v
        if isinstance(v, int):
            return v + rng.choice([0, 0, 1, -1])
        if isinstance(v, str):
            return rng.choice([v, v[:3], v + "x", ""]) if v else v
        if isinstance(v, (list, tuple)):
            return rng.choice([v, v[0] if v else 0])
        if isinstance(v, dict):
            return v
        return v
    return rng.choice([0, 1, -1, 2 ** 40, "", "a", "unavailable", "5", None, True, False, [1, 2], (1, 2), [],
                       b"\x00", {"a": 1}, 4095, 3601])


def gen_true_stmt(rng, objs):
    """a statement that holds for at least one stored object"""
    o = rng.choice(objs)
    cands = [(p, v) for p, v in L.leaf_paths(o) if not isinstance(v, dict)]
    if not cands:
        return None
    p, v = rng.choice(cands)
    try:
        if isinstance(v, int) and not isinstance(v, bool):
            op, ref = rng.choice([("eq", v), ("ge", v), ("le", v), ("gt", v - 1), ("lt", v + 1), ("ne", v + 1), ("notlike", 1)])
        elif isinstance(v, str):
            op, ref = rng.choice([("eq", v), ("like", v[:2]), ("ge", v), ("le", v), ("ne", v + "x"), ("notlike", v + "x")])
        else:
            op, ref = rng.choice([("eq", v), ("ne", 0)])
        return [p, op, L.ser(ref)]
    except TypeError:
        return None


def gen_stmt(rng, objs, paths):
    if objs and rng.random() < 0.5:
        s = gen_true_stmt(rng, objs)
        if s is not None:
            return s
    x = rng.random()
    if x < 0.82:
        attr = rng.choice(paths)
    elif x < 0.90:
        attr = rng.choice(paths) + rng.choice([".zz", ".0", ".latitude"])        # through a scalar / tuple / missing
    else:
        attr = rng.choice(["nope", "header.nope", "cam", "cam.camParameters.highFrequencyContainer.heading", "", "a..b"])
    op = rng.choice(["eq", "ne", "gt", "lt", "ge", "le", "like", "notlike"])
    values = [spec_lookup(o, attr) for o in objs]
    ref = gen_ref(rng, values)
    try:
        return [attr, op, L.ser(ref)]
    except TypeError:
        return [attr, op, L.ser(None)]


def gen_filter(rng, objs, paths):
    x = rng.random()
    if x < 0.08:
        return None
    if x < 0.55:
        return [gen_stmt(rng, objs, paths)]
    lop = "&" if x < 0.76 else ("|" if x < 0.97 else "?")
    return [gen_stmt(rng, objs, paths), lop, gen_stmt(rng, objs, paths)]


def plain_names(objs):
    """(names of int/str leaves of the messages, those among them that sit at DIFFERENT paths in different objects)"""
    at = {}
    for o in objs:
        for p, v in L.leaf_paths(o):
            if isinstance(v, (int, str)) and not isinstance(v, bool):
                at.setdefault(p.split(".")[-1], set()).add(p)
    names = sorted(at)
    return names, [n for n in names if len(at[n]) > 1]


def gen_plain_order(rng, objs, paths):
    """order tuple with PLAIN attribute names (round 6): each object is ordered by the value the name has in IT, wherever
    the name sits there; names living at different paths in the selected message types are preferred"""
    names, moved = plain_names(objs)
    names = names + ["timestamp", "application_id", "latitude", "timeValidity"]
    n = rng.choice([1, 1, 1, 2, 2, 3])
    keys = []
    for _ in range(n):
        x = rng.random()
        if moved and x < 0.6:
            a = rng.choice(moved)
        elif x < 0.85:
            a = rng.choice(names)
        elif x < 0.95 and paths:
            a = rng.choice(paths)                     # a dotted key among the plain ones
        else:
            a = rng.choice(["zzz", "header", "generationDeltaTime", "stationType"])
        keys.append([a, rng.choice("ad")])
    return {"kind": rng.choice("LU"), "keys": keys}


def gen_order(rng, objs, paths, legacy=False):
    x = rng.random()
    if legacy and objs and x < 0.85:
        return gen_plain_order(rng, objs, paths)
    if x < 0.5:
        return None
    if legacy and x < 0.6:
        return {"kind": "U", "keys": [[rng.choice(["stationId", "generationDeltaTime", "timestamp", "latitude", "zzz"]),
                                       rng.choice("ad")]]}
    scal = [p for p in paths if any(isinstance(spec_lookup(o, p), (int, str)) and not isinstance(spec_lookup(o, p), bool)
                                    for o in objs)]
    if not scal:
        return None
    n = rng.choice([1, 1, 1, 1, 1, 1, 2, 2, 2, 3])
    keys = [[rng.choice(scal), rng.choice("ad")] for _ in range(n)]
    if x > 0.97:
        return {"kind": "U", "keys": []}
    return {"kind": rng.choice("LU"), "keys": keys}


def provider_of(o):
    return type_of(o) if type_of(o) in (1, 2, 16) else 2


def gen_requests(rng, objs, paths, n):
    reqs = []
    for _ in range(n):
        present = sorted({type_of(o) for o in objs if type_of(o) is not None})
        y = rng.random()
        if present and y < 0.5:
            types = present
        elif present and y < 0.75:
            types = [rng.choice(present)]
        else:
            types = rng.choice([[2], [16], [1], [2, 16], [1, 2, 16], [1, 2, 16, 14, 3, 20], [14, 3], []])
        legacy = rng.random() < 0.16
        if legacy and present and rng.random() < 0.7:
            # heterogeneous selections: all stored types, or two of them
            types = present if (len(present) < 3 or rng.random() < 0.5) else sorted(rng.sample(present, 2))
        reqs.append(["req", 2, types, None, gen_order(rng, objs, paths, legacy), gen_filter(rng, objs, paths)])
    return reqs


def gen_case(rng, pool, force_json=None):
    """one history and its requests.  json_only: every message storable by TinyDB (side-by-side).
    ops: add | delk (delete the k-th added object) | updk (replace the k-th added object's message) | adv | gc | req.
    About half of the histories only add; the others delete / update / let objects expire between the adds, and
    ask requests in the middle and at the end."""
    json_only = force_json if force_json is not None else rng.random() < 0.6
    cand = [m for m in pool if not (json_only and has_bytes(m))]
    n = rng.choice([0, 1, 2, 3, 5, 8, 12])
    objs = [rng.choice(cand) for _ in range(n)]
    if objs and rng.random() < 0.5:          # make order keys collide / stores more uniform
        objs += [rng.choice(objs) for _ in range(rng.randrange(1, 4))]
    if rng.random() < 0.04:
        objs += [rng.choice(cand) for _ in range(rng.randrange(10, 20))]       # a larger store now and then
    paths = sorted({p for o in objs for p, v in L.leaf_paths(o)}) or ["header.stationId"]
    dynamic = bool(objs) and rng.random() < 0.5
    timed = dynamic and rng.random() < 0.35
    utc = L.UTC0_MS
    ops, k = [], 0
    n_mid = rng.choice([0, 2, 3]) if dynamic else 0
    mid_at = rng.randrange(1, len(objs) + 1) if (dynamic and objs) else None
    # round 5: EQUAL containers (a message delivered twice: same application, time stamp, location, validity and data
    # object) and removal BY VALUE (`delv k`: LDMMaintenance.del_provider_data with the container of the k-th add)
    dupes = dynamic and rng.random() < 0.5
    adds = []
    for i, o in enumerate(objs):
        if dupes and adds and rng.random() < 0.35:
            op = list(rng.choice(adds))
            objs[i] = L.deser(op[5])
        else:
            validity = rng.choice([1, 2, 3]) if (timed and rng.random() < 0.4) else 10 ** 6
            op = ["add", provider_of(o), L.now_its(utc) + k, dict(FAR, minC=k % 3), validity, L.ser(o)]
        ops.append(op)
        adds.append(op)
        k += 1
        if dupes and rng.random() < 0.3:
            twins = [j for j in range(k) if sum(1 for a in adds if a[1:] == adds[j][1:]) > 1]
            ops.append(["delv", rng.choice(twins) if (twins and rng.random() < 0.7) else rng.randrange(0, k)])
        elif dynamic:
            x = rng.random()
            if x < 0.30:
                # delete an earlier object: mostly NOT the newest one (the identifier of the next insert must stay fresh)
                j = rng.randrange(0, k) if rng.random() < 0.8 else k - 1
                ops.append(["delk", provider_of(objs[j]), j])
            elif x < 0.42:
                j = rng.randrange(0, k)
                same = [m for m in cand if type_of(m) == type_of(objs[j])]
                m = rng.choice(same) if (same and rng.random() < 0.85) else rng.choice(cand)
                ops.append(["updk", provider_of(objs[j]), j, L.ser(m)])
            elif x < 0.46:
                ops.append(["delk", 2, k + 3])                       # an identifier never issued
            elif timed and x < 0.62:
                ms = rng.choice([1000, 2000, 3000, 5000])
                utc += ms
                ops.append(["adv", ms])
                if rng.random() < 0.5:
                    ops.append(["gc"])
        if mid_at == i + 1 and n_mid:
            ops += gen_requests(rng, objs[:i + 1], paths, n_mid)
    ops += gen_requests(rng, objs, paths, 10 - n_mid)
    return {"json_only": json_only, "ops": ops}


def case_ops(case):
    """histories are {"ops": [...]}; older corpus files have {"adds": [...], "reqs": [...]}"""
    if "ops" in case:
        return case["ops"]
    return list(case["adds"]) + list(case["reqs"])


def boundary_cases():
    """always-on deterministic cases (both back-ends):
      (a) objects lacking the attribute x every operator x reference values of matching / other value / other type,
      (b) two-statement AND / OR filters over objects satisfying both / exactly one / none of the statements (also with
          the second statement on an attribute some objects lack),
      (c) histories add / delete (not the newest) / add, update, delete of a missing identifier,
      (d) equal containers stored two or three times, removal by value in between (round 5)."""
    now = L.now_its(L.UTC0_MS)

    def add(k, o, app=None):
        return ["add", app or provider_of(o), now + k, dict(FAR, minC=k % 3), 10 ** 6, L.ser(o)]

    def denm(sid, quality=None, cause=None):
        d = {"header": {"stationId": sid}, "denm": {"management": {"stationType": 5, "sequenceNumber": sid}}}
        if quality is not None:
            d["denm"]["situation"] = {"informationQuality": quality, "eventType": {"ccAndScc": (cause, 1)}, "note": cause}
        return d

    def vam(sid, sub=None):
        d = {"header": {"stationId": sid}, "vam": {"vamParameters": {"basicContainer": {"stationType": 1}}}}
        if sub is not None:
            d["vam"]["vamParameters"]["vruLowFrequencyContainer"] = {"profileAndSubprofile": ("pedestrian", sub), "sizeClass": sub}
        return d

    def cam(sid, st, speed, role=None):
        d = {"header": {"stationId": sid},
             "cam": {"camParameters": {"basicContainer": {"stationType": st},
                                       "highFrequencyContainer": ("basicVehicleContainerHighFrequency", {"speedValue": speed})}}}
        if role is not None:
            d["cam"]["camParameters"]["lowFrequencyContainer"] = {"vehicleRole": role}
        return d
    out = []
    # (a)
    store = [denm(1), denm(2, 3, "accident"), denm(3, 0, "roadworks"), denm(4), denm(5, 3, "accident"),
             vam(6), vam(7, "ordinary"), vam(8, "road-worker"), cam(9, 5, 100)]
    reqs = []
    for attr, refs in (("denm.situation.informationQuality", [3, 1, "3", None]),
                       ("denm.situation.note", ["accident", "acc", 3]),
                       ("vam.vamParameters.vruLowFrequencyContainer.sizeClass", ["ordinary", "x"]),
                       ("denm.situation", [None]), ("denm.situation.eventType.ccAndScc", [("accident", 1)])):
        for opn in ("eq", "ne", "gt", "lt", "ge", "le", "like", "notlike"):
            for ref in refs:
                reqs.append(["req", 2, [1, 2, 16], None, None, [[attr, opn, L.ser(ref)]]])
    out.append({"json_only": True, "ops": [add(k, o) for k, o in enumerate(store)] + reqs})
    # (b)
    store = [cam(1, 5, 100), cam(2, 5, 900), cam(3, 6, 900), cam(4, 6, 100), cam(5, 5, 900, "emergency"), cam(6, 5, 100, "default"),
             vam(7, "ordinary")]
    st, sp, role = "cam.camParameters.basicContainer.stationType", "header.stationId", "cam.camParameters.lowFrequencyContainer.vehicleRole"
    stmts = [[st, "eq", L.ser(5)], [sp, "gt", L.ser(3)], [role, "eq", L.ser("default")], [role, "ne", L.ser("default")],
             [st, "ne", L.ser(5)], [sp, "le", L.ser(2)]]
    reqs = []
    for s1 in stmts:
        for s2 in stmts:
            if s1 is not s2:
                for lop in "&|":
                    reqs.append(["req", 2, [2, 16], None, None, [s1, lop, s2]])
    out.append({"json_only": True, "ops": [add(k, o) for k, o in enumerate(store)] + reqs})
    # (c)
    q = [["req", 2, [1, 2, 16], None, None, None], ["req", 2, [2], None, None, [[st, "eq", L.ser(5)]]]]
    for victim in (0, 1, 2):
        ops = [add(0, cam(1, 5, 100)), add(1, cam(2, 5, 200)), add(2, cam(3, 5, 300))] + q
        ops += [["delk", 2, victim]] + q + [add(3, cam(4, 5, 400))] + q + [["updk", 2, (victim + 1) % 3, L.ser(cam(9, 6, 999))]] + q
        ops += [["delk", 2, 17], add(4, vam(5, "ordinary")), ["delk", 2, 3]] + q
        out.append({"json_only": True, "ops": ops})
    # (d) EQUAL containers stored more than once, then removal by value (`delv k` names the container of the k-th add):
    #     exactly ONE stored copy goes per removal, on both back-ends; a copy that was updated / removed by id is no copy
    a_, b_, c_ = add(0, cam(1, 5, 100)), add(1, cam(2, 5, 200)), add(2, cam(3, 6, 300))
    out.append({"json_only": True, "ops": [a_, b_, list(b_), c_] + q + [["delv", 1]] + q + [["delv", 3]] + q + [["delv", 2]] + q
                + [["delv", 2]] + q})
    out.append({"json_only": True, "ops": [b_, list(b_), list(b_)] + q + [["delk", 2, 0]] + q + [["delv", 1]] + q + [add(3, cam(4, 5, 400))]
                + q + [["delv", 2]] + q + [["delv", 0]] + q})
    out.append({"json_only": True, "ops": [a_, b_, list(b_), list(b_)] + [["updk", 2, 1, L.ser(cam(9, 5, 999))]] + q + [["delv", 2]] + q
                + [list(b_)] + q + [["delv", 1]] + q})
    # (e) round 6: HETEROGENEOUS selections ordered by PLAIN attribute names that sit at different paths in the selected
    #     message types (generationDeltaTime: cam.* / vam.*; stationType: cam.camParameters.basicContainer.* /
    #     vam.vamParameters.basicContainer.* / denm.management.*): every selected object HAS the attribute, with comparable
    #     values, so the order is defined and the request must answer - with the first stored object of each type in turn
    def gdt(d, g, stype=None):
        kind = "cam" if "cam" in d else "vam" if "vam" in d else "denm"
        if g is not None:
            d[kind]["generationDeltaTime"] = g
        if stype is not None:
            (d["denm"]["management"] if kind == "denm" else d[kind][kind + "Parameters"]["basicContainer"])["stationType"] = stype
        return d
    mixed = [gdt(cam(1, 5, 100), 5), gdt(vam(2), 1, 12), gdt(cam(3, 8, 300), 8), gdt(denm(4), None, 15), gdt(vam(5), 2, 2),
             gdt(denm(6, 3, "accident"), None, 3), gdt(cam(7, 6, 200), 6), gdt(vam(8, "ordinary"), 8, 5)]
    for rot in (0, 1, 3):
        store = mixed[rot:] + mixed[:rot]
        reqs = []
        for types in ([2, 16], [1, 2], [1, 16], [1, 2, 16], [2], [16], [1]):
            for keys in ([["stationType", "a"]], [["stationType", "d"]], [["stationType", "a"], ["stationId", "d"]],
                         [["stationId", "d"], ["stationType", "a"]], [["stationType", "d"], ["header.stationId", "a"]],
                         [["timestamp", "d"], ["stationType", "a"]]):
                reqs.append(["req", 2, types, None, {"kind": "U", "keys": keys}, None])
            reqs.append(["req", 2, types, None, {"kind": "L", "keys": [["stationType", "a"]]}, [[sp, "gt", L.ser(2)]]])
            if 1 not in types:
                for keys in ([["generationDeltaTime", "a"]], [["generationDeltaTime", "d"]],
                             [["generationDeltaTime", "d"], ["stationType", "a"]], [["stationType", "d"], ["generationDeltaTime", "a"]]):
                    reqs.append(["req", 2, types, None, {"kind": "U", "keys": keys}, None])
        out.append({"json_only": True, "ops": [add(k, o) for k, o in enumerate(store)] + reqs})
    return out


PRE = [["regp", 1, [1]], ["regp", 2, [2]], ["regp", 16, [16]], ["regc", 2, [2]]]


def is_legacy_order(order):
    return order not in (None, "!") and any("." not in a for a, _ in order["keys"])


def judge_request(req, line, stored, backend):
    """compare one real answer with the specification evaluated on the real store content"""
    _, app, types, prio, order, flt = req
    if flt not in (None, "!") and len(flt) == 3 and flt[1] == "?":
        return []                                     # outside the property (see ASSUMPTIONS)
    head, recs, _ = L.split_line(line)
    kind, want = spec_query(stored, set(types), flt, order)
    if kind == "order-undefined":
        if is_legacy_order(order):
            return []                                 # plain name missing / of mixed type somewhere: model-vs-code only
        if head[0] == "x":
            return [(f"{backend}: ordering by an attribute missing / of mixed type in the selection raised {head[1]}", "C13-KF2")]
        return []
    if head[0] != "ok":
        if order not in (None, "!") and order["keys"]:
            sel = [d for d in stored if type_of(d["dataObject"]) in set(types) and spec_matches(flt, d["dataObject"])]
            vals = [[order_value(d, a) for a, _ in order["keys"]] for d in sel]
            return [(f"{backend}: request over types {types} ordered by {order['keys']}: every selected object has the order "
                     f"attribute(s) with comparable values ({[(type_name(d['dataObject']), v) for d, v in zip(sel, vals)][:8]}) "
                     f"but the request answered {head[:2]} instead of the {len(want)} objects in that order", None)]
        return [(f"{backend}: query answered {head[:2]} instead of data", None)]
    want_tok = [L.ser_record(d) for d in want]
    if recs == want_tok:
        return []
    if sorted(recs) == sorted(want_tok):
        return [(f"{backend}: right objects in the wrong order (order={order})", None)]
    return [(f"{backend}: returned {len(recs)} objects, the specification selects {len(want_tok)} "
             f"(types={types}, filter={flt_text(flt)})", None)]


def flt_text(flt):
    if flt in (None, "!"):
        return str(flt)
    def st(s):
        try:
            return f"{s[0]} {s[1]} {L.deser(s[2])!r}"
        except Exception:
            return str(s)
    return st(flt[0]) if len(flt) == 1 else f"{st(flt[0])} {flt[1]} {st(flt[2])}"


class RefStore:
    """the stored objects as the history of operations determines them (added and not deleted; an update replaces the
    message of a live object when the type stays the same).  Exact as long as no time passes (`exact`); histories with
    clock advances / maintenance passes are left to the model correspondence, the side-by-side comparison and C12."""

    def __init__(self):
        self.rows = []          # [k, app, ts, validity, obj]
        self.n = 0
        self.exact = True

    def add(self, op, ok):
        _, app, ts, loc, validity, objser = op
        if ok:
            self.rows.append([self.n, app, ts, validity, L.deser(objser), dict(loc)])
        self.n += 1

    def delete_value(self, op, json_image=False):
        """removal by value: the FIRST stored container equal to the one the add `op` stored goes - one copy, not all
        (equal as the back-end sees its content: modulo JSON on TinyDB)"""
        _, app, ts, loc, validity, objser = op
        img = to_json_image if json_image else (lambda x: x)
        obj = img(L.deser(objser))
        for j, r in enumerate(self.rows):
            if r[1] == app and r[2] == ts and r[3] == validity and r[5] == dict(loc) and img(r[4]) == obj:
                del self.rows[j]
                return

    def delete(self, k):
        self.rows = [r for r in self.rows if r[0] != k]

    def update(self, k, objser):
        new = L.deser(objser)
        for r in self.rows:
            if r[0] == k and type_name(r[4]) == type_name(new):
                r[4] = new

    def tokens(self, json_image):
        return [record_key(app, ts, validity, obj, json_image) for _, app, ts, validity, obj, _loc in self.rows]


def type_name(obj):
    t = type_of(obj)
    return next((k for k in obj if t is not None and type_of({k: 0}) == t), "")


def to_json_image(o):
    if isinstance(o, (list, tuple)):
        return [to_json_image(x) for x in o]
    if isinstance(o, dict):
        return {k: to_json_image(v) for k, v in o.items()}
    return o


def record_key(app, ts, validity, obj, json_image):
    return f"{int(app)} {int(ts)} {int(validity)} " + L.ser(to_json_image(obj) if json_image else obj)


def stored_keys(stored, json_image):
    return [record_key(d["application_id"], d["timestamp"], d["timeValidity"], d["dataObject"], json_image) for d in stored]


def run_case(ctx, case, tag, model_dict=None, model_tiny=None):
    """run the history on a Dictionary facility (and a TinyDB one when storable), judge every request on both"""
    backends = ["Dictionary"] + (["TinyDB"] if case["json_only"] else [])
    # every operation its own object: `replay_case` finds the judged operation by identity (the boundary families repeat
    # the same request lists)
    case = {"json_only": case["json_only"], "ops": [list(op) for op in case_ops(case)]}
    ops = case_ops(case)
    reqs = [op for op in ops if op[0] == "req"]
    answers, waivers = {}, {}
    for be in backends:
        with L.RealLdm(CFG, be) as r:
            for op in PRE:
                r.apply(op)
            ids, ref, lines, wv, addops = [], RefStore(), [], [], []
            for op in ops:
                n = op[0]
                if n == "add":
                    ln = r.apply(op)
                    ok = ln.startswith("c ") and int(ln.split(" ")[1]) >= 0
                    ids.append(int(ln.split(" ")[1]) if ok else None)
                    addops.append(op)
                    ref.add(op, ok)
                    if ln.startswith("x "):
                        fid = "C13-KF1" if (be == "TinyDB" and has_bytes(L.deser(op[5]))) else None
                        ctx.violation(f"{tag}: {be}: add raised {ln[2:]}", replay_case(case, op), fid)
                    ctx.cover("hist_add")
                    continue
                if n in ("delk", "updk"):
                    k = op[2]
                    rid = ids[k] if (k < len(ids) and ids[k] is not None) else 987654
                    ln = r.apply(["del", op[1], rid] if n == "delk" else ["upd", op[1], rid, op[3]])
                    if ln.startswith("x "):
                        ctx.violation(f"{tag}: {be}: {n} raised {ln[2:]}", replay_case(case, op))
                    elif ln == "c 0":
                        ref.delete(k) if n == "delk" else ref.update(k, op[3])
                    ctx.cover(f"hist_{n}:{ln}")
                    continue
                if n == "delv":
                    if op[1] < len(addops):
                        src = addops[op[1]]
                        ln = r.apply(["delv"] + list(src[1:]))
                        if ln.startswith("x "):
                            ctx.violation(f"{tag}: {be}: removal by value (del_provider_data) raised {ln[2:]}", replay_case(case, op))
                        elif ids[op[1]] is not None:
                            ref.delete_value(src, be == "TinyDB")
                        copies = sum(1 for a in addops if a[1:] == src[1:])
                        ctx.cover("hist_delv:" + ("several_equal_added" if copies > 1 else "single"))
                    continue
                if n in ("adv", "gc"):
                    r.apply(op)
                    ref.exact = False
                    ctx.cover(f"hist_{n}")
                    continue
                req = op
                stored = r.stored()
                if ref.exact:
                    want, got = ref.tokens(be == "TinyDB"), stored_keys(stored, be == "TinyDB")
                    if want != got:
                        ctx.violation(f"{tag}: {be}: the store holds {len(got)} objects, the history of operations (added and "
                                      f"not deleted) leaves {len(want)}: "
                                      f"{'an object is missing' if len(got) < len(want) else 'content differs'}",
                                      replay_case(case, req))
                    ctx.cover("store_judged")
                ln = r.apply(req)
                lines.append(ln)
                ctx.evals()
                for what, fid in judge_request(req, ln, stored, be):
                    ctx.violation(f"{tag}: {what}", replay_case(case, req), fid)
                wv.append(waiver_flags(req, stored))
                if is_legacy_order(req[4]):
                    try:
                        fl = req[5] if not (req[5] == "!" or (req[5] and len(req[5]) == 3 and req[5][1] == "?")) else None
                        sel = spec_query(stored, set(req[2]), fl, None)[1]
                        defined = spec_query(stored, set(req[2]), fl, req[4])[0] == "ok"
                        hetero = len({type_of(d["dataObject"]) for d in sel}) > 1
                        ctx.cover(f"plain_order:{'defined' if defined else 'undefined'}:"
                                  f"{'several_types' if hetero else 'one_type' if sel else 'empty'}")
                    except Exception:
                        pass
                hd = ln.split(" ")[0]
                nrec = ln.count("{")
                ctx.cover(f"{be}:{hd}")
                flt = req[5]
                if flt not in (None, "!"):
                    for st in ([flt[0]] if len(flt) == 1 else [flt[0], flt[2]]):
                        ctx.cover("op_" + st[1])
                        ctx.cover("op_on_missing_attribute" if any(spec_lookup(d["dataObject"], st[0]) is MISSING for d in stored)
                                  else "op_on_present_attribute")
                    ctx.cover("filter_" + ("1" if len(flt) == 1 else {"&": "and", "|": "or", "?": "none"}[flt[1]]))
                ctx.cover("selected_" + ("0" if nrec == 0 else "some" if nrec < len(stored) else "all"))
                ctx.nontrivial((be, hd, min(nrec, 6), None if flt in (None, "!") else tuple(st[1] for st in flt if isinstance(st, list)),
                                req[4] is not None))
            answers[be], waivers[be] = lines, wv
    if "TinyDB" in answers:
        for req, a, b in zip(reqs, answers["Dictionary"], answers["TinyDB"]):
            if req[5] not in (None, "!") and len(req[5]) == 3 and req[5][1] == "?":
                continue
            ha, ra, _ = L.split_line(a)
            hb, rb, _ = L.split_line(b)
            if ha[0] != hb[0] or [canon_json(t) for t in ra] != [canon_json(t) for t in rb]:
                fid = "C13-KF3" if ref_has_seq(req[5]) else None
                ctx.violation(f"{tag}: back-ends disagree: Dictionary {ha[0]}/{len(ra)} objects, TinyDB {hb[0]}/{len(rb)} "
                              f"(filter={flt_text(req[5])}, order={req[4]})", replay_case(case, req), fid)
            ctx.cover("side_by_side")
    for be, mo in (("Dictionary", model_dict), ("TinyDB", model_tiny)):
        if mo is not None and be in answers:
            for req, a, b, (kf2, kf3) in zip(reqs, answers[be], mo, waivers[be]):
                if a == b:
                    continue
                if kf2 and b == "x TypeError" and a.startswith("ok"):
                    # exactly C13-KF2's signature: an order whose attribute is missing / of mixed type in the selection;
                    # the model mirrors the TypeError, code that answers has been repaired there
                    ctx.cover("kf2_repaired_variant_skips")
                    continue
                if kf3 and be == "TinyDB" and a.startswith("ok") and b.startswith("ok"):
                    # exactly C13-KF3's signature: a list/tuple reference value compared with a stored list/tuple
                    ctx.cover("kf3_repaired_variant_skips")
                    continue
                ctx.mismatch(f"ldm.query.{be}", replay_case(case, req), a[:300], b[:300])
                break
    return answers


def waiver_flags(req, stored):
    """(kf2, kf3): does the request fall under the exact signature of known finding C13-KF2 / C13-KF3 on this store?"""
    _, app, types, prio, order, flt = req
    kf2 = kf3 = False
    try:
        if order not in (None, "!") and order["keys"] and not is_legacy_order(order):
            kf2 = spec_query(stored, set(types), None if flt == "!" else (flt if not (flt and len(flt) == 3 and flt[1] == "?") else None),
                             order)[0] == "order-undefined"
        if ref_has_seq(flt):
            for st in (s_ for s_ in flt if isinstance(s_, list)):
                if has_seq(L.deser(st[2])) and any(isinstance(spec_lookup(d["dataObject"], st[0]), (list, tuple)) for d in stored):
                    kf3 = True
    except Exception:
        pass
    return kf2, kf3


def replay_case(case, upto):
    """the history up to and including operation `upto`, without the other requests"""
    ops = case_ops(case)
    if upto is None:
        return {"kind": "query", "json_only": case["json_only"], "ops": ops}
    idx = next((i for i, op in enumerate(ops) if op is upto), len(ops) - 1)
    keep = [op for i, op in enumerate(ops[:idx + 1]) if op[0] != "req" or i == idx]
    return {"kind": "query", "json_only": case["json_only"], "ops": keep}


def model_lines(ctx, cases, variants):
    """per case: (answers of the `req` lines, answers of the `treq` lines), in request order"""
    if not ctx.model_ok:
        return [(None, None)] * len(cases)
    lines, spans = [], []
    for c in cases:
        lines.append(L.init_line(CFG, variants))
        lines += [L.op_line(op) for op in PRE]
        ia, ib, addops = [], [], []
        for op in case_ops(c):
            if op[0] == "add":
                addops.append(op)
            if op[0] == "delv":
                if op[1] < len(addops):
                    lines.append(L.op_line(["delv"] + list(addops[op[1]][1:])))
            elif op[0] == "req":
                ia.append(len(lines))
                lines.append(L.op_line(op))
                ib.append(len(lines))
                lines.append(L.op_line(["treq"] + op[1:]))
            elif op[0] == "delk":
                lines.append(L.op_line(["del", op[1], op[2]]))
            elif op[0] == "updk":
                lines.append(L.op_line(["upd", op[1], op[2], op[3]]))
            else:
                lines.append(L.op_line(op))
        spans.append((ia, ib))
    out = ctx.model("Ldm", lines)
    if any(o == "bad-op" for o in out):
        k = next(i for i, o in enumerate(out) if o == "bad-op")
        raise Infra(f"model driver rejected line: {lines[k][:300]}")
    return [([out[i] for i in ia], [out[i] for i in ib]) for ia, ib in spans]


# ------------------------------------------------------------------------------------ several threads on the in-memory back-end

_DBR = {}


def dbrace_env():
    if not _DBR:
        import flexstack.facilities.local_dynamic_map.dictionary_database as db_mod
        codes = [f.__code__ for f in vars(db_mod.DictionaryDataBase).values() if hasattr(f, "__code__")]
        _DBR.update(mod=db_mod, files=[db_mod.__file__], codes=codes)
    return _DBR


def tinyrace_env():
    """round 5: the TinyDB back-end under threads.  Traced at opcode granularity: every method of the back-end class AND
    tinydb's JSONStorage.read / write - the storage shares ONE file handle between reads and writes and rewrites the file
    in place (seek(0), write, flush, fsync, truncate), so the points between these calls are where a read that is not
    inside the back-end's lock section sees a half-written file"""
    if not _TDR:
        import flexstack.facilities.local_dynamic_map.tinydb_database as t_mod
        import tinydb.storages as st
        codes = [f.__code__ for f in vars(t_mod.TinyDB).values() if hasattr(f, "__code__")]
        codes += [st.JSONStorage.read.__code__, st.JSONStorage.write.__code__]
        _TDR.update(mod=t_mod, files=[t_mod.__file__], codes=codes)
    return _TDR


_TDR = {}


def rec(sid, g):
    """a stored data container as IF.LDM.3 builds it (the fields the back-end looks at)"""
    return {"application_id": 2, "timestamp": 1000 + g, "dataObject": {"header": {"stationId": sid}, "cam": {"generationDeltaTime": g}}}


def rec_key(d):
    return (d["dataObject"]["header"]["stationId"], d["dataObject"]["cam"]["generationDeltaTime"])


class RefDb:
    """the in-memory store as a history of calls determines it (written from the interface: ids are issued in insertion
    order and never reused, update stores under the id, remove deletes the first stored object equal to the argument,
    remove_by_id deletes the id, search returns the stored objects of the station in store order)"""

    def __init__(self, rows, first=0):
        self.rows = [(i + first, r) for i, r in enumerate(rows)]
        self.next = len(rows) + first
        self.undefined = False          # a call whose outcome the interface leaves open was made (update of an absent id)

    def call(self, c):
        n = c[0]
        if n == "insert":
            self.rows.append((self.next, tuple(c[1])))
            self.next += 1
            return self.next - 1
        if n == "update":
            for j, (k, _) in enumerate(self.rows):
                if k == c[1]:
                    self.rows[j] = (k, tuple(c[2]))
                    break
            else:
                self.undefined = True   # the two back-ends differ here (upsert / KeyError); IF.LDM.3 checks `exists` first
                self.rows.append((c[1], tuple(c[2])))
            return True
        if n == "remove":
            for j, (k, v) in enumerate(self.rows):
                if v == tuple(c[1]):
                    del self.rows[j]
                    return True
            return False
        if n == "remove_by_id":
            hit = any(k == c[1] for k, _ in self.rows)
            self.rows = [(k, v) for k, v in self.rows if k != c[1]]
            return hit
        if n == "search":
            return [v for _, v in self.rows if v[0] == c[1]]
        if n == "all":
            return [v for _, v in self.rows]
        raise Infra(f"dbrace call {n}")


def interleavings(threads):
    """all merges of the threads' call lists that keep every thread's own order: [(thread, index), ...]"""
    out = []

    def go(pos, acc):
        if all(p == len(t) for p, t in zip(pos, threads)):
            out.append(list(acc))
            return
        for u, t in enumerate(threads):
            if pos[u] < len(t):
                pos[u] += 1
                acc.append((u, pos[u] - 1))
                go(pos, acc)
                acc.pop()
                pos[u] -= 1
    go([0] * len(threads), [])
    return out


def backend_of(sc):
    return sc.get("backend", "Dictionary")


def serial_outcomes(sc):
    outs = []
    for order in interleavings(sc["threads"]):
        ref = RefDb([tuple(r) for r in sc["rows"]], 1 if backend_of(sc) == "TinyDB" else 0)     # document ids start at 1
        res = {}
        for u, i in order:
            res[(u, i)] = ref.call(sc["threads"][u][i])
        outs.append((sorted(res.items()), list(ref.rows), order))
    return outs


class DbRace:
    """2-3 REAL threads, each issuing its calls on ONE real back-end object, under harness/dsched.py (its RLock replaced
    by the scheduler's, every method of the class traced at opcode granularity).  Back-end: DictionaryDataBase, or
    (scenario["backend"] == "TinyDB", round 5) a real TinyDB on a JSON file in a temp dir (removed afterwards), with
    tinydb's JSONStorage.read / write traced as well.  Outcome = every call's result and the final store (ids and objects
    in store order; for TinyDB read back from the file after the run - a file that can no longer be read is an outcome)."""

    def __init__(self, sc, policy):
        import dsched
        import realstack as rs
        from flexstack.facilities.local_dynamic_map import ldm_classes as K
        tiny = backend_of(sc) == "TinyDB"
        env = tinyrace_env() if tiny else dbrace_env()
        self.sc = sc
        tmp = None
        db = None
        try:
            with dsched.patched([env["mod"]]):
                if tiny:
                    import tempfile
                    tmp = tempfile.mkdtemp(prefix="verif_c13_")
                    with rs.quiet():
                        db = env["mod"].TinyDB("race.json", tmp)
                else:
                    db = env["mod"].DictionaryDataBase()
                for r in sc["rows"]:
                    db.insert(rec(*r))
                sched = dsched.DSched(policy, line_files=env["files"], opcode_codes=env["codes"], max_steps=40000)
                self.s = sched
                res = {}

                def do(c):
                    n = c[0]
                    if n == "insert":
                        return db.insert(rec(*c[1]))
                    if n == "update":
                        return db.update(rec(*c[2]), c[1])
                    if n == "remove":
                        return db.remove(rec(*c[1]))
                    if n == "remove_by_id":
                        return db.remove_by_id(c[1])
                    if n == "search":
                        flt = K.Filter(K.FilterStatement("header.stationId", K.ComparisonOperators.EQUAL, c[1]))
                        return [rec_key(d) for d in db.search(K.RequestDataObjectsReq(2, (2,), None, None, flt))]
                    if n == "all":
                        return [rec_key(d) for d in db.all()]
                    raise Infra(f"dbrace call {n}")

                def body(u):
                    def run_thread():
                        for i, c in enumerate(sc["threads"][u]):
                            res[(u, i)] = do(c)
                    return run_thread
                for u in range(len(sc["threads"])):
                    sched.spawn(body(u), name=f"t{u}")
                with rs.quiet():
                    sched.run(timeout=30.0)
                self.results = sorted(res.items())
                if tiny:
                    try:
                        self.final = [(d.doc_id, rec_key(d)) for d in db.database.all()]
                    except Exception as e:      # noqa: BLE001 - a store that cannot be read any more IS the observation
                        self.final = f"unreadable: reading the store raises {type(e).__name__} ({str(e)[:60]})"
                else:
                    self.final = [(k, rec_key(v)) for k, v in db.database.items()]
        finally:
            if tmp is not None:
                import shutil
                try:
                    db.database.close()
                except Exception:               # noqa: BLE001
                    pass
                shutil.rmtree(tmp, ignore_errors=True)
        self.steps = sched.steps
        self.choices = [c[0] for c in sched.steps]

    def judge(self):
        s = self.s
        if s.abort_reason == "deadlock":
            return [f"deadlock: {s.deadlock}"]
        if s.abort_reason:
            raise Infra(f"scheduler aborted: {s.abort_reason}")
        bad = [f"{t.name} raised {type(t.exc).__name__}: {str(t.exc)[:80]}" for t in s.threads if t.exc is not None]
        serial = serial_outcomes(self.sc)
        calls = "; ".join(f"t{u}:{' '.join(call_text(c) for c in t)}" for u, t in enumerate(self.sc["threads"]))
        name = "TinyDB" if backend_of(self.sc) == "TinyDB" else "in-memory"
        if bad:
            return [f"concurrent calls [{calls}] on the {name} back-end: {'; '.join(bad)}; final store {self.final} - every "
                    f"sequential order of the same calls answers every call"]
        if not any(res == self.results and rows == self.final for res, rows, _ in serial):
            got = ", ".join(f"t{u}.{i}={r}" for (u, i), r in self.results)
            stores = sorted({str(rows) for _, rows, _ in serial})
            bad.append(f"concurrent calls [{calls}] on the {name} back-end: results {got}, final store {self.final} - "
                       f"no sequential order of the same calls gives this (the {len(serial)} orders leave {' or '.join(stores)})")
        return bad


def call_text(c):
    return c[0] + "(" + ",".join(str(x) for x in c[1:]) + ")"


OLD, FRESH = [7, 100], [7, 200]
DBRACE_ROWS = [[1, 100], OLD, [9, 100]]
DBRACE_SCENARIOS = [
    {"rows": DBRACE_ROWS, "threads": [[["remove", OLD]], [["update", 1, FRESH]]]},          # maintenance removes the old version
    {"rows": DBRACE_ROWS, "threads": [[["remove", OLD]], [["insert", [5, 100]]]]},
    {"rows": DBRACE_ROWS, "threads": [[["remove", OLD]], [["remove_by_id", 1]]]},
    {"rows": DBRACE_ROWS, "threads": [[["remove", OLD]], [["remove", OLD]]]},
    {"rows": DBRACE_ROWS + [OLD], "threads": [[["remove", OLD]], [["remove_by_id", 1]]]},   # an equal object under another id
    {"rows": DBRACE_ROWS, "threads": [[["insert", [5, 100]]], [["insert", [6, 100]]]]},
    {"rows": DBRACE_ROWS, "threads": [[["update", 1, FRESH]], [["search", 7]]]},
    {"rows": DBRACE_ROWS, "threads": [[["remove", OLD], ["insert", [7, 300]]], [["search", 7]]]},
    {"rows": DBRACE_ROWS, "threads": [[["remove_by_id", 1]], [["update", 1, FRESH]]]},
    {"rows": DBRACE_ROWS, "threads": [[["remove", OLD]], [["update", 1, FRESH]], [["search", 7]]]},
]


# round 5: the TinyDB back-end (document ids from 1).  The writer's call SHRINKS the file in most scenarios (a removal, an
# update by a shorter record): the storage rewrites the file in place and truncates last.
TROWS = [[1, 100], [7, 100], [9, 100], [7, 300]]
TINYRACE_SCENARIOS = [
    {"backend": "TinyDB", "rows": TROWS, "threads": [[["remove_by_id", 2]], [["search", 7]]]},
    {"backend": "TinyDB", "rows": TROWS, "threads": [[["remove", [7, 100]]], [["all"]]]},
    {"backend": "TinyDB", "rows": [[1, 100], [7, 100000], [9, 100]], "threads": [[["update", 2, [7, 1]]], [["search", 7]]]},
    {"backend": "TinyDB", "rows": TROWS, "threads": [[["insert", [5, 100]]], [["search", 7]]]},
    {"backend": "TinyDB", "rows": TROWS + [[7, 100]], "threads": [[["remove", [7, 100]]], [["remove_by_id", 2]]]},
    {"backend": "TinyDB", "rows": TROWS, "threads": [[["remove_by_id", 2], ["insert", [7, 500]]], [["search", 7], ["all"]]]},
]


def gen_tinyrace(rng):
    """a random scenario on the TinyDB back-end: ids from 1, no update of an id that may be absent when it runs"""
    for _ in range(50):
        sc = gen_dbrace(rng)
        sc["backend"] = "TinyDB"
        for t in sc["threads"]:
            for c in t:
                if c[0] in ("update", "remove_by_id"):
                    c[1] += 1
        undefined = False
        for order in interleavings(sc["threads"]):
            ref = RefDb([tuple(r) for r in sc["rows"]], 1)
            for u, i in order:
                ref.call(sc["threads"][u][i])
            undefined = undefined or ref.undefined
        if not undefined:
            return sc
    return dict(TINYRACE_SCENARIOS[0])


def gen_dbrace(rng):
    pool = [[1, 100], [7, 100], [7, 200], [9, 100], [5, 100]]
    rows = [list(rng.choice(pool)) for _ in range(rng.randrange(1, 5))]
    ids = list(range(len(rows) + 2))

    def call():
        x = rng.random()
        if x < 0.25:
            return ["remove", list(rng.choice(rows + pool[:2]))]
        if x < 0.50:
            return ["update", rng.randrange(len(rows)), list(rng.choice(pool))]     # an id that has been issued (IF.LDM.3 checks)
        if x < 0.65:
            return ["insert", list(rng.choice(pool))]
        if x < 0.80:
            return ["remove_by_id", rng.choice(ids)]
        if x < 0.95:
            return ["search", rng.choice([1, 7, 9])]
        return ["all"]
    nthreads = rng.choice([2, 2, 2, 3])
    threads = [[call() for _ in range(1 if nthreads == 3 else rng.choice([1, 1, 2]))] for _ in range(nthreads)]
    if not any(c[0] in ("remove", "update", "remove_by_id", "insert") for t in threads for c in t):
        threads[0][0] = ["remove", list(rows[0])]
    return {"rows": rows, "threads": threads}


def dbrace_explore(ctx, scenarios, cap1, cap2, n_pct, tag):
    """per scenario: ALL schedules with at most one pre-emption (a whole call of the other thread between any two steps of a
    call - in particular before every lock acquisition), a sample with two, and some PCT runs; judged against the set of
    sequential outcomes"""
    import dsched
    for k, sc in enumerate(scenarios):
        def handle(run, sc=sc, k=k):
            ctx.evals()
            ctx.cover("dbrace_runs" if backend_of(sc) != "TinyDB" else "tinyrace_runs")
            ctx.cover("dbrace_preemptions_%d" % min(dsched.preemptions(run.steps), 3))
            ctx.nontrivial(("dbrace", tuple(c[0] for t in sc["threads"] for c in t), str(run.results), str(run.final)))
            for what in run.judge():
                ctx.violation(f"{tag}:{k}: {what}", {"kind": "dbrace", "scenario": sc, "schedule": run.choices})
            return run

        def once(prefix):
            return handle(DbRace(sc, dsched.Replay(prefix))).steps
        _, exhausted = dsched.enumerate_schedules(once, 1, cap1, None)
        if exhausted:
            ctx.cover("dbrace_exhausted_bound_1")
        if cap2:
            dsched.enumerate_schedules(once, 2, cap2, ctx.rng)
        for i in range(n_pct):
            handle(DbRace(sc, dsched.PCT(ctx.rng, depth=2 + i % 2, est_steps=120)))
        if len(ctx.violations) >= 3:
            return



def kf1_witness(ctx):
    """TinyDB and bytes: run the witness every time (variant detection: repaired code passes silently)"""
    obj = {"header": {"stationId": 1}, "cam": {"generationDeltaTime": 1, "exteriorLights": (b"\x80", 8)}}
    with L.RealLdm(CFG, "TinyDB") as r:
        for op in PRE:
            r.apply(op)
        ln = r.apply(["add", 2, L.now_its(L.UTC0_MS), FAR, 1000, L.ser(obj)])
    if ln.startswith("x "):
        ctx.violation(f"TinyDB: add of a message with a BIT STRING value raised {ln[2:]}",
                      {"kind": "tinydb-bytes"}, "C13-KF1")
    ctx.extra.setdefault("variant", {})["C13-KF1"] = "TinyDB rejects bytes (code as is)" if ln.startswith("x ") else "bytes storable"


def corpus_cases():
    return [(n, c) for n, c in corpus("C13") if c.get("kind") == "query"]


def as_case(c):
    return {"json_only": c["json_only"], "ops": case_ops(c)}


def run(ctx):
    ctx.extra["rule"] = ("one evaluation = one request through IF.LDM.4 on a real facility after a history of add / delete / "
                         "update / expiry operations, judged by the brute-force specification on the real store content (and "
                         "the store content by the history); distinct_nontrivial counts distinct (back-end, outcome, result "
                         "size, operators, ordered?) tuples")
    import props.c12 as c12
    variants = c12.detect_variants()
    kf1_witness(ctx)
    pool = message_pool(ctx, ctx.scale(18, 60))
    cases = [("corpus:" + n, as_case(c)) for n, c in corpus_cases()]
    ctx.cover("corpus_cases", len(cases))
    cases += [(f"boundary:{i}", c) for i, c in enumerate(boundary_cases())]
    for i in range(ctx.scale(230, 6000)):
        cases.append((f"random:{i}", gen_case(ctx.rng, pool)))
    chunk = 200
    for a in range(0, len(cases), chunk):
        part = cases[a:a + chunk]
        mos = model_lines(ctx, [c for _, c in part], variants)
        for (tag, c), (md, mt) in zip(part, mos):
            run_case(ctx, c, tag, md, mt)
    for n, c in corpus("C13"):
        if c.get("kind") == "dbrace":
            import dsched
            r = DbRace(c["scenario"], dsched.Replay(c.get("schedule", [])))
            ctx.evals()
            ctx.cover("corpus_dbrace")
            for what in r.judge():
                ctx.violation(f"corpus:{n}: {what}", {"kind": "dbrace", "scenario": c["scenario"], "schedule": c.get("schedule", [])})
    dbrace_explore(ctx, DBRACE_SCENARIOS, ctx.scale(300, 2000), ctx.scale(12, 600), ctx.scale(3, 60), "threads")
    dbrace_explore(ctx, TINYRACE_SCENARIOS, ctx.scale(400, 3000), ctx.scale(6, 400), ctx.scale(2, 40), "threads:tinydb")
    if ctx.thorough:
        dbrace_explore(ctx, [gen_dbrace(ctx.rng) for _ in range(150)], 400, 60, 6, "threads:random")
        dbrace_explore(ctx, [gen_tinyrace(ctx.rng) for _ in range(60)], 500, 40, 4, "threads:tinydb:random")
    if cases:
        c = cases[-1][1]
        ops = case_ops(c)
        ctx.sample("query", {"history": [op[0] for op in ops if op[0] != "req"][:20], "json_only": c["json_only"],
                             "requests": [[r[2], r[4], flt_text(r[5])] for r in ops if r[0] == "req"][:4]})


def search(ctx):
    dbrace_explore(ctx, DBRACE_SCENARIOS, ctx.scale(600, 6000), ctx.scale(200, 3000), ctx.scale(20, 200), "search:threads")
    if len(ctx.violations) < 3:
        dbrace_explore(ctx, TINYRACE_SCENARIOS, ctx.scale(800, 6000), ctx.scale(100, 2000), ctx.scale(10, 100), "search:threads:tinydb")
    if len(ctx.violations) < 3:
        dbrace_explore(ctx, [gen_dbrace(ctx.rng) for _ in range(ctx.scale(40, 600))], 300, 40, 4, "search:threads:random")
    if len(ctx.violations) < 3:
        dbrace_explore(ctx, [gen_tinyrace(ctx.rng) for _ in range(ctx.scale(12, 200))], 500, 30, 3, "search:threads:tinydb:random")
    if len(ctx.violations) >= 3:
        return
    pool = message_pool(ctx, 24)
    for i, c in enumerate(boundary_cases()):
        run_case(ctx, c, f"search:boundary:{i}")
    for i in range(ctx.scale(700, 18000)):
        if len(ctx.violations) >= 3:
            break
        run_case(ctx, gen_case(ctx.rng, pool), f"search:{i}")


def replay(ctx, obj):
    case = obj.get("case", obj)
    if case.get("kind") == "tinydb-bytes":
        kf1_witness(ctx)
        return bool(ctx.known_seen or ctx.violations)
    if case.get("kind") == "dbrace":
        import dsched
        r = DbRace(case["scenario"], dsched.Replay(case.get("schedule", [])))
        bad = r.judge()
        print(f"  threads: {[[call_text(c) for c in t] for t in case['scenario']['threads']]} on rows {case['scenario']['rows']}")
        print(f"  schedule of {len(case.get('schedule', []))} choices -> results {r.results}, final store {r.final}")
        for what in bad:
            print("  VIOLATED:", what[:400])
        return bool(bad)
    if case.get("kind") != "query":
        raise Infra(f"unknown replay kind {case.get('kind')}")
    n0 = len(ctx.violations) + sum(v["count"] for v in ctx.known_seen.values())
    c = as_case(case)
    ans = run_case(ctx, c, "replay")
    print("  history:", " ".join(op[0] + (f"({op[2]})" if op[0] in ("delk", "updk") else f"({op[1]})" if op[0] == "delv" else "")
                                 for op in c["ops"] if op[0] != "req"))
    for be, lines in ans.items():
        for req, ln in zip([op for op in c["ops"] if op[0] == "req"], lines):
            print(f"  {be}: types={req[2]} order={req[4]} filter={flt_text(req[5])} -> {ln.split(' ')[0]} {ln.count('{')} objects")
    for v in ctx.violations:
        print("  VIOLATED:", v["what"][:300])
    for k, v in ctx.known_seen.items():
        print(f"  VIOLATED [{k}]:", v["what"][:300])
    return len(ctx.violations) + sum(v["count"] for v in ctx.known_seen.values()) > n0

"""C03 — Secured packets are delivered only if authentic and untampered.

Theorems: lean/Props/C03.lean about lean/FlexModel/Sec/Verify.lean (`verifyMsg`, router `gate`) on top of C09's store.
Tie: real Routers (security ENABLED/DISABLED, with/without VerifyService) with real VerifyService / CertificateLibrary /
ECDSA receive genuine secured packets produced by real sender Routers and their mutants (bit flips, byte substitution,
truncation, extension, field-level mutations re-encoded, attacker signatures and chains, unknown digests, malleated
signatures, unsecured twins, replays) in random orders.  Each frame is parsed independently of the verify path and
abstracted to the model's `Msg`; gate outcome, report code and the whole station state are compared after every frame.
Oracle (independent: `ecdsa` + own OER coder): anything handed to process_common_header / the indication callback must
come from a SECURED frame whose signature verifies over the re-encoded ToBeSignedData under the key of a ticket that
was seen (pre-loaded or carried in some received frame) and chains to the configured roots, and the delivered bytes
must be exactly the signed payload (indication data: a suffix of it).
Concurrency (section "overlapping receive threads"): the model is a function of (station state, packet); the regenerated
fact Generated/SecWrites.lean + theorem `reentrancy_matches_source` tie that to the source (no instance state written by
VerifyService on the verification path).  In addition two real threads push one packet each (a genuine one and a
forged / tampered / second genuine one) through ONE station's process_basic_header -> VerifyService.verify under the
deterministic scheduler harness/dsched.py (pre-emption before every attribute / subscript / call bytecode of the
functions of verify_service.py and before every line of certificate_library.py), schedules enumerated up to a
pre-emption bound, then PCT.  Every run is judged by the oracle above per call (what call i hands up must be packet
i's own authentic payload) and must show the outcome of one of the two serial orders, which in turn must be what the
Lean model computes for that order.  A schedule exploration is NOT a proof: it supports the tie and finds inputs.
"""
from __future__ import annotations

import copy
import threading
import types

from common import Infra, corpus
import dsched
import realstack as rs
import sec_common as sc

import flexstack.geonet.router as router_mod
import flexstack.security.certificate_library as lib_mod
import flexstack.security.verify_service as vs_mod
from flexstack.security.ecdsa_backend import PythonECDSABackend

MODULES = ["Props.C03"]
DRIVERS = ["Sec"]
TRUSTED = [
    "modelled rather than verified: ECDSA P-256 / SHA-256 as a perfect signature relation (`sigBy`, found by public-key "
    "recovery with the `ecdsa` package), asn1tools OER codec (decode / re-encode of the signed structure)",
    "harness/sec_common.py: abstraction of frames to model packets, independent chain checker",
]
ASSUMPTIONS = [
    "ECDSA unforgeability; OER canonicity of ToBeSignedData (encode(decode(x)) is what was signed)",
    "signature malleability (s -> n-s) and trailing bytes after the OER structure leave signed content, signer and "
    "signature value semantics untouched: such frames count as authentic on both sides",
    "HashedId8 injective on the certificates of a history",
]

T0 = 1_700_000_000_000
N = sc.ORDER


class World:
    def __init__(self, rng):
        self.rng = rng
        p = self.pki = sc.PKI()
        now = self.now = sc.its_now_s(T0)
        live = dict(start=now - 1000, duration=("hours", 100))
        self.root = p.root("root", **live)
        self.aa = p.issue(self.root, "aa", issue=sc.split_groups([36, 37, 638, 99], rng, 1), **live)
        # appPermissions entries with and without Service Specific Permissions (authorisation is by ITS-AID)
        self.at1 = p.issue(self.aa, app=[36, 37, 638, 99], ssp=rng, **live)
        self.at2 = p.issue(self.aa, app=[36, 37], ssp=rng, **live)
        # the RECEIVER's own authorization ticket (held in own_certificates by some receiver configurations): its
        # digest is public -- it is in every packet the receiver sends -- so forged packets may name it as signer
        self.at_own = p.issue(self.aa, app=[36, 37, 638, 99], **live)
        self.eroot = p.root("evil-root", **live)
        self.eaa = p.issue(self.eroot, "evil-aa", issue=[sc.perm_all(1)], **live)
        self.eat = p.issue(self.eaa, app=[36, 37, 638, 99], **live)
        # a second self-made root that issues tickets DIRECTLY (chain root -> ticket): whatever makes a receiver file a
        # self-signed certificate with its roots makes packets under it verifiable at once
        self.eroot1 = p.root("evil-root-1", issue=[sc.perm_all(1)], **live)
        self.eat1 = p.issue(self.eroot1, app=[36, 37, 638, 99], **live)
        # forged ticket naming the genuine AA, signed by the attacker
        d, k = p.blank(sc.tbs(app=[36, 37], **live), ("sha256AndDigest", self.aa.as_hashedid8()))
        self.forged = p.raw(self.eat.key_id, d, self.aa, own_key_id=k)
        # expired material: a ticket whose validity ended a day ago, and a ticket under an authority that has expired
        # (the code checks the message's generationTime against the TICKET's validity only; nothing in the property
        # text demands more -- both are exercised so that the model's validity branch and the chain learning see them)
        self.at_exp = p.issue(self.aa, app=[36, 37, 638, 99], start=now - 100000, duration=("seconds", 3600))
        self.aa_exp = p.issue(self.root, "aa-expired", issue=[sc.perm_explicit([36, 37], 1)], start=now - 100000,
                              duration=("seconds", 3600))
        self.at_xaa = p.issue(self.aa_exp, app=[36, 37], **live)
        self.A = sc.Abs()
        self.A.register_backend(p.backend)
        for c in (self.root, self.aa, self.at1, self.at2, self.at_own, self.eroot, self.eaa, self.eat, self.forged,
                  self.at_exp, self.aa_exp, self.at_xaa, self.eroot1, self.eat1):
            self.A.cert(c.certificate)
        self.base = []       # (kind, frame)

    def make_base(self, clock, n):
        """genuine frames from two real sender Routers (CAM with certificate / digest, DENM, VAM, generic)"""
        s1 = sc.RouterStation(self.pki.backend, 1, [self.root], [self.aa], [], own=[self.at1])
        s2 = sc.RouterStation(self.pki.backend, 2, [self.root], [self.aa], [], own=[self.at2], lat=415000300, lon=21000300)
        # a third sender signing with the receiver's own ticket: what the medium hands back to a station (echo) or a
        # second unit of the same vehicle sends
        s3 = sc.RouterStation(self.pki.backend, 3, [self.root], [self.aa], [], own=[self.at_own], lat=415000200, lon=21000200)
        kinds = ["cam", "cam", "denm", "other", "vam", "cam"]
        for i in range(n):
            clock.advance(self.rng.choice([50, 100, 400, 1100]))
            snd = s3 if i % 5 == 4 else (s1 if (i % 3) else s2)
            kind = kinds[i % len(kinds)]
            if snd is s2 and kind in ("other", "vam"):
                kind = "cam"
            pl = bytes(self.rng.randrange(256) for _ in range(self.rng.choice([1, 8, 40])))
            fr = snd.send(kind, pl, clock.ms)
            if fr:
                self.base.append((kind, fr[0]))


# ------------------------------------------------------------------------------------------------ mutants


def reencode(sd):
    return sc.CODER.encode_etsi_ts_103097_data_signed({"protocolVersion": 3, "content": ("signedData", sd)})


def resign(w, sd, key_id):
    sd["signature"] = w.pki.backend.sign(sc.CODER.encode_to_be_signed_data(sd["tbsData"]), key_id)


def genuine_ticket_of(w, sd):
    """the genuine sender's ticket object (private key in the world's backend) that signed a base frame"""
    at_of = {sc.hid8(a.certificate): a for a in (w.at1, w.at2, w.at_own)}
    if sd["signer"][0] == "digest":
        return at_of.get(bytes(sd["signer"][1]))
    if sd["signer"][0] == "certificate" and sd["signer"][1]:
        return at_of.get(sc.hid8(sd["signer"][1][0]))
    return None


def with_requested_certificate(w, frame, cert):
    """a GENUINE packet (valid signature of a ticket of the trusted chain: a misbehaving or compromised insider) whose
    signed headerInfo carries `requestedCertificate = cert` -- the P2PCD field every receiver with a sign service reads
    after the packet verified.  None when the base frame cannot carry it (DENM profile) """
    sd = copy.deepcopy(sc.decode_signed(frame[4:])[0])
    at = genuine_ticket_of(w, sd)
    if at is None or sd["tbsData"]["headerInfo"].get("psid") == 37:
        return None
    sd["tbsData"]["headerInfo"]["requestedCertificate"] = copy.deepcopy(cert.certificate)
    resign(w, sd, at.key_id)
    return frame[:4] + reencode(sd)


def signed_under(w, frame, ticket, signer_kind, salt=0):
    """an attacker's packet: the payload of a genuine frame altered, signed with the key of `ticket` (a ticket of a
    self-made chain), naming it by certificate or by digest"""
    sd = copy.deepcopy(sc.decode_signed(frame[4:])[0])
    pl = bytearray(sd["tbsData"]["payload"]["data"]["content"][1])
    pl[-1] ^= 0x33 ^ (salt & 0x0F)
    sd["tbsData"]["payload"]["data"]["content"] = ("unsecuredData", bytes(pl))
    resign(w, sd, ticket.key_id)
    sd["signer"] = ("certificate", [ticket.certificate]) if signer_kind == "certificate" else ("digest", ticket.as_hashedid8())
    return frame[:4] + reencode(sd)


def with_trust_injection(rng, w, frames):
    """history class `trust-store injection`: somewhere in the sequence a genuine packet carries a CA certificate in
    requestedCertificate (a self-made root, a self-made AA, an expired / unknown / known authority, a ticket), and
    packets signed under the self-made chains arrive BEFORE and AFTER it.  Nothing received -- however genuine its
    carrier -- may extend the set of trusted roots (property: `root certificate configured as trusted`)"""
    out = list(frames)
    carriers = [f for _, f in w.base if with_requested_certificate(w, f, w.eroot1) is not None]
    if not carriers:
        return out
    for _ in range(rng.choice([1, 1, 2])):
        cert = rng.choice([w.eroot1, w.eroot1, w.eroot1, w.eroot, w.eaa, w.aa_exp, w.aa, w.root, w.at2])
        i = rng.randrange(len(out) + 1)
        out.insert(i, ("field:requested-cert", with_requested_certificate(w, rng.choice(carriers), cert)))
        # attacker packets under the injected root, before and after
        for n in range(rng.choice([2, 3, 4])):
            tk = rng.choice([w.eat1, w.eat1, w.eat])
            kind = "certificate" if n % 2 == 0 or rng.random() < 0.3 else "digest"
            j = rng.randrange(len(out) + 1) if rng.random() < 0.3 else rng.randrange(i + 1, len(out) + 1)
            out.insert(j, ("selfmade-after-injection", signed_under(w, rng.choice(w.base)[1], tk, kind, salt=n)))
    return out


def mutate(ctx, w, frame):
    """returns (kind, mutated frame)"""
    rng = ctx.rng
    hdr, body = frame[:4], frame[4:]
    r = rng.random()
    if r < 0.10:
        return "genuine", frame
    if r < 0.30:
        i = rng.randrange(len(body) * 8)
        b = bytearray(body)
        b[i // 8] ^= 1 << (i % 8)
        return "bitflip", hdr + bytes(b)
    if r < 0.38:
        i = rng.randrange(len(body))
        b = bytearray(body)
        b[i] = (b[i] + rng.randrange(1, 256)) % 256
        return "bytesub", hdr + bytes(b)
    if r < 0.44:
        return "truncate", hdr + body[:rng.randrange(0, len(body))]
    if r < 0.48:
        return "extend", frame + bytes(rng.randrange(256) for _ in range(rng.randrange(1, 9)))
    if r < 0.52:
        plain = sc.decode_signed(body)[0]["tbsData"]["payload"]["data"]["content"][1]
        return "unsecured", bytes([0x11]) + hdr[1:] + plain
    if r < 0.54:
        return rng.choice([("nh-any", bytes([0x10]) + frame[1:]), ("bad-version", bytes([0x22]) + frame[1:])])
    if r < 0.585:
        # NH = SECURED_PACKET, but the Ieee1609Dot2Data content is not signedData: no signer, no signature at all
        plain = sc.decode_signed(body)[0]["tbsData"]["payload"]["data"]["content"][1]
        ch = rng.choice(["unsecuredData", "unsecuredData", "unsecuredData-junk", "encryptedData", "signedCertificateRequest"])
        try:
            if ch == "unsecuredData":
                env = sc.make_envelope("unsecuredData", plain)            # the very bytes a genuine packet delivers
            elif ch == "unsecuredData-junk":
                env = sc.make_envelope("unsecuredData", bytes(rng.randrange(256) for _ in range(rng.choice([0, 3, 40]))))
            elif ch == "encryptedData":
                env = sc.make_envelope("encryptedData", {
                    "recipients": [("pskRecipInfo", bytes(rng.randrange(256) for _ in range(8)))],
                    "ciphertext": ("aes128ccm", {"nonce": bytes(12), "ccmCiphertext": plain})})
            else:
                env = sc.make_envelope("signedCertificateRequest", plain[:rng.choice([0, 8, len(plain)])])
            return "envelope:" + ch, hdr + env
        except Exception:  # noqa: BLE001 - not encodable
            return "genuine", frame
    if r < 0.64:
        # Basic Header fields OUTSIDE the signature (reserved, lifetime, remaining hop limit) of a genuine packet: the
        # packet still verifies; what the GeoNetworking layer does with it afterwards (e.g. RHL above the Common Header's
        # MHL -> DecapError) is not the gate's business -- and must leave nothing behind for the next packet
        f = rng.choice(["rhl", "rhl", "rhl", "lt", "reserved"])
        b = bytearray(hdr)
        if f == "rhl":
            b[3] = rng.choice([0, 1, 2, 9, 10, 11, 128, 255])
        elif f == "lt":
            b[2] = rng.choice([0, 1, 0x1A, 0xFF, rng.randrange(256)])
        else:
            b[1] = rng.randrange(1, 256)
        return "bh-" + f, bytes(b) + body
    # field-level mutation of the decoded structure
    sd = copy.deepcopy(sc.decode_signed(body)[0])
    hi = sd["tbsData"]["headerInfo"]
    choice = rng.choice(["payload", "psid", "gentime", "hdr-add", "signer-digest-unknown", "signer-other-at", "signer-swap",
                         "r", "s", "s-malleate", "cert-field", "attacker-sig", "attacker-sig-own-cert", "attacker-digest",
                         "selfmade-chain", "forged-ticket", "resigned-genuine", "signer-self", "two-certs", "sig-format",
                         "expired-ticket", "expired-ticket-backdated", "ticket-under-expired-aa",
                         "signer-own-ticket", "signer-own-ticket", "signer-ca-digest", "requested-cert"])
    at_of = {sc.hid8(w.at1.certificate): w.at1, sc.hid8(w.at2.certificate): w.at2}
    if sd["signer"][0] == "digest":
        genuine_at = at_of.get(bytes(sd["signer"][1]))
    elif sd["signer"][0] == "certificate" and sd["signer"][1]:
        genuine_at = at_of.get(sc.hid8(sd["signer"][1][0]))
    else:
        genuine_at = None
    if choice == "payload":
        pl = bytearray(sd["tbsData"]["payload"]["data"]["content"][1])
        pl[rng.randrange(len(pl))] ^= 1 << rng.randrange(8)
        sd["tbsData"]["payload"]["data"]["content"] = ("unsecuredData", bytes(pl))
    elif choice == "psid":
        hi["psid"] = rng.choice([36, 37, 638, 99, 0, 1000])
    elif choice == "gentime":
        hi["generationTime"] = hi.get("generationTime", 0) + rng.choice([1, -1, 1000, 10**12])
    elif choice == "hdr-add":
        f = rng.choice(["expiryTime", "p2pcdLearningRequest", "generationLocation", "inlineP2pcdRequest", "drop-gentime"])
        if f == "expiryTime":
            hi["expiryTime"] = hi.get("generationTime", 0) + 10**6
        elif f == "p2pcdLearningRequest":
            hi["p2pcdLearningRequest"] = b"\x01\x02\x03"
        elif f == "generationLocation":
            if "generationLocation" in hi:
                del hi["generationLocation"]
            else:
                hi["generationLocation"] = {"latitude": 1, "longitude": 2, "elevation": 3}
        elif f == "inlineP2pcdRequest":
            hi["inlineP2pcdRequest"] = [b"\x01\x02\x03"]
        else:
            hi.pop("generationTime", None)
        if genuine_at is not None and rng.random() < 0.5:
            resign(w, sd, genuine_at.key_id)          # a genuine sender with an off-profile header
    elif choice == "signer-digest-unknown":
        sd["signer"] = ("digest", bytes(rng.randrange(256) for _ in range(8)))
    elif choice == "signer-other-at":
        other = w.at2 if genuine_at is w.at1 else w.at1
        sd["signer"] = rng.choice([("digest", other.as_hashedid8()), ("certificate", [other.certificate])])
    elif choice == "signer-swap":
        if genuine_at is not None:
            sd["signer"] = (("certificate", [genuine_at.certificate]) if sd["signer"][0] == "digest"
                            else ("digest", genuine_at.as_hashedid8()))
    elif choice in ("r", "s"):
        sig = sd["signature"][1]
        if choice == "r":
            b = bytearray(sig["rSig"][1])
            b[rng.randrange(32)] ^= 1 << rng.randrange(8)
            sig["rSig"] = ("x-only", bytes(b))
        else:
            b = bytearray(sig["sSig"])
            b[rng.randrange(32)] ^= 1 << rng.randrange(8)
            sig["sSig"] = bytes(b)
    elif choice == "s-malleate":
        s = int.from_bytes(sd["signature"][1]["sSig"], "big")
        sd["signature"][1]["sSig"] = ((N - s) % N).to_bytes(32, "big")
    elif choice == "cert-field":
        if sd["signer"][0] == "certificate" and sd["signer"][1]:
            c = sd["signer"][1][0]
            f = rng.choice(["app", "start", "key", "issuer", "sig"])
            if f == "app":
                c["toBeSigned"]["appPermissions"] = [{"psid": 36}, {"psid": 37}, {"psid": 638}, {"psid": 99}, {"psid": 1234}]
            elif f == "start":
                c["toBeSigned"]["validityPeriod"]["start"] += 1
            elif f == "key":
                c["toBeSigned"]["verifyKeyIndicator"] = w.eat.certificate["toBeSigned"]["verifyKeyIndicator"]
            elif f == "issuer":
                c["issuer"] = ("sha256AndDigest", w.eaa.as_hashedid8())
            else:
                sg = c["signature"][1]
                b = bytearray(sg["sSig"])
                b[5] ^= 4
                sg["sSig"] = bytes(b)
        else:
            sd["signer"] = ("digest", bytes(8))
    elif choice == "attacker-sig":
        resign(w, sd, w.eat.key_id)
    elif choice == "attacker-sig-own-cert":
        resign(w, sd, w.eat.key_id)
        sd["signer"] = ("certificate", [w.eat.certificate])
    elif choice == "attacker-digest":
        resign(w, sd, w.eat.key_id)
        sd["signer"] = ("digest", w.eat.as_hashedid8())
    elif choice == "selfmade-chain":
        if rng.random() < 0.35:        # ticket issued directly by a self-made root
            resign(w, sd, w.eat1.key_id)
            sd["signer"] = rng.choice([("certificate", [w.eat1.certificate]), ("digest", w.eat1.as_hashedid8()),
                                       ("certificate", [w.eat1.certificate, w.eroot1.certificate])])
        else:
            resign(w, sd, w.eat.key_id)
            sd["signer"] = ("certificate", [w.eat.certificate, w.eaa.certificate, w.eroot.certificate][:rng.choice([1, 2, 3])])
    elif choice == "requested-cert":
        # requestedCertificate in the signed header of a packet re-signed by its genuine sender (DENM: forbidden field)
        if genuine_at is not None:
            cert = rng.choice([w.eroot1, w.eroot, w.eaa, w.aa_exp, w.aa, w.root, w.at2, w.forged])
            hi["requestedCertificate"] = copy.deepcopy(cert.certificate)
            resign(w, sd, genuine_at.key_id)
    elif choice == "forged-ticket":
        resign(w, sd, w.forged.key_id)
        sd["signer"] = rng.choice([("certificate", [w.forged.certificate]), ("digest", w.forged.as_hashedid8())])
    elif choice == "resigned-genuine":
        if genuine_at is not None:
            hi["generationTime"] = hi.get("generationTime", 0) + rng.choice([0, 5000, 200 * 3600 * 10**6])
            resign(w, sd, genuine_at.key_id)
    elif choice in ("expired-ticket", "expired-ticket-backdated"):
        if choice.endswith("backdated"):          # generation time inside the expired ticket's validity: authentic
            lo, hi_us = sc.validity_us(w.at_exp.certificate)
            hi["generationTime"] = rng.choice([lo, hi_us, (lo + hi_us) // 2, hi_us + 1, lo - 1])
        resign(w, sd, w.at_exp.key_id)
        sd["signer"] = rng.choice([("certificate", [w.at_exp.certificate]), ("digest", w.at_exp.as_hashedid8())])
    elif choice == "ticket-under-expired-aa":
        resign(w, sd, w.at_xaa.key_id)
        sd["signer"] = ("certificate", [w.at_xaa.certificate, w.aa_exp.certificate][:rng.choice([1, 1, 2])])
    elif choice == "signer-self":
        sd["signer"] = ("self", None)
    elif choice == "signer-own-ticket":
        # names the RECEIVER's own ticket (a public digest) as signer; the signature is somebody else's or garbage
        sg = rng.choice(["keep", "attacker", "attacker", "garbage", "other-genuine"])
        if sg == "attacker":
            resign(w, sd, w.eat.key_id)
        elif sg == "garbage":
            sd["signature"] = ("ecdsaNistP256Signature", {"rSig": ("x-only", bytes(rng.randrange(256) for _ in range(32))),
                                                          "sSig": bytes(rng.randrange(256) for _ in range(32))})
        elif sg == "other-genuine" and genuine_at is not None:
            hi["generationTime"] = hi.get("generationTime", 0) + 1
            resign(w, sd, genuine_at.key_id)
        sd["signer"] = rng.choice([("digest", w.at_own.as_hashedid8()), ("digest", w.at_own.as_hashedid8()),
                                   ("certificate", [w.at_own.certificate])])
    elif choice == "signer-ca-digest":
        # the digest names a certificate the receiver holds in ANOTHER dictionary (authority / root), not a ticket
        ca = rng.choice([w.aa, w.root])
        if rng.random() < 0.5:
            resign(w, sd, ca.key_id if rng.random() < 0.5 else w.eat.key_id)
        sd["signer"] = ("digest", ca.as_hashedid8())
    elif choice == "two-certs":
        if genuine_at is not None:
            sd["signer"] = ("certificate", [genuine_at.certificate, w.aa.certificate])
    elif choice == "sig-format":
        sig = sd["signature"][1]
        sig["rSig"] = rng.choice([("compressed-y-0", sig["rSig"][1]), ("fill", None)])
    try:
        return "field:" + choice, hdr + reencode(sd)
    except Exception:  # noqa: BLE001 - mutation not encodable
        return "genuine", frame


# ------------------------------------------------------------------------------------------------ oracle


class Oracle:
    """what the property allows to be delivered, from configured roots / authorities and every certificate seen"""

    def __init__(self, roots, aas, ats):
        self.roots = {sc.hid8(c.certificate): c.certificate for c in roots}
        self.cas = {sc.hid8(c.certificate): c.certificate for c in aas}
        self.seen = {sc.hid8(c.certificate): c.certificate for c in ats}

    def observe(self, frame):
        if len(frame) < 4 or frame[0] & 0x0F != 2:
            return None
        dec = sc.decode_signed(frame[4:])
        if dec is None:
            return None
        sd = dec[0]
        if sd["signer"][0] == "certificate":
            for c in sd["signer"][1]:
                try:
                    self.seen.setdefault(sc.hid8(c), c)
                except Exception:  # noqa: BLE001
                    pass
        return dec

    def authentic(self, frame):
        """(ok, reason, signed payload) for a frame, by the property text"""
        if len(frame) < 4 or frame[0] & 0x0F != 2:
            return False, "not-a-secured-packet", None
        dec = sc.decode_signed(frame[4:])
        if dec is None:
            return False, "undecodable", None
        sd, tbs_bytes = dec
        sg = sd["signer"]
        if sg[0] == "digest":
            at = self.seen.get(bytes(sg[1]))
            if at is None:
                return False, "digest-of-unknown-ticket", None
        elif sg[0] == "certificate" and sg[1]:
            at = sg[1][0]
        else:
            return False, "no-signer-certificate", None
        if "certIssuePermissions" in at["toBeSigned"] or at["issuer"][0] == "self":
            return False, "signer-is-not-a-ticket", None
        ok, why = sc.chain_ok(at, self.roots, self.cas)
        if not ok:
            return False, "chain:" + why, None
        if not sc.sig_ok(sc.vk_of(at), tbs_bytes, sd["signature"]):
            return False, "signature-does-not-verify", None
        try:
            pl = sd["tbsData"]["payload"]["data"]["content"][1]
        except Exception:  # noqa: BLE001
            return False, "no-payload", None
        return True, "ok", pl


def judge(ctx, oracle, enabled, frame, gate, inds, case, kind):
    delivered = list(gate) + [i.data for i in inds]
    if not delivered:
        return
    if frame[0] & 0x0F == 1:
        if enabled:
            ctx.violation(f"{kind}: unsecured packet handed to upper layers with itsGnSecurity ENABLED", case)
        return
    ok, why, signed = oracle.authentic(frame)
    if not ok:
        ctx.violation(f"{kind}: packet delivered although not authentic ({why})", case)
        return
    for g in gate:
        if bytes(g) != bytes(signed):
            ctx.violation(f"{kind}: bytes handed to the GeoNetworking layer differ from the signed payload", case)
    for i in inds:
        if not bytes(signed).endswith(bytes(i.data)):
            ctx.violation(f"{kind}: indication data is not part of the signed payload", case)


# ------------------------------------------------------------------------------------------------ sequences


def receiver_config(rng):
    """security configuration of the receiver + `own`: 0 = the receiver holds no own ticket, 1 = it holds its own
    authorization ticket (own_certificates only), 2 = the own ticket is also among the known tickets"""
    own = rng.choice([0, 0, 1, 1, 2])
    r = rng.random()
    if r < 0.75:
        return dict(enabled=True, has_verify=True, has_sign=rng.random() < 0.7, own=own)
    if r < 0.87:
        return dict(enabled=False, has_verify=True, has_sign=True, own=own)
    if r < 0.94:
        return dict(enabled=True, has_verify=False, has_sign=True, own=own)
    return dict(enabled=False, has_verify=False, has_sign=False, own=0)


class InjectedFault(Exception):
    """raised by the harness in place of the GeoNetworking processing behind the gate (fault injection)"""


def router_kw(cfg):
    return {k: cfg[k] for k in ("enabled", "has_verify", "has_sign") if k in cfg}


def run_sequence(ctx, w, clock, frames, cfg, preload, seq_id):
    """frames: list of (kind, frame).  Returns (model lines, real lines)"""
    A = w.A
    ats = list(preload) if isinstance(preload, (list, tuple)) else ([w.at1] if preload else [])
    own_mode = cfg.get("own", 0) if getattr(w, "at_own", None) is not None else 0
    own = [w.at_own] if own_mode else []
    if own_mode == 2 and all(a.as_hashedid8() != w.at_own.as_hashedid8() for a in ats):
        ats = ats + [w.at_own]
    R = sc.RouterStation(w.pki.backend, 9, [w.root], [w.aa], ats, own=own, lat=415000100, lon=21000100, **router_kw(cfg))
    R.set_position(clock.ms)
    # the receiver knows its own ticket: a genuine packet signed with it (echo) would be authentic
    oracle = Oracle([w.root], [w.aa], ats + own)
    pre = sc.new_station_lines(A, 1, [w.root], [w.aa], ats, cfg["has_sign"])
    pre += [f"addown 1 {A.cert(c.certificate)} {A.cert(w.aa.certificate)}" for c in own]
    if own:
        ctx.cover(f"receiver_own_ticket_mode_{own_mode}")
    items = []
    prev_exc = False
    for j, (kind, frame) in enumerate(frames):
        clock.advance(ctx.rng.choice([1, 20, 150, 600]))
        R.set_position(clock.ms)
        tok = sc.frame_tokens(A, frame)
        oracle.observe(frame)
        fault = InjectedFault("upper layer fails") if kind.endswith("+fault") else None
        out, gate, inds, conf, exc = R.receive(frame, fault=fault)
        case = {"kind": "sequence", "id": seq_id, "frames": [f.hex() for _, f in frames[:j + 1]],
                "kinds": [k for k, _ in frames[:j + 1]], "cfg": cfg, "root": w.root.encode().hex(),
                "aa": w.aa.encode().hex(), "ats": [a.encode().hex() for a in ats],
                "own": [a.encode().hex() for a in own]}
        judge(ctx, oracle, cfg["enabled"], frame, gate, inds, case, kind)
        ctx.evals()
        ctx.cover("mut_" + kind.replace("+fault", ""))
        if exc is not None and gate:
            ctx.cover("raised_behind_the_gate_" + type(exc).__name__)
        if j and frame[0] & 0x0F == 1 and prev_exc:
            ctx.cover("unsecured_right_after_a_raising_packet")
        prev_exc = exc is not None
        ctx.cover("out_" + (out if not out.startswith("raise") else "raise"))
        if conf is not None:
            ctx.cover("report_" + conf.report.name)
        if tok is None:
            ctx.cover("unmodelled_basic_header")
            continue
        if out == "pass":
            real = "pass:" + str(A.payload(gate[0]))
        elif out == "drop":
            if frame[0] & 0x0F == 1:
                real = "drop:unsecured"
            elif not cfg["has_verify"]:
                real = "drop:no-verify-service"
            elif conf is not None:
                real = f"drop:report-{conf.report.value}"
            else:
                real = "drop:?"
        else:
            real = "raise:parse" if tok in ("P", "E") else out
        items.append((f"gate 1 {int(cfg['enabled'])} {int(cfg['has_verify'])} {tok}", real + " " + R.dump(A)))
        if inds:
            ctx.cover("indications")
        ctx.nontrivial((kind, out, conf.report.name if conf else None, tok.split()[0], tok.split()[9] if tok.startswith("S ") else ""))
    lines = ["reset"] + A.all_lines() + pre + [m for m, _ in items]
    reals = [None] * (1 + len(A.all_lines()) + len(pre)) + [r for _, r in items]
    return lines, reals


def compare(ctx, batches):
    if not ctx.model_ok:
        return
    out = ctx.model("Sec", [l for ls, _, _ in batches for l in ls])
    pos = 0
    for ls, reals, sid in batches:
        for j, (l, r) in enumerate(zip(ls, reals)):
            if r is not None and out[pos + j] != r:
                ctx.mismatch("gate", {"sequence": sid, "line": l}, r, out[pos + j])
                break
        pos += len(ls)


def with_faults_and_probes(rng, w, frames):
    """fault + sequence: (1) for some frames the processing BEHIND the gate raises (injected: kind `…+fault`; natural:
    the `bh-rhl` mutants whose hop limit exceeds the Common Header's MHL) -- the receive path is left through an
    exception; (2) an UNSECURED packet right after such a frame (and after a few others): nothing an earlier packet
    left behind -- verified or not, completed or aborted -- may open the gate for it"""
    out = []
    for kind, fr in frames:
        faulty = rng.random() < 0.07
        out.append((kind + "+fault" if faulty else kind, fr))
        if rng.random() < (0.8 if faulty or kind.startswith("bh-") else 0.06):
            _, base = rng.choice(w.base)
            plain = sc.decode_signed(base[4:])[0]["tbsData"]["payload"]["data"]["content"][1]
            out.append(("unsecured", bytes([0x11]) + base[1:4] + plain))
    return out


def check_sequences(ctx, w, clock, n_seq, tag, extra_batches=()):
    batches = list(extra_batches)
    for s in range(n_seq):
        k = ctx.rng.randrange(6, 16)
        frames = []
        for _ in range(k):
            kind, base = ctx.rng.choice(w.base)
            mk, fr = mutate(ctx, w, base)
            frames.append((mk, fr))
            if ctx.rng.random() < 0.25:
                frames.append(("genuine", base))      # the untouched original around its mutants, in any order
        ctx.rng.shuffle(frames)
        if ctx.rng.random() < 0.3:
            frames += [frames[ctx.rng.randrange(len(frames))] for _ in range(3)]   # replays
        frames = with_faults_and_probes(ctx.rng, w, frames)
        if ctx.rng.random() < 0.3:
            frames = with_trust_injection(ctx.rng, w, frames)
            ctx.cover("sequences_with_trust_store_injection")
        cfg = receiver_config(ctx.rng)
        lines, reals = run_sequence(ctx, w, clock, frames, cfg, ctx.rng.random() < 0.3, f"{tag}{s}")
        batches.append((lines, reals, f"{tag}{s}"))
    compare(ctx, batches)
    if len(batches) > len(extra_batches):
        ls, rs_, _ = batches[len(extra_batches)]
        ctx.sample("sequence", {"model_in": [l for l in ls if l.startswith("gate")][:3], "real": [r for r in rs_ if r][:3]})


def check_all_bitflips(ctx, w, clock, n_base):
    """thorough: every single-bit flip of the security envelope of `n_base` genuine frames"""
    batches = []
    for bi in range(min(n_base, len(w.base))):
        kind, base = w.base[bi]
        body = base[4:]
        frames = [("genuine", base)]
        for i in range(len(body) * 8):
            b = bytearray(body)
            b[i // 8] ^= 1 << (i % 8)
            frames.append(("bitflip", base[:4] + bytes(b)))
        for chunk in range(0, len(frames), 400):
            lines, reals = run_sequence(ctx, w, clock, frames[chunk:chunk + 400], dict(enabled=True, has_verify=True, has_sign=True),
                                        False, f"flip{bi}_{chunk}")
            batches.append((lines, reals, f"flip{bi}_{chunk}"))
        ctx.cover("all_bitflips_of_frame")
    compare(ctx, batches)


# ------------------------------------------------------------------------------------------------ overlapping receive threads


class MemoBackend(PythonECDSABackend):
    """verification-only backend of the concurrency runs: `verify_with_pk` memoised (a pure function of its arguments),
    so that the thousands of schedules of one packet pair cost OER work only.  Harness code: never pre-empted."""
    _memo = {}

    def verify_with_pk(self, data, signature, pk):
        k = (bytes(data), repr(signature), repr(pk))
        r = MemoBackend._memo.get(k)
        if r is None:
            try:
                r = (True, super().verify_with_pk(data, signature, pk))
            except Exception as e:  # noqa: BLE001 - unsupported formats raise ValueError: part of the behaviour
                r = (False, (type(e), e.args))
            if len(MemoBackend._memo) > 20000:
                MemoBackend._memo.clear()
            MemoBackend._memo[k] = r
        if not r[0]:
            raise r[1][0](*r[1][1])
        return r[1]


def watch_shared(obj):
    """every read / write / delete of an INSTANCE attribute of `obj` made by a scheduled thread becomes a pre-emption point
    (`dsched` kind `op`): the object is what several receive threads share (the one ECDSA backend of a station), its
    instance state is what the model assumes a verification neither leaves behind nor consults.  A backend that keeps
    nothing in `self` on the verification path has no such point at all."""
    base = type(obj)

    def point():
        s = dsched._active
        if s is not None:
            s.yield_point("op")

    class Watched(base):
        def __getattribute__(self, name):
            if name in object.__getattribute__(self, "__dict__"):
                point()
            return base.__getattribute__(self, name)

        def __setattr__(self, name, value):
            point()
            base.__setattr__(self, name, value)

        def __delattr__(self, name):
            point()
            base.__delattr__(self, name)
    Watched.__name__ = base.__name__
    obj.__class__ = Watched
    return obj


class fast_ecdsa:
    """context manager: the pure number-crunching of the `ecdsa` package (VerifyingKey construction with its point
    validation, signature verification) memoised for the duration of a schedule exploration.  Third-party library
    functions, pure in their arguments; the repository's backend code -- the thing under test -- runs unchanged on top"""
    _vks, _ver = {}, {}

    def __enter__(self):
        import ecdsa
        import ecdsa.ellipticcurve as ec
        self.ec, self.VK = ec, ecdsa.VerifyingKey
        self.saved = (None, self.VK.__dict__["from_public_point"], self.VK.verify)
        real_fpp, real_verify = self.VK.from_public_point, self.VK.verify
        vks, ver = fast_ecdsa._vks, fast_ecdsa._ver

        def from_public_point(point_, curve=None, hashfunc=None, validate_point=True):
            k = (point_.x(), point_.y(), getattr(curve, "name", None), validate_point)
            if k not in vks:
                kw = {} if hashfunc is None else {"hashfunc": hashfunc}
                vks[k] = real_fpp(point_, curve=curve, validate_point=validate_point, **kw) if curve is not None \
                    else real_fpp(point_, validate_point=validate_point, **kw)
            return vks[k]

        def verify(vk, signature, data, hashfunc=None, sigdecode=None, allow_truncate=True):
            k = (vk.to_string(), bytes(signature) if isinstance(signature, (bytes, bytearray)) else repr(signature), bytes(data),
                 getattr(hashfunc, "__name__", None), getattr(sigdecode, "__name__", None), allow_truncate)
            if k not in ver:
                kw = {}
                if hashfunc is not None:
                    kw["hashfunc"] = hashfunc
                if sigdecode is not None:
                    kw["sigdecode"] = sigdecode
                try:
                    ver[k] = (True, real_verify(vk, signature, data, allow_truncate=allow_truncate, **kw))
                except Exception as e:  # noqa: BLE001 - BadSignatureError etc.: part of the function's behaviour
                    ver[k] = (False, e)
            ok, val = ver[k]
            if not ok:
                raise val
            return val
        self.VK.from_public_point = staticmethod(from_public_point)
        self.VK.verify = verify
        return self

    def __exit__(self, *a):
        self.VK.from_public_point = self.saved[1]
        self.VK.verify = self.saved[2]
        return False


def _codes_of(obj, modname, acc):
    for v in vars(obj).values():
        f = getattr(v, "__func__", v)
        if isinstance(f, types.FunctionType) and f.__module__ == modname:
            todo = [f.__code__]
            while todo:
                c = todo.pop()
                acc.append(c)
                todo += [k for k in c.co_consts if isinstance(k, types.CodeType)]
        elif isinstance(v, type) and v.__module__ == modname and obj is not v:
            _codes_of(v, modname, acc)


def conc_codes():
    """code objects pre-empted at bytecode granularity: every function / method (incl. nested ones and any helper a
    refactoring adds) defined in flexstack.security.verify_service"""
    acc = []
    _codes_of(vs_mod, vs_mod.__name__, acc)
    return acc


CONC_LINE_FILES = {lib_mod.__file__}


class ConcEnv:
    """certificates (public material) of one receiver configuration + the abstraction registry for the model"""

    def __init__(self, root, aa, tickets, A=None):
        self.root, self.aa, self.tickets, self.A = root, aa, tickets, A
        self.backend = MemoBackend()

    @staticmethod
    def from_world(w):
        return ConcEnv(w.root, w.aa, {"at1": w.at1, "at2": w.at2}, w.A)

    @staticmethod
    def from_case(case):
        from flexstack.security.certificate import Certificate

        def cert(hexs, issuer=None):
            return Certificate.from_dict(sc.CODER.decode_etsi_ts_103097_certificate(bytes.fromhex(hexs)), issuer)
        root = cert(case["root"])
        aa = cert(case["aa"], root)
        return ConcEnv(root, aa, {k: cert(h, aa) for k, h in case.get("tickets", {}).items()})

    def public(self):
        return {"root": self.root.encode().hex(), "aa": self.aa.encode().hex(),
                "tickets": {k: v.encode().hex() for k, v in self.tickets.items()}}

    def station(self, pair):
        ats = [self.tickets[k] for k in pair.get("preload", [])]
        # "shared-backend" scenarios: the repository's own backend, one fresh instance per run, shared by the receive
        # threads of the station and watched (see watch_shared); otherwise the memoising backend
        backend = self.backend if pair.get("points") != "backend" else PythonECDSABackend()
        R = sc.RouterStation(backend, 9, [self.root], [self.aa], ats, lat=415000100, lon=21000100,
                             enabled=True, has_verify=True, has_sign=pair.get("has_sign", True))
        if pair.get("points") == "backend":
            watch_shared(backend)
        R.set_position(T0)
        return R, ats


def outcome_of(rec):
    """canonical per-call outcome (what the upper layers got / the report / the exception class)"""
    if rec["gate"]:
        return "pass:" + ",".join(g.hex() for g in rec["gate"])
    if rec["exc"] is not None:
        return "raise:" + rec["exc"]
    if rec["conf"] is not None:
        return f"drop:report-{rec['conf'].report.value}"
    return "drop:?"


def state_of(R):
    """library dictionaries (keys in dict order) + P2PCD lists of the real station, without the abstraction registry"""
    lib = R.lib
    h = R.ss.cam_handler
    return (tuple(k.hex() for k in lib.known_authorization_authorities), tuple(k.hex() for k in lib.known_authorization_tickets),
            tuple(bytes(x).hex() for x in R.ss.unknown_ats), tuple(bytes(x).hex() for x in R.ss.requested_ats),
            bool(h.requested_own_certificate))


class ConcRun:
    """the frames of `pair` handed to ONE real station by one thread each, under `policy` (None = no scheduler: the
    calls are made one after the other in the order `serial`)"""

    def __init__(self, env, pair, policy=None, serial=None, max_steps=40000):
        frames = [bytes.fromhex(f) for f in pair["frames"]]
        self.frames, self.env = frames, env
        R, ats = env.station(pair)
        self.R, self.ats = R, ats
        n = len(frames)
        self.rec = [{"gate": [], "conf": None, "exc": None, "nconf": 0} for _ in range(n)]
        self.sched = None
        cur = {"i": None}
        s = None

        def who():
            if s is None:
                return cur["i"]
            me = s.me()
            return me.tid if me is not None else None

        def rec_common(packet, basic_header):
            self.rec[who()]["gate"].append(bytes(packet))
        R.router.process_common_header = rec_common
        orig_verify = type(R.vs).verify.__get__(R.vs)

        def rec_verify(request):
            conf = orig_verify(request)
            r = self.rec[who()]
            r["conf"] = conf
            r["nconf"] += 1
            return conf
        R.vs.verify = rec_verify

        def body(i):
            def run():
                try:
                    R.router.process_basic_header(frames[i])
                except Exception as e:  # noqa: BLE001 - the exception class is an outcome
                    self.rec[i]["exc"] = type(e).__name__
            return run

        self.dumps = []
        if policy is None:
            for i in (serial if serial is not None else range(n)):
                cur["i"] = i
                body(i)()
                if env.A is not None:
                    self.dumps.append(R.dump(env.A))
            self.steps, self.choices, self.abort = [], [], None
        else:
            if pair.get("points") == "backend":
                s = dsched.DSched(policy, line_files=(), opcode_codes=(), max_steps=max_steps)
            else:
                s = dsched.DSched(policy, line_files=CONC_LINE_FILES, opcode_codes=conc_codes(), max_steps=max_steps)
            self.sched = s
            for i in range(n):
                s.spawn(body(i), name=f"rx{i}")
            s.run(timeout=30.0)
            self.steps = s.steps
            self.choices = [c[0] for c in s.steps]
            self.abort = s.abort_reason
            for ts in s.threads:
                if ts.exc is not None and self.rec[ts.tid]["exc"] is None:
                    self.rec[ts.tid]["exc"] = type(ts.exc).__name__
        self.outs = tuple(outcome_of(r) for r in self.rec)
        self.state = state_of(R)

    def judge(self):
        """the property, per call: what call i handed to the upper layers must be the authentic signed payload of
        packet i itself (oracle: certificates configured, pre-loaded or seen in either packet)"""
        bad = []
        oracle = Oracle([self.env.root], [self.env.aa], self.ats)
        for f in self.frames:
            oracle.observe(f)
        for i, (f, r) in enumerate(zip(self.frames, self.rec)):
            if self.abort:
                bad.append(f"run aborted by the scheduler: {self.abort}")
                break
            if len(r["gate"]) > 1:
                bad.append(f"call {i}: one packet handed to the GeoNetworking layer {len(r['gate'])} times")
            if r["gate"]:
                ok, why, signed = oracle.authentic(f)
                if not ok:
                    bad.append(f"call {i}: payload {r['gate'][0][:16].hex()}.. delivered although its packet is not authentic ({why})")
                elif any(bytes(g) != bytes(signed) for g in r["gate"]):
                    other = [j for j, g in enumerate(self.frames) if j != i and (sc.decode_signed(g[4:]) or [None])[0] is not None
                             and sc.decode_signed(g[4:])[0]["tbsData"]["payload"]["data"]["content"][1] == r["gate"][0]]
                    bad.append(f"call {i}: delivered bytes are not the signed payload of its own packet"
                               + (f" but the payload of the packet of call {other[0]}" if other else ""))
            conf = r["conf"]
            if conf is not None and conf.report.value == 0 and not r["gate"]:
                bad.append(f"call {i}: report SUCCESS but nothing handed up")
        return bad


def conc_pairs(ctx, w):
    """packet pairs of one world: a genuine packet against a forged / tampered / second genuine one"""
    rng = ctx.rng
    dec = [(k, f, sc.decode_signed(f[4:])[0]) for k, f in w.base]
    certs = [(k, f) for k, f, sd in dec if sd["signer"][0] == "certificate" and sc.hid8(sd["signer"][1][0]) == sc.hid8(w.at1.certificate)]
    certs2 = [(k, f) for k, f, sd in dec if sd["signer"][0] == "certificate" and sc.hid8(sd["signer"][1][0]) == sc.hid8(w.at2.certificate)]
    digs = [(k, f) for k, f, sd in dec if sd["signer"][0] == "digest" and bytes(sd["signer"][1]) == sc.hid8(w.at1.certificate)]
    if not certs:
        return []

    def forge(frame, how):
        sd = copy.deepcopy(sc.decode_signed(frame[4:])[0])
        pl = bytearray(sd["tbsData"]["payload"]["data"]["content"][1])
        pl[-1] ^= 0x5A
        pl[len(pl) // 2] ^= 0x01
        sd["tbsData"]["payload"]["data"]["content"] = ("unsecuredData", bytes(pl))
        if how == "selfmade-chain":
            resign(w, sd, w.eat.key_id)
            sd["signer"] = ("certificate", [w.eat.certificate])
        elif how == "payload-bit":
            pass                                    # genuine signer and signature, altered payload
        elif how == "attacker-digest":
            resign(w, sd, w.eat.key_id)
            sd["signer"] = ("digest", w.eat.as_hashedid8())
        elif how == "forged-ticket":
            resign(w, sd, w.forged.key_id)
            sd["signer"] = ("certificate", [w.forged.certificate])
        elif how == "attacker-sig-genuine-cert":
            resign(w, sd, w.eat.key_id)             # names the genuine ticket, signed by somebody else
        return frame[:4] + reencode(sd)
    pairs = []

    def add(name, f0, f1, **kw):
        fr = [f0, f1]
        if rng.random() < 0.5:
            fr.reverse()                            # which thread carries the genuine packet
        pairs.append(dict(name=name, frames=[x.hex() for x in fr], **kw))
    k, g = rng.choice(certs)
    add("cert-vs-selfmade-chain", g, forge(g, "selfmade-chain"))
    k, g = rng.choice(certs)
    add("cert-vs-payload-bit", g, forge(g, "payload-bit"))
    if certs2:
        add("genuine-vs-genuine", rng.choice(certs)[1], rng.choice(certs2)[1], has_sign=rng.random() < 0.7)
    if digs:
        k, g = rng.choice(digs)
        add("digest-vs-attacker-digest", g, forge(g, "attacker-digest"), preload=["at1"])
        add("digest-vs-its-certificate", g, rng.choice(certs)[1])      # outcome depends on the order: both are serial
    k, g = rng.choice(certs)
    add("cert-vs-forged-ticket", g, forge(g, "forged-ticket"))
    k, g = rng.choice(certs)
    add("cert-vs-attacker-sig-genuine-cert", g, forge(g, "attacker-sig-genuine-cert"))
    add("cert-vs-truncated", g, g[:4 + (len(g) - 4) // 2])
    return pairs


def conc_trios(ctx, w):
    """THREE packets on three receive threads that share ONE ECDSA backend (`points: backend`): a genuine packet of a
    victim ticket V, a genuine packet of another trusted station I (the insider) and a packet that NAMES V but is signed
    with I's key (equivalently: I's packet with the signer field altered) -- sequentially a FALSE_SIGNATURE.  Second trio:
    the forger is an outsider with a self-made chain.  Both tickets pre-loaded (two verify_with_pk calls per packet)."""
    rng = ctx.rng
    dec = [(k, f, sc.decode_signed(f[4:])[0]) for k, f in w.base]

    def frames_of(at):
        h = sc.hid8(at.certificate)
        return [f for k, f, sd in dec if k != "denm" and (
            (sd["signer"][0] == "digest" and bytes(sd["signer"][1]) == h)
            or (sd["signer"][0] == "certificate" and sd["signer"][1] and sc.hid8(sd["signer"][1][0]) == h))]

    def forged(frame, key_id):
        sd = copy.deepcopy(sc.decode_signed(frame[4:])[0])
        pl = bytearray(sd["tbsData"]["payload"]["data"]["content"][1])
        pl[-1] ^= 0xA5
        sd["tbsData"]["payload"]["data"]["content"] = ("unsecuredData", bytes(pl))
        resign(w, sd, key_id)                    # the signer field keeps naming the victim's ticket
        return frame[:4] + reencode(sd)
    names = {"at1": w.at1, "at2": w.at2}
    v, i = rng.choice([("at1", "at2"), ("at2", "at1")])
    gv, gi = frames_of(names[v]), frames_of(names[i])
    trios = []

    def add(name, frames, **kw):
        order = list(range(3))
        rng.shuffle(order)                       # which thread carries which packet
        trios.append(dict(name=name, frames=[frames[j].hex() for j in order], points="backend", **kw))
    if gv and gi:
        a = rng.choice(gv)
        add("shared-backend:victim|insider|insider-signed-naming-victim", [a, rng.choice(gi), forged(rng.choice(gv), names[i].key_id)],
            preload=["at1", "at2"])
    if gv:
        add("shared-backend:victim|outsider-chain|outsider-signed-naming-victim",
            [rng.choice(gv), signed_under(w, rng.choice(gv), w.eat, "certificate"), forged(rng.choice(gv), w.eat.key_id)],
            preload=[v])
    return trios


class _Found(Exception):
    pass


def explore_shared_backend(ctx, env, w, bound, cap, stop_on_first=True):
    """the trios of `conc_trios` under every schedule with <= `bound` pre-emptions (fewest first, at most `cap` runs) whose
    pre-emption points are the accesses to the shared backend's instance state; every run judged per call by the
    authenticity oracle, and compared with the six serial orders of the real code"""
    import itertools
    with fast_ecdsa():
        for trio in conc_trios(ctx, w):
            serial_real = []
            for order in itertools.permutations(range(3)):
                r = ConcRun(env, trio, None, serial=order)
                ctx.evals()
                for b in r.judge():
                    ctx.violation(f"three packets one after the other, {trio['name']} order {order}: {b}",
                                  conc_case(env, trio, [], [b]) | {"serial": list(order)})
                serial_real.append((r.outs, r.state))
            state = {"odd": 0, "points": 0}

            def once(prefix):
                run = ConcRun(env, trio, dsched.Replay(prefix))
                ctx.evals()
                ctx.cover("conc_runs_" + trio["name"].split(":")[0])
                state["points"] = max(state["points"], sum(1 for st in run.steps if st[3] == "op"))
                ctx.nontrivial(("conc3", trio["name"], run.outs, run.state))
                bad = run.judge()
                if bad:
                    again = ConcRun(env, trio, dsched.Replay(run.choices))
                    if again.outs != run.outs:
                        ctx.note(f"conc {trio['name']}: schedule replay diverged ({again.outs} vs {run.outs})")
                    ctx.violation(f"overlapping receive threads sharing one ECDSA backend, {trio['name']}: {bad[0]} "
                                  f"[outcomes {short(run.outs)}; {dsched.preemptions(run.steps)} pre-emption(s)]",
                                  conc_case(env, trio, run.choices, bad))
                    raise _Found()
                if (run.outs, run.state) not in serial_real and state["odd"] < 2:
                    state["odd"] += 1
                    ctx.mismatch("conc-serialisability", conc_case(env, trio, run.choices, []),
                                 {"outs": short(run.outs), "state": run.state},
                                 [{"outs": short(o), "state": st} for o, st in serial_real])
                return run.steps
            try:
                runs, exhausted = dsched.enumerate_schedules(once, bound, cap, ctx.rng, order="bfs")
                ctx.cover("conc_shared_backend_schedules", runs)
                if exhausted:
                    ctx.cover("conc_shared_backend_exhausted_bound_%d" % bound)
            except _Found:
                if stop_on_first:
                    return True
            ctx.cover("conc_shared_backend_state_access_points_%s" % ("0" if state["points"] == 0 else "some"))
    return False


def conc_case(env, pair, choices, bad):
    return {"kind": "conc", "pair": pair, "schedule": list(choices), "violations": bad[:5], **env.public()}


def explore_pair(ctx, env, pair, phases, n_pct, serial_real):
    """systematic enumeration of schedules, one phase per (pre-emption bound, cap) -- a capped phase is a seeded random
    sample of the schedules within its bound --, then PCT; every run judged.  Returns #violating runs"""
    state = {"est": 300, "found": 0, "odd": 0}

    def handle(run):
        ctx.evals()
        ctx.cover("conc_runs_" + pair["name"])
        ctx.cover("conc_preemptions_%d" % min(dsched.preemptions(run.steps), 3))
        for o in run.outs:
            ctx.cover("conc_out_" + o.split(":")[0] + (":" + o.split(":")[1] if o.startswith("drop") else ""))
        ctx.nontrivial(("conc", pair["name"], run.outs, run.state))
        bad = run.judge()
        if bad:
            state["found"] += 1
            if state["found"] == 1:
                again = ConcRun(env, pair, dsched.Replay(run.choices))
                if again.outs != run.outs:
                    ctx.note(f"conc {pair['name']}: schedule replay diverged ({again.outs} vs {run.outs})")
                ctx.violation(f"overlapping receive threads, {pair['name']}: {bad[0]} [outcomes {short(run.outs)}; "
                              f"{dsched.preemptions(run.steps)} pre-emption(s)]", conc_case(env, pair, run.choices, bad))
        elif (run.outs, run.state) not in serial_real and state["odd"] < 2:
            state["odd"] += 1
            ctx.mismatch("conc-serialisability", conc_case(env, pair, run.choices, []),
                         {"outs": short(run.outs), "state": run.state},
                         [{"outs": short(o), "state": st} for o, st in serial_real])
        return run

    def once(prefix):
        run = handle(ConcRun(env, pair, dsched.Replay(prefix)))
        state["est"] = max(state["est"], run.sched.nsteps)
        return run.steps
    for bound, cap in phases:
        runs, exhausted = dsched.enumerate_schedules(once, bound, cap, ctx.rng)
        ctx.cover("conc_systematic_runs", runs)
        if exhausted:
            ctx.cover("conc_exhausted_bound_%d" % bound)
        if state["found"]:
            break
    for i in range(n_pct):
        handle(ConcRun(env, pair, dsched.PCT(ctx.rng, depth=2 + i % 3, est_steps=state["est"])))
    ctx.cover("conc_pct_runs", n_pct)
    return state["found"]


def short(outs):
    return tuple(o if len(o) < 40 else o[:28] + ".." + o[-6:] for o in outs)


def conc_serial(ctx, w, n_pairs, model=True):
    """choose the packet pairs of this run, execute each in both serial orders on the real code (judged by the oracle)
    and abstract these executions for the Lean model.  Returns (env, [(pair, serial outcomes)], model batches in the
    format of `compare`)"""
    env = ConcEnv.from_world(w)
    pairs = conc_pairs(ctx, w)
    # the first three kinds always, the rest sampled
    chosen = (pairs[:3] + ctx.rng.sample(pairs[3:], max(0, min(n_pairs - 3, len(pairs) - 3))))[:n_pairs]
    info, batches = [], []
    for pair in chosen:
        serial_real = []
        for order in ((0, 1), (1, 0)):
            r = ConcRun(env, pair, None, serial=order)
            ctx.evals()
            for b in r.judge():
                ctx.violation(f"two packets one after the other, {pair['name']} order {order}: {b}",
                              conc_case(env, pair, [], [b]) | {"serial": list(order)})
            serial_real.append((r.outs, r.state))
            if model and ctx.model_ok:
                A = w.A
                toks = [sc.frame_tokens(A, f) for f in r.frames]
                if all(t is not None for t in toks):
                    pre = sc.new_station_lines(A, 1, [w.root], [w.aa], r.ats, pair.get("has_sign", True))
                    reals = []
                    for n_, i in enumerate(order):
                        o = r.outs[i]
                        o = ("pass:" + str(A.payload(r.rec[i]["gate"][0]))) if o.startswith("pass") else \
                            ("raise:parse" if toks[i] == "P" else o)
                        reals.append(o + " " + r.dumps[n_])
                    defs = A.all_lines()
                    ls = ["reset"] + defs + pre + [f"gate 1 1 1 {toks[i]}" for i in order]
                    batches.append((ls, [None] * (1 + len(defs) + len(pre)) + reals, f"conc:{pair['name']}:{order}"))
        info.append((pair, serial_real))
        ctx.sample("conc", {"pair": pair["name"], "serial_outcomes": [short(o) for o, _ in serial_real]})
    return env, info, batches


def conc_explore(ctx, env, info, phases, n_pct, stop_on_first=False):
    """the always-on concurrency correspondence (and, with larger numbers, the failing-input search)"""
    if not info:
        ctx.note("concurrency correspondence skipped: the world produced no certificate-carrying genuine frame")
    for pair, serial_real in info:
        explore_pair(ctx, env, pair, phases, n_pct, serial_real)
        if stop_on_first and ctx.violations:
            break


class RecordedWorld:
    """receiver side of a recorded sequence (public material only): what `run_sequence` needs of a World"""

    def __init__(self, case):
        from flexstack.security.certificate import Certificate

        def cert(hexs, issuer=None):
            return Certificate.from_dict(sc.CODER.decode_etsi_ts_103097_certificate(bytes.fromhex(hexs)), issuer)

        class _P:
            backend = PythonECDSABackend()
        self.pki = _P()
        self.root = cert(case["root"])
        self.aa = cert(case["aa"], self.root)
        self.ats = [cert(h, self.aa) for h in case.get("ats", [])]
        own = [cert(h, self.aa) for h in case.get("own", [])]
        self.at_own = own[0] if own else None
        self.A = sc.Abs()
        for c in [self.root, self.aa] + self.ats + own:
            self.A.cert(c.certificate)


def recorded_sequence(ctx, clock, case, sid):
    """a recorded sequence of frames (corpus): judged by the oracle AND compared with the model.  Returns the batch"""
    w = RecordedWorld(case)
    frames = [(k, bytes.fromhex(f)) for k, f in zip(case["kinds"], case["frames"])]
    lines, reals = run_sequence(ctx, w, clock, frames, case["cfg"], w.ats, sid)
    return lines, reals, sid


def replay_conc(case):
    env = ConcEnv.from_case(case)
    old_timer = router_mod.Timer
    router_mod.Timer = sc.NoTimer
    try:
        with rs.VClock(T0), rs.quiet():
            if "serial" in case:
                r = ConcRun(env, case["pair"], None, serial=tuple(case["serial"]))
            else:
                r = ConcRun(env, case["pair"], dsched.Replay(case.get("schedule", [])))
            bad = r.judge()
    finally:
        router_mod.Timer = old_timer
    return r, bad


def run(ctx):
    ctx.extra["rule"] = ("sequences of 6-20 frames (genuine CAM/DENM/VAM/generic frames of two real senders and their mutants, "
                         "replays, random order) into real receiving Routers in 4 security configurations; thorough adds every "
                         "single-bit flip of 8 frames. distinct_nontrivial counts distinct (mutation kind, outcome, report, "
                         "signer kind) classes, plus distinct (packet pair, per-call outcomes, final state) of the "
                         "overlapping-receive-thread runs (two real threads, one station, deterministic scheduler: "
                         "quick 4 pairs x 45 sampled schedules with <= 1 pre-emption + 5 PCT; thorough 8 pairs, all "
                         "<= 1, 200 sampled <= 2, 40 PCT)")
    router_mod.Timer = sc.NoTimer
    try:
        with rs.VClock(T0) as clock, rs.quiet():
            recorded = []
            for name, c in corpus("C03"):
                if c.get("kind") == "sequence":
                    recorded.append(recorded_sequence(ctx, clock, c, f"corpus:{name}"))
                    ctx.cover("corpus_cases")
                    continue
                if c.get("kind") == "conc":
                    r, bad = replay_conc(c)
                    for b in bad:
                        ctx.violation(f"{name}: {b}", c)
                    ctx.cover("corpus_cases")
                    ctx.evals()
                    continue
                bad = replay_case(c)
                for b in bad:
                    if c.get("scenario") == "unsigned-cert":
                        # raising instead of reporting INCONSISTENT_CHAIN is not a delivery: a model/code disagreement
                        # (regression of fix C03-F1; the exception itself is C04's subject), not a C03 violation
                        ctx.mismatch("corpus", c, b, "drop:report-4")
                    else:
                        ctx.violation(f"{name}: {b}", c)
                ctx.cover("corpus_cases")
            for wi in range(ctx.scale(1, 3)):
                w = World(ctx.rng)
                w.make_base(clock, ctx.scale(14, 40))
                env, info, cb = conc_serial(ctx, w, ctx.scale(4, 8)) if wi == 0 else (None, [], [])
                if wi == 0:
                    cb = recorded + cb
                check_sequences(ctx, w, clock, ctx.scale(90, 700), f"w{wi}s", extra_batches=cb)
                if wi == 0:
                    # quick: a seeded random sample of the schedules with <= 1 pre-emption per pair; thorough: all of
                    # them, then a sample of those with <= 2 -- 30-50 ms per schedule (opcode tracing of the OER codec)
                    conc_explore(ctx, env, info, phases=ctx.scale([(1, 45)], [(1, 450), (2, 200)]), n_pct=ctx.scale(5, 40))
                    # three threads, one shared backend: a backend without instance state on the verification path has
                    # no pre-emption point (a handful of thread orders); with such state: all schedules up to the bound
                    explore_shared_backend(ctx, env, w, bound=ctx.scale(1, 3), cap=ctx.scale(80, 30000))
                if ctx.thorough and wi == 0:
                    check_all_bitflips(ctx, w, clock, 8)
    finally:
        router_mod.Timer = threading.Timer


def search(ctx):
    ok = ctx.model_ok
    ctx.model_ok = False
    router_mod.Timer = sc.NoTimer
    try:
        with rs.VClock(T0) as clock, rs.quiet():
            for wi in range(3):
                w = World(ctx.rng)
                w.make_base(clock, 14)
                if wi == 0:
                    # overlapping receive threads first (a broken re-entrancy obligation points here): every pair kind,
                    # pre-emption bound 2, more PCT; judged on the real code by the oracle only
                    env, info, _ = conc_serial(ctx, w, 8, model=False)
                    # state kept in the shared backend first (cheap when there is none: no pre-emption point)
                    if explore_shared_backend(ctx, env, w, bound=3, cap=ctx.scale(30000, 60000)) or ctx.violations:
                        return
                    conc_explore(ctx, env, info, phases=ctx.scale([(1, 150), (2, 250)], [(1, 450), (2, 1500)]),
                                 n_pct=ctx.scale(40, 300), stop_on_first=True)
                    if ctx.violations:
                        return
                check_sequences(ctx, w, clock, ctx.scale(110, 400), f"x{wi}s")
    finally:
        router_mod.Timer = threading.Timer
        ctx.model_ok = ok


_SCENARIO_WORLD = None


def replay_case(case):
    """a saved sequence: concrete frames need the keys of their world, so the case is regenerated structurally:
    kinds 'scenario' are self-contained constructions"""
    bad = []
    if case.get("kind") != "scenario":
        return bad
    router_mod.Timer = sc.NoTimer
    with rs.VClock(T0) as clock:
        import random
        global _SCENARIO_WORLD
        if _SCENARIO_WORLD is None:          # one world (keys, six genuine frames) for all scenario cases of a process
            _SCENARIO_WORLD = World(random.Random(7))
            _SCENARIO_WORLD.make_base(clock, 6)
        w = _SCENARIO_WORLD
        clock.advance(20_000)

        class C:   # minimal ctx for mutate()
            rng = random.Random(case.get("seed", 1))
        enabled = case.get("enabled", True)
        what = case["scenario"]
        own = [w.at_own] if what.startswith("own-ticket") else []
        R = sc.RouterStation(w.pki.backend, 9, [w.root], [w.aa], [], own=own, lat=415000100, lon=21000100, enabled=enabled)
        R.set_position(clock.ms)
        oracle = Oracle([w.root], [w.aa], own)

        def check(fr, kind, note):
            oracle.observe(fr)
            out, gate, inds, conf, exc = R.receive(fr)
            if gate or inds:
                ok, why, _ = oracle.authentic(fr) if fr[0] & 0x0F == 2 else (False, "unsecured", None)
                if not ok:
                    bad.append(f"{what}: {kind} frame {note}delivered ({why})")
            return out

        for kind, base in w.base:
            sd = copy.deepcopy(sc.decode_signed(base[4:])[0])
            plain = sd["tbsData"]["payload"]["data"]["content"][1]
            unsec = bytes([0x11]) + base[1:4] + plain
            if what == "unsecured":
                fr = unsec
            elif what == "attacker-chain":
                resign(w, sd, w.eat.key_id)
                sd["signer"] = ("certificate", [w.eat.certificate])
                fr = base[:4] + reencode(sd)
            elif what == "unknown-digest":
                sd["signer"] = ("digest", b"\x09" * 8)
                fr = base[:4] + reencode(sd)
            elif what == "payload-bit":
                pl = bytearray(plain)
                pl[-1] ^= 1
                sd["tbsData"]["payload"]["data"]["content"] = ("unsecuredData", bytes(pl))
                fr = base[:4] + reencode(sd)
            elif what == "unsigned-cert":
                c = copy.deepcopy(w.at1.certificate)
                del c["signature"]
                sd["signer"] = ("certificate", [c])
                fr = base[:4] + reencode(sd)
            elif what == "own-ticket-signer":
                # forged packets naming the RECEIVER's own ticket (digest, then certificate), attacker / stale signature
                pl = bytearray(plain)
                pl[-1] ^= 1
                sd["tbsData"]["payload"]["data"]["content"] = ("unsecuredData", bytes(pl))
                for signer in (("digest", w.at_own.as_hashedid8()), ("certificate", [w.at_own.certificate])):
                    for key in (None, w.eat.key_id):
                        sd2 = copy.deepcopy(sd)
                        if key is not None:
                            resign(w, sd2, key)
                        sd2["signer"] = signer
                        check(base[:4] + reencode(sd2), kind, f"naming the receiver's own ticket ({signer[0]}) ")
                continue
            elif what == "unsigned-envelope":
                # NH = SECURED_PACKET + Ieee1609Dot2Data whose content is not signedData
                for ch, content in (("unsecuredData", plain), ("signedCertificateRequest", plain),
                                    ("encryptedData", {"recipients": [("pskRecipInfo", bytes(8))],
                                                       "ciphertext": ("aes128ccm", {"nonce": bytes(12), "ccmCiphertext": plain})})):
                    check(base[:4] + sc.make_envelope(ch, content), kind, f"with envelope content {ch} ")
                continue
            elif what == "requested-root-injection":
                # attacker packets under a self-made root, before and after a GENUINE packet that carries that root in
                # headerInfo.requestedCertificate (receiver with its sign service wired in, as in the examples)
                carrier = with_requested_certificate(w, base, w.eroot1)
                if carrier is None:
                    continue
                check(signed_under(w, base, w.eat1, "certificate", 1), kind, "signed under a self-made root (before the injection) ")
                oracle.observe(carrier)
                R.receive(carrier)
                check(signed_under(w, base, w.eat1, "certificate", 2), kind,
                      "signed under a self-made root, after a genuine packet carried that root in requestedCertificate, ")
                check(signed_under(w, base, w.eat1, "digest", 3), kind,
                      "naming by digest a ticket of the self-made root, after the injection, ")
                break          # one injection per receiver: the packets "before" must really come before
            elif what in ("raise-then-unsecured", "rhl-then-unsecured"):
                # a GENUINE packet whose processing behind the gate raises (injected fault / hop limit above the MHL),
                # then an unsecured packet on the same receive path
                oracle.observe(base)
                if what.startswith("rhl"):
                    R.receive(base[:3] + b"\xff" + base[4:])
                else:
                    R.receive(base, fault=InjectedFault("upper layer fails"))
                check(unsec, kind, "(unsecured, right after a genuine packet whose processing raised) ")
                R.receive(base)
                continue
            else:
                raise Infra(f"unknown scenario {what}")
            oracle.observe(fr)
            out, gate, inds, conf, exc = R.receive(fr)
            if what == "unsigned-cert" and out.startswith("raise"):
                bad.append(f"{what}: {kind} frame with an unsigned signer certificate makes the receive path raise {out[6:]} "
                           "(model: INCONSISTENT_CHAIN)")
            if gate or inds:
                ok, why, _ = oracle.authentic(fr) if fr[0] & 0x0F == 2 else (False, "unsecured", None)
                if not ok:
                    bad.append(f"{what}: {kind} frame delivered ({why})")
    return bad


def replay_sequence(case):
    """self-contained: the receiver is rebuilt from the recorded root / AA / ticket certificates (public material only)"""
    from flexstack.security.certificate import Certificate

    def cert(hexs, issuer=None):
        return Certificate.from_dict(sc.CODER.decode_etsi_ts_103097_certificate(bytes.fromhex(hexs)), issuer)

    class V:
        def __init__(self):
            self.items = []

        def violation(self, what, case, fid=None):
            self.items.append(what)
    v = V()
    router_mod.Timer = sc.NoTimer
    try:
        with rs.VClock(T0) as clock, rs.quiet():
            from flexstack.security.ecdsa_backend import PythonECDSABackend
            root = cert(case["root"])
            aa = cert(case["aa"], root)
            ats = [cert(h, aa) for h in case["ats"]]
            own = [cert(h, aa) for h in case.get("own", [])]
            cfg = case["cfg"]
            R = sc.RouterStation(PythonECDSABackend(), 9, [root], [aa], ats, own=own, lat=415000100, lon=21000100,
                                 **router_kw(cfg))
            oracle = Oracle([root], [aa], ats + own)
            for k, fh in zip(case["kinds"], case["frames"]):
                clock.advance(50)
                R.set_position(clock.ms)
                fr = bytes.fromhex(fh)
                oracle.observe(fr)
                out, gate, inds, conf, exc = R.receive(fr, fault=InjectedFault("upper layer fails") if k.endswith("+fault") else None)
                judge(v, oracle, cfg["enabled"], fr, gate, inds, case, k)
    finally:
        router_mod.Timer = threading.Timer
    return v.items


def replay(ctx, obj):
    case = obj.get("case", obj)
    if case.get("kind") == "scenario":
        with rs.quiet():
            bad = replay_case(case)
        print(bad or "ok")
        if case.get("scenario") == "unsigned-cert":
            return False      # nothing is delivered either way; see run()
        return bool(bad)
    if case.get("kind") == "sequence":
        bad = replay_sequence(case)
        print(bad or "ok")
        return bool(bad)
    if case.get("kind") == "conc":
        r, bad = replay_conc(case)
        print(f"pair {case['pair'].get('name')} schedule of {len(case.get('schedule', []))} choices "
              f"({dsched.preemptions(r.steps)} pre-emption(s)) -> {short(r.outs)}")
        for b in bad:
            print("  violated:", b)
        return bool(bad)
    raise Infra("unknown replay kind")

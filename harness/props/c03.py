"""C03 — Secured packets are delivered only if authentic and untampered.

Theorems: lean/Props/C03.lean about lean/FlexModel/Sec/Verify.lean (`verifyMsg`, router `gate`) on top of C09's store.
Tie: real Routers (security ENABLED/DISABLED, with/without VerifyService) with real VerifyService / CertificateLibrary /
ECDSA receive genuine secured packets produced by real sender Routers and their mutants (bit flips, byte substitution,
truncation, extension, field-level mutations re-encoded, attacker signatures and chains, unknown digests, malleated
signatures, unsecured twins, replays) in random orders.  Each frame is parsed independently of the verify path and
abstracted to the model's `Msg`; gate outcome, report code and the whole station state are compared after every frame.
Oracle (independent: `ecdsa` + own OER coder): anything handed to process_common_header / the indication callback must
come from a SECURED frame whose signature verifies over the re-encoded ToBeSignedData under the key of a ticket that
was seen (pre-loaded or carried in some received frame) and chains to the configured roots, and the delivered bytes
must be exactly the signed payload (indication data: a suffix of it).
"""
from __future__ import annotations

import copy
import threading

from common import Infra, corpus
import realstack as rs
import sec_common as sc

import flexstack.geonet.router as router_mod

MODULES = ["Props.C03"]
DRIVERS = ["Sec"]
TRUSTED = [
    "modelled rather than verified: ECDSA P-256 / SHA-256 as a perfect signature relation (`sigBy`, found by public-key "
    "recovery with the `ecdsa` package), asn1tools OER codec (decode / re-encode of the signed structure)",
    "harness/sec_common.py: abstraction of frames to model packets, independent chain checker",
]
ASSUMPTIONS = [
    "ECDSA unforgeability; OER canonicity of ToBeSignedData (encode(decode(x)) is what was signed)",
    "signature malleability (s -> n-s) and trailing bytes after the OER structure leave signed content, signer and "
    "signature value semantics untouched: such frames count as authentic on both sides",
    "HashedId8 injective on the certificates of a history",
]

T0 = 1_700_000_000_000
N = sc.ORDER


class World:
    def __init__(self, rng):
        self.rng = rng
        p = self.pki = sc.PKI()
        now = self.now = sc.its_now_s(T0)
        live = dict(start=now - 1000, duration=("hours", 100))
        self.root = p.root("root", **live)
        self.aa = p.issue(self.root, "aa", issue=sc.split_groups([36, 37, 638, 99], rng, 1), **live)
        self.at1 = p.issue(self.aa, app=[36, 37, 638, 99], **live)
        self.at2 = p.issue(self.aa, app=[36, 37], **live)
        self.eroot = p.root("evil-root", **live)
        self.eaa = p.issue(self.eroot, "evil-aa", issue=[sc.perm_all(1)], **live)
        self.eat = p.issue(self.eaa, app=[36, 37, 638, 99], **live)
        # forged ticket naming the genuine AA, signed by the attacker
        d, k = p.blank(sc.tbs(app=[36, 37], **live), ("sha256AndDigest", self.aa.as_hashedid8()))
        self.forged = p.raw(self.eat.key_id, d, self.aa, own_key_id=k)
        self.A = sc.Abs()
        self.A.register_backend(p.backend)
        for c in (self.root, self.aa, self.at1, self.at2, self.eroot, self.eaa, self.eat, self.forged):
            self.A.cert(c.certificate)
        self.base = []       # (kind, frame)

    def make_base(self, clock, n):
        """genuine frames from two real sender Routers (CAM with certificate / digest, DENM, VAM, generic)"""
        s1 = sc.RouterStation(self.pki.backend, 1, [self.root], [self.aa], [], own=[self.at1])
        s2 = sc.RouterStation(self.pki.backend, 2, [self.root], [self.aa], [], own=[self.at2], lat=415000300, lon=21000300)
        kinds = ["cam", "cam", "denm", "other", "vam", "cam"]
        for i in range(n):
            clock.advance(self.rng.choice([50, 100, 400, 1100]))
            snd = s1 if (i % 3) else s2
            kind = kinds[i % len(kinds)]
            if snd is s2 and kind in ("other", "vam"):
                kind = "cam"
            pl = bytes(self.rng.randrange(256) for _ in range(self.rng.choice([1, 8, 40])))
            fr = snd.send(kind, pl, clock.ms)
            if fr:
                self.base.append((kind, fr[0]))


# ------------------------------------------------------------------------------------------------ mutants


def reencode(sd):
    return sc.CODER.encode_etsi_ts_103097_data_signed({"protocolVersion": 3, "content": ("signedData", sd)})


def resign(w, sd, key_id):
    sd["signature"] = w.pki.backend.sign(sc.CODER.encode_to_be_signed_data(sd["tbsData"]), key_id)


def mutate(ctx, w, frame):
    """returns (kind, mutated frame)"""
    rng = ctx.rng
    hdr, body = frame[:4], frame[4:]
    r = rng.random()
    if r < 0.10:
        return "genuine", frame
    if r < 0.30:
        i = rng.randrange(len(body) * 8)
        b = bytearray(body)
        b[i // 8] ^= 1 << (i % 8)
        return "bitflip", hdr + bytes(b)
    if r < 0.38:
        i = rng.randrange(len(body))
        b = bytearray(body)
        b[i] = (b[i] + rng.randrange(1, 256)) % 256
        return "bytesub", hdr + bytes(b)
    if r < 0.44:
        return "truncate", hdr + body[:rng.randrange(0, len(body))]
    if r < 0.48:
        return "extend", frame + bytes(rng.randrange(256) for _ in range(rng.randrange(1, 9)))
    if r < 0.52:
        plain = sc.decode_signed(body)[0]["tbsData"]["payload"]["data"]["content"][1]
        return "unsecured", bytes([0x11]) + hdr[1:] + plain
    if r < 0.54:
        return rng.choice([("nh-any", bytes([0x10]) + frame[1:]), ("bad-version", bytes([0x22]) + frame[1:])])
    # field-level mutation of the decoded structure
    sd = copy.deepcopy(sc.decode_signed(body)[0])
    hi = sd["tbsData"]["headerInfo"]
    choice = rng.choice(["payload", "psid", "gentime", "hdr-add", "signer-digest-unknown", "signer-other-at", "signer-swap",
                         "r", "s", "s-malleate", "cert-field", "attacker-sig", "attacker-sig-own-cert", "attacker-digest",
                         "selfmade-chain", "forged-ticket", "resigned-genuine", "signer-self", "two-certs", "sig-format"])
    at_of = {sc.hid8(w.at1.certificate): w.at1, sc.hid8(w.at2.certificate): w.at2}
    if sd["signer"][0] == "digest":
        genuine_at = at_of.get(bytes(sd["signer"][1]))
    elif sd["signer"][0] == "certificate" and sd["signer"][1]:
        genuine_at = at_of.get(sc.hid8(sd["signer"][1][0]))
    else:
        genuine_at = None
    if choice == "payload":
        pl = bytearray(sd["tbsData"]["payload"]["data"]["content"][1])
        pl[rng.randrange(len(pl))] ^= 1 << rng.randrange(8)
        sd["tbsData"]["payload"]["data"]["content"] = ("unsecuredData", bytes(pl))
    elif choice == "psid":
        hi["psid"] = rng.choice([36, 37, 638, 99, 0, 1000])
    elif choice == "gentime":
        hi["generationTime"] = hi.get("generationTime", 0) + rng.choice([1, -1, 1000, 10**12])
    elif choice == "hdr-add":
        f = rng.choice(["expiryTime", "p2pcdLearningRequest", "generationLocation", "inlineP2pcdRequest", "drop-gentime"])
        if f == "expiryTime":
            hi["expiryTime"] = hi.get("generationTime", 0) + 10**6
        elif f == "p2pcdLearningRequest":
            hi["p2pcdLearningRequest"] = b"\x01\x02\x03"
        elif f == "generationLocation":
            if "generationLocation" in hi:
                del hi["generationLocation"]
            else:
                hi["generationLocation"] = {"latitude": 1, "longitude": 2, "elevation": 3}
        elif f == "inlineP2pcdRequest":
            hi["inlineP2pcdRequest"] = [b"\x01\x02\x03"]
        else:
            hi.pop("generationTime", None)
        if genuine_at is not None and rng.random() < 0.5:
            resign(w, sd, genuine_at.key_id)          # a genuine sender with an off-profile header
    elif choice == "signer-digest-unknown":
        sd["signer"] = ("digest", bytes(rng.randrange(256) for _ in range(8)))
    elif choice == "signer-other-at":
        other = w.at2 if genuine_at is w.at1 else w.at1
        sd["signer"] = rng.choice([("digest", other.as_hashedid8()), ("certificate", [other.certificate])])
    elif choice == "signer-swap":
        if genuine_at is not None:
            sd["signer"] = (("certificate", [genuine_at.certificate]) if sd["signer"][0] == "digest"
                            else ("digest", genuine_at.as_hashedid8()))
    elif choice in ("r", "s"):
        sig = sd["signature"][1]
        if choice == "r":
            b = bytearray(sig["rSig"][1])
            b[rng.randrange(32)] ^= 1 << rng.randrange(8)
            sig["rSig"] = ("x-only", bytes(b))
        else:
            b = bytearray(sig["sSig"])
            b[rng.randrange(32)] ^= 1 << rng.randrange(8)
            sig["sSig"] = bytes(b)
    elif choice == "s-malleate":
        s = int.from_bytes(sd["signature"][1]["sSig"], "big")
        sd["signature"][1]["sSig"] = ((N - s) % N).to_bytes(32, "big")
    elif choice == "cert-field":
        if sd["signer"][0] == "certificate" and sd["signer"][1]:
            c = sd["signer"][1][0]
            f = rng.choice(["app", "start", "key", "issuer", "sig"])
            if f == "app":
                c["toBeSigned"]["appPermissions"] = [{"psid": 36}, {"psid": 37}, {"psid": 638}, {"psid": 99}, {"psid": 1234}]
            elif f == "start":
                c["toBeSigned"]["validityPeriod"]["start"] += 1
            elif f == "key":
                c["toBeSigned"]["verifyKeyIndicator"] = w.eat.certificate["toBeSigned"]["verifyKeyIndicator"]
            elif f == "issuer":
                c["issuer"] = ("sha256AndDigest", w.eaa.as_hashedid8())
            else:
                sg = c["signature"][1]
                b = bytearray(sg["sSig"])
                b[5] ^= 4
                sg["sSig"] = bytes(b)
        else:
            sd["signer"] = ("digest", bytes(8))
    elif choice == "attacker-sig":
        resign(w, sd, w.eat.key_id)
    elif choice == "attacker-sig-own-cert":
        resign(w, sd, w.eat.key_id)
        sd["signer"] = ("certificate", [w.eat.certificate])
    elif choice == "attacker-digest":
        resign(w, sd, w.eat.key_id)
        sd["signer"] = ("digest", w.eat.as_hashedid8())
    elif choice == "selfmade-chain":
        resign(w, sd, w.eat.key_id)
        sd["signer"] = ("certificate", [w.eat.certificate, w.eaa.certificate, w.eroot.certificate][:rng.choice([1, 2, 3])])
    elif choice == "forged-ticket":
        resign(w, sd, w.forged.key_id)
        sd["signer"] = rng.choice([("certificate", [w.forged.certificate]), ("digest", w.forged.as_hashedid8())])
    elif choice == "resigned-genuine":
        if genuine_at is not None:
            hi["generationTime"] = hi.get("generationTime", 0) + rng.choice([0, 5000, 200 * 3600 * 10**6])
            resign(w, sd, genuine_at.key_id)
    elif choice == "signer-self":
        sd["signer"] = ("self", None)
    elif choice == "two-certs":
        if genuine_at is not None:
            sd["signer"] = ("certificate", [genuine_at.certificate, w.aa.certificate])
    elif choice == "sig-format":
        sig = sd["signature"][1]
        sig["rSig"] = rng.choice([("compressed-y-0", sig["rSig"][1]), ("fill", None)])
    try:
        return "field:" + choice, hdr + reencode(sd)
    except Exception:  # noqa: BLE001 - mutation not encodable
        return "genuine", frame


# ------------------------------------------------------------------------------------------------ oracle


class Oracle:
    """what the property allows to be delivered, from configured roots / authorities and every certificate seen"""

    def __init__(self, roots, aas, ats):
        self.roots = {sc.hid8(c.certificate): c.certificate for c in roots}
        self.cas = {sc.hid8(c.certificate): c.certificate for c in aas}
        self.seen = {sc.hid8(c.certificate): c.certificate for c in ats}

    def observe(self, frame):
        if len(frame) < 4 or frame[0] & 0x0F != 2:
            return None
        dec = sc.decode_signed(frame[4:])
        if dec is None:
            return None
        sd = dec[0]
        if sd["signer"][0] == "certificate":
            for c in sd["signer"][1]:
                try:
                    self.seen.setdefault(sc.hid8(c), c)
                except Exception:  # noqa: BLE001
                    pass
        return dec

    def authentic(self, frame):
        """(ok, reason, signed payload) for a frame, by the property text"""
        if len(frame) < 4 or frame[0] & 0x0F != 2:
            return False, "not-a-secured-packet", None
        dec = sc.decode_signed(frame[4:])
        if dec is None:
            return False, "undecodable", None
        sd, tbs_bytes = dec
        sg = sd["signer"]
        if sg[0] == "digest":
            at = self.seen.get(bytes(sg[1]))
            if at is None:
                return False, "digest-of-unknown-ticket", None
        elif sg[0] == "certificate" and sg[1]:
            at = sg[1][0]
        else:
            return False, "no-signer-certificate", None
        if "certIssuePermissions" in at["toBeSigned"] or at["issuer"][0] == "self":
            return False, "signer-is-not-a-ticket", None
        ok, why = sc.chain_ok(at, self.roots, self.cas)
        if not ok:
            return False, "chain:" + why, None
        if not sc.sig_ok(sc.vk_of(at), tbs_bytes, sd["signature"]):
            return False, "signature-does-not-verify", None
        try:
            pl = sd["tbsData"]["payload"]["data"]["content"][1]
        except Exception:  # noqa: BLE001
            return False, "no-payload", None
        return True, "ok", pl


def judge(ctx, oracle, enabled, frame, gate, inds, case, kind):
    delivered = list(gate) + [i.data for i in inds]
    if not delivered:
        return
    if frame[0] & 0x0F == 1:
        if enabled:
            ctx.violation(f"{kind}: unsecured packet handed to upper layers with itsGnSecurity ENABLED", case)
        return
    ok, why, signed = oracle.authentic(frame)
    if not ok:
        ctx.violation(f"{kind}: packet delivered although not authentic ({why})", case)
        return
    for g in gate:
        if bytes(g) != bytes(signed):
            ctx.violation(f"{kind}: bytes handed to the GeoNetworking layer differ from the signed payload", case)
    for i in inds:
        if not bytes(signed).endswith(bytes(i.data)):
            ctx.violation(f"{kind}: indication data is not part of the signed payload", case)


# ------------------------------------------------------------------------------------------------ sequences


def receiver_config(rng):
    r = rng.random()
    if r < 0.75:
        return dict(enabled=True, has_verify=True, has_sign=rng.random() < 0.7)
    if r < 0.87:
        return dict(enabled=False, has_verify=True, has_sign=True)
    if r < 0.94:
        return dict(enabled=True, has_verify=False, has_sign=True)
    return dict(enabled=False, has_verify=False, has_sign=False)


def run_sequence(ctx, w, clock, frames, cfg, preload, seq_id):
    """frames: list of (kind, frame).  Returns (model lines, real lines)"""
    A = w.A
    ats = [w.at1] if preload else []
    R = sc.RouterStation(w.pki.backend, 9, [w.root], [w.aa], ats, lat=415000100, lon=21000100, **cfg)
    R.set_position(clock.ms)
    oracle = Oracle([w.root], [w.aa], ats)
    pre = sc.new_station_lines(A, 1, [w.root], [w.aa], ats, cfg["has_sign"])
    items = []
    for j, (kind, frame) in enumerate(frames):
        clock.advance(ctx.rng.choice([1, 20, 150, 600]))
        R.set_position(clock.ms)
        tok = sc.frame_tokens(A, frame)
        oracle.observe(frame)
        out, gate, inds, conf, exc = R.receive(frame)
        case = {"kind": "sequence", "id": seq_id, "frames": [f.hex() for _, f in frames[:j + 1]],
                "kinds": [k for k, _ in frames[:j + 1]], "cfg": cfg, "root": w.root.encode().hex(),
                "aa": w.aa.encode().hex(), "ats": [a.encode().hex() for a in ats]}
        judge(ctx, oracle, cfg["enabled"], frame, gate, inds, case, kind)
        ctx.evals()
        ctx.cover("mut_" + kind)
        ctx.cover("out_" + (out if not out.startswith("raise") else "raise"))
        if conf is not None:
            ctx.cover("report_" + conf.report.name)
        if tok is None:
            ctx.cover("unmodelled_basic_header")
            continue
        if out == "pass":
            real = "pass:" + str(A.payload(gate[0]))
        elif out == "drop":
            if frame[0] & 0x0F == 1:
                real = "drop:unsecured"
            elif not cfg["has_verify"]:
                real = "drop:no-verify-service"
            elif conf is not None:
                real = f"drop:report-{conf.report.value}"
            else:
                real = "drop:?"
        else:
            real = "raise:parse" if tok == "P" else out
        items.append((f"gate 1 {int(cfg['enabled'])} {int(cfg['has_verify'])} {tok}", real + " " + R.dump(A)))
        if inds:
            ctx.cover("indications")
        ctx.nontrivial((kind, out, conf.report.name if conf else None, tok.split()[0], tok.split()[9] if tok.startswith("S ") else ""))
    lines = ["reset"] + A.all_lines() + pre + [m for m, _ in items]
    reals = [None] * (1 + len(A.all_lines()) + len(pre)) + [r for _, r in items]
    return lines, reals


def compare(ctx, batches):
    if not ctx.model_ok:
        return
    out = ctx.model("Sec", [l for ls, _, _ in batches for l in ls])
    pos = 0
    for ls, reals, sid in batches:
        for j, (l, r) in enumerate(zip(ls, reals)):
            if r is not None and out[pos + j] != r:
                ctx.mismatch("gate", {"sequence": sid, "line": l}, r, out[pos + j])
                break
        pos += len(ls)


def check_sequences(ctx, w, clock, n_seq, tag):
    batches = []
    for s in range(n_seq):
        k = ctx.rng.randrange(6, 16)
        frames = []
        for _ in range(k):
            kind, base = ctx.rng.choice(w.base)
            mk, fr = mutate(ctx, w, base)
            frames.append((mk, fr))
            if ctx.rng.random() < 0.25:
                frames.append(("genuine", base))      # the untouched original around its mutants, in any order
        ctx.rng.shuffle(frames)
        if ctx.rng.random() < 0.3:
            frames += [frames[ctx.rng.randrange(len(frames))] for _ in range(3)]   # replays
        cfg = receiver_config(ctx.rng)
        lines, reals = run_sequence(ctx, w, clock, frames, cfg, ctx.rng.random() < 0.3, f"{tag}{s}")
        batches.append((lines, reals, f"{tag}{s}"))
    compare(ctx, batches)
    if batches:
        ls, rs_, _ = batches[0]
        ctx.sample("sequence", {"model_in": [l for l in ls if l.startswith("gate")][:3], "real": [r for r in rs_ if r][:3]})


def check_all_bitflips(ctx, w, clock, n_base):
    """thorough: every single-bit flip of the security envelope of `n_base` genuine frames"""
    batches = []
    for bi in range(min(n_base, len(w.base))):
        kind, base = w.base[bi]
        body = base[4:]
        frames = [("genuine", base)]
        for i in range(len(body) * 8):
            b = bytearray(body)
            b[i // 8] ^= 1 << (i % 8)
            frames.append(("bitflip", base[:4] + bytes(b)))
        for chunk in range(0, len(frames), 400):
            lines, reals = run_sequence(ctx, w, clock, frames[chunk:chunk + 400], dict(enabled=True, has_verify=True, has_sign=True),
                                        False, f"flip{bi}_{chunk}")
            batches.append((lines, reals, f"flip{bi}_{chunk}"))
        ctx.cover("all_bitflips_of_frame")
    compare(ctx, batches)


def run(ctx):
    ctx.extra["rule"] = ("sequences of 6-20 frames (genuine CAM/DENM/VAM/generic frames of two real senders and their mutants, "
                         "replays, random order) into real receiving Routers in 4 security configurations; thorough adds every "
                         "single-bit flip of 8 frames. distinct_nontrivial counts distinct (mutation kind, outcome, report, "
                         "signer kind) classes")
    router_mod.Timer = sc.NoTimer
    try:
        with rs.VClock(T0) as clock, rs.quiet():
            for name, c in corpus("C03"):
                bad = replay_case(c)
                for b in bad:
                    if c.get("scenario") == "unsigned-cert":
                        # raising instead of reporting INCONSISTENT_CHAIN is not a delivery: a model/code disagreement
                        # (regression of fix C03-F1; the exception itself is C04's subject), not a C03 violation
                        ctx.mismatch("corpus", c, b, "drop:report-4")
                    else:
                        ctx.violation(f"{name}: {b}", c)
                ctx.cover("corpus_cases")
            for wi in range(ctx.scale(1, 3)):
                w = World(ctx.rng)
                w.make_base(clock, ctx.scale(14, 40))
                check_sequences(ctx, w, clock, ctx.scale(90, 700), f"w{wi}s")
                if ctx.thorough and wi == 0:
                    check_all_bitflips(ctx, w, clock, 8)
    finally:
        router_mod.Timer = threading.Timer


def search(ctx):
    ok = ctx.model_ok
    ctx.model_ok = False
    router_mod.Timer = sc.NoTimer
    try:
        with rs.VClock(T0) as clock, rs.quiet():
            for wi in range(3):
                w = World(ctx.rng)
                w.make_base(clock, 14)
                check_sequences(ctx, w, clock, ctx.scale(110, 400), f"x{wi}s")
    finally:
        router_mod.Timer = threading.Timer
        ctx.model_ok = ok


def replay_case(case):
    """a saved sequence: concrete frames need the keys of their world, so the case is regenerated structurally:
    kinds 'scenario' are self-contained constructions"""
    bad = []
    if case.get("kind") != "scenario":
        return bad
    router_mod.Timer = sc.NoTimer
    with rs.VClock(T0) as clock:
        import random
        w = World(random.Random(7))
        w.make_base(clock, 6)

        class C:   # minimal ctx for mutate()
            rng = random.Random(case.get("seed", 1))
        enabled = case.get("enabled", True)
        R = sc.RouterStation(w.pki.backend, 9, [w.root], [w.aa], [], lat=415000100, lon=21000100, enabled=enabled)
        R.set_position(clock.ms)
        oracle = Oracle([w.root], [w.aa], [])
        what = case["scenario"]
        for kind, base in w.base:
            sd = copy.deepcopy(sc.decode_signed(base[4:])[0])
            if what == "unsecured":
                fr = bytes([0x11]) + base[1:4] + sd["tbsData"]["payload"]["data"]["content"][1]
            elif what == "attacker-chain":
                resign(w, sd, w.eat.key_id)
                sd["signer"] = ("certificate", [w.eat.certificate])
                fr = base[:4] + reencode(sd)
            elif what == "unknown-digest":
                sd["signer"] = ("digest", b"\x09" * 8)
                fr = base[:4] + reencode(sd)
            elif what == "payload-bit":
                pl = bytearray(sd["tbsData"]["payload"]["data"]["content"][1])
                pl[-1] ^= 1
                sd["tbsData"]["payload"]["data"]["content"] = ("unsecuredData", bytes(pl))
                fr = base[:4] + reencode(sd)
            elif what == "unsigned-cert":
                c = copy.deepcopy(w.at1.certificate)
                del c["signature"]
                sd["signer"] = ("certificate", [c])
                fr = base[:4] + reencode(sd)
            else:
                raise Infra(f"unknown scenario {what}")
            oracle.observe(fr)
            out, gate, inds, conf, exc = R.receive(fr)
            if what == "unsigned-cert" and out.startswith("raise"):
                bad.append(f"{what}: {kind} frame with an unsigned signer certificate makes the receive path raise {out[6:]} "
                           "(model: INCONSISTENT_CHAIN)")
            if gate or inds:
                ok, why, _ = oracle.authentic(fr) if fr[0] & 0x0F == 2 else (False, "unsecured", None)
                if not ok:
                    bad.append(f"{what}: {kind} frame delivered ({why})")
    return bad


def replay_sequence(case):
    """self-contained: the receiver is rebuilt from the recorded root / AA / ticket certificates (public material only)"""
    from flexstack.security.certificate import Certificate

    def cert(hexs, issuer=None):
        return Certificate.from_dict(sc.CODER.decode_etsi_ts_103097_certificate(bytes.fromhex(hexs)), issuer)

    class V:
        def __init__(self):
            self.items = []

        def violation(self, what, case, fid=None):
            self.items.append(what)
    v = V()
    router_mod.Timer = sc.NoTimer
    try:
        with rs.VClock(T0) as clock, rs.quiet():
            from flexstack.security.ecdsa_backend import PythonECDSABackend
            root = cert(case["root"])
            aa = cert(case["aa"], root)
            ats = [cert(h, aa) for h in case["ats"]]
            cfg = case["cfg"]
            R = sc.RouterStation(PythonECDSABackend(), 9, [root], [aa], ats, lat=415000100, lon=21000100, **cfg)
            oracle = Oracle([root], [aa], ats)
            for k, fh in zip(case["kinds"], case["frames"]):
                clock.advance(50)
                R.set_position(clock.ms)
                fr = bytes.fromhex(fh)
                oracle.observe(fr)
                out, gate, inds, conf, exc = R.receive(fr)
                judge(v, oracle, cfg["enabled"], fr, gate, inds, case, k)
    finally:
        router_mod.Timer = threading.Timer
    return v.items


def replay(ctx, obj):
    case = obj.get("case", obj)
    if case.get("kind") == "scenario":
        with rs.quiet():
            bad = replay_case(case)
        print(bad or "ok")
        if case.get("scenario") == "unsigned-cert":
            return False      # nothing is delivered either way; see run()
        return bool(bad)
    if case.get("kind") == "sequence":
        bad = replay_sequence(case)
        print(bad or "ok")
        return bool(bad)
    raise Infra("unknown replay kind")

"""C10 — CAM and VAM generation follow the timing and trigger rules of their standards.

Theorems: lean/Props/C10.lean about lean/FlexModel/Fac/CamTM.lean and VamTM.lean.
Tie: the real CAMTransmissionManagement (virtual T_CheckCamGen timer, virtual clock, capturing BTP router, real CAM
coder) and the real VAMTransmissionManagement (report driven, wall clock patched) are run op by op on generated
trajectories; every emitted payload is decoded with the repository's coder; per op the canonical line
"sent? containers? generationDeltaTime? which report? + management state" is compared with the Lean model.
Oracle: the timing rules of the property text / TS 103 900 §6.1.3 / TS 103 300-3 §6.4.1 (`oracle_cam`, `oracle_vam`),
written over the timed emission log only, independent of the code and of the model.
"""
from __future__ import annotations

import datetime
import heapq
import logging
import math
import threading
import time as _time
import types

from common import Infra, corpus
import realstack as rs

import flexstack.facilities.ca_basic_service.cam_transmission_management as ctm
import flexstack.facilities.vru_awareness_service.vam_transmission_management as vtm
from flexstack.facilities.ca_basic_service.cam_coder import CAMCoder
from flexstack.facilities.vru_awareness_service.vam_coder import VAMCoder
from flexstack.utils.time_service import TimeService

MODULES = ["Props.C10"]
DRIVERS = ["CamTM", "VamTM"]
TRUSTED = [
    "modelled rather than verified: IEEE-754 comparisons of heading/speed (inputs on binary-exact grids: 0.25 deg, "
    "1/8 m/s, so float and integer comparisons coincide), the haversine distance (independent oracle in the harness, "
    "positions kept >= 2 cm from the 4 m threshold), dateutil parsing of the report time, the float expression in "
    "GenerationDeltaTime.from_timestamp (decoded generationDeltaTime compared with the exact integer value), "
    "asn1tools UPER (every payload decoded)",
    "the virtual threading.Timer / clock (TimeService.time returns ms+0.5 so that int(time*1000) is exact) and the "
    "capturing BTP router of harness/props/c10.py",
]
ASSUMPTIONS = [
    "time is observed in integer milliseconds; reports carry a `time` field (ISO-8601, millisecond precision)",
    "CAM minimum interval is judged within one activation (start..stop); a stop/start cycle begins a new activation "
    "whose first CAM is immediate (TS 103 900 §6.1.2)",
    "VAM: report timestamps are non-decreasing; reports are < 65.4 s apart for the upper bound; sends succeed; "
    "the low-frequency container is timed on the wall clock at sending (as the code does)",
    "known finding C10-KF1: VAM triggers 2-4 (position/speed/heading change) are not gated by T_GenVamMin "
    "(pinned by 4 unit tests that expect a VAM 1 ms after the previous one)",
]

ITS_EPOCH_MS = 1072915200000   # 2004-01-01T00:00:00Z, written from TS 102 894-2 (not read from the repo)
LEAP_MS = 5000                 # TAI-UTC leap seconds since 2004 included in TimestampIts
T_GEN_CAM_MIN, T_GEN_CAM_MAX, T_LF_CAM = 100, 1000, 500       # TS 103 900 §6.1.3
T_GEN_VAM_MIN, T_GEN_VAM_MAX, T_LF_VAM = 100, 5000, 2000      # TS 103 300-3 Table 16
EARTH_R = 6371000.0


# ------------------------------------------------------------------------------------------------
# virtual time


class HalfClock(rs.VClock):
    """virtual clock: integer ms; TimeService.time() = (ms + 0.5)/1000 so that int(time*1000) == ms exactly"""

    def install(self):
        self._orig = TimeService.__dict__["time"]
        clock = self
        TimeService.time = staticmethod(lambda: (clock.ms + 0.5) / 1000.0)
        return self


class Sched:
    """virtual threading.Timer registry"""

    def __init__(self, clock, late):
        self.clock, self.heap, self.seq = clock, [], 0
        self.late, self.late_i = list(late) or [0], 0
        sched = self

        class VTimer:
            def __init__(self, interval, function, args=None, kwargs=None):
                self.interval, self.function = interval, function
                self.args, self.kwargs = args or (), kwargs or {}
                self.daemon = False
                self.cancelled = self.fired = False

            def start(self):
                lateness = sched.late[sched.late_i % len(sched.late)]
                sched.late_i += 1
                due = sched.clock.ms + int(round(self.interval * 1000)) + lateness
                sched.seq += 1
                heapq.heappush(sched.heap, (due, sched.seq, self))

            def cancel(self):
                self.cancelled = True

        self.Timer = VTimer

    def _clean(self):
        while self.heap and (self.heap[0][2].cancelled or self.heap[0][2].fired):
            heapq.heappop(self.heap)

    def next_due(self):
        self._clean()
        return self.heap[0][0] if self.heap else None

    def pop(self):
        self._clean()
        return heapq.heappop(self.heap)

    def pending(self):
        return sum(1 for _, _, t in self.heap if not t.cancelled and not t.fired)


class CapRouter:
    """stands in for the BTP router: records requests with the virtual time, optionally fails"""

    def __init__(self, clock):
        self.clock, self.sent, self.fail_next = clock, [], False

    def btp_data_request(self, request):
        if self.fail_next:
            raise RuntimeError("injected BTP failure")
        self.sent.append((self.clock.ms, request))

    def take(self):
        s, self.sent = self.sent, []
        return s


def iso(ms):
    return (datetime.datetime(1970, 1, 1) + datetime.timedelta(milliseconds=ms)).isoformat(timespec="milliseconds") + "Z"


def its_of(report_ms):
    return report_ms - ITS_EPOCH_MS + LEAP_MS


def haversine_oracle(lat1, lon1, lat2, lon2):
    """independent great-circle distance (asin form) in metres"""
    p1, p2 = math.radians(lat1), math.radians(lat2)
    h = math.sin((p2 - p1) / 2) ** 2 + math.cos(p1) * math.cos(p2) * math.sin(math.radians(lon2 - lon1) / 2) ** 2
    return 2 * EARTH_R * math.asin(min(1.0, math.sqrt(h)))


def circ_diff(a, b):
    d = abs(a - b) % 360.0
    return min(d, 360.0 - d)


# ------------------------------------------------------------------------------------------------
# trajectories


RATES = [1, 2, 4, 5, 10, 20, 25, 50]
STYLES = ["constant", "accelerating", "turning", "stopgo", "random", "missing", "gaps", "still"]


def gen_reports(rng, style, dur_ms, period, t_first, t0):
    """timed position reports (relative time, tpv dict) of one trajectory; t0 = absolute ms of relative time 0"""
    lat = rng.uniform(-80, 80)
    lon = rng.uniform(-179, 179)
    hd = rng.randrange(0, 1440) * 0.25
    sp = rng.randrange(0, 320) * 0.125
    if style == "still":
        sp = 0.0
    acc = rng.choice([-3, -2, -1, 1, 2, 3, 4]) * 0.125      # per report
    turn = rng.choice([-8, -4, -2, -1, 1, 2, 4, 8, 16]) * 0.25
    if style == "turning":
        hd = rng.choice([350.0, 355.5, 2.0, 0.0, 359.75, 10.25])
    latency = rng.choice([0, 0, 3, 20, 80])
    out, t, phase, gap_until = [], t_first, 0, -1
    while t < dur_ms:
        dt = period / 1000.0
        if style == "accelerating":
            sp = min(max(0.0, sp + acc), 60.0)
        elif style == "turning":
            hd = (hd + turn) % 360.0
        elif style == "stopgo":
            phase = (t // 3000) % 3
            sp = max(0.0, sp - 1.0) if phase == 0 else (sp if phase == 1 else min(30.0, sp + 0.75))
        elif style in ("random", "missing", "gaps"):
            if rng.random() < 0.3:
                sp = min(max(0.0, sp + rng.randrange(-6, 7) * 0.125), 70.0)
            if rng.random() < 0.3:
                hd = (hd + rng.randrange(-24, 25) * 0.25) % 360.0
        lat += sp * dt * math.cos(math.radians(hd)) / 111320.0
        lon += sp * dt * math.sin(math.radians(hd)) / (111320.0 * max(0.05, math.cos(math.radians(lat))))
        lat = max(-89.9, min(89.9, lat))
        lon = ((lon + 180.0) % 360.0) - 180.0
        tpv = {"class": "TPV", "mode": 3, "time": iso(t0 + t - latency), "lat": lat, "lon": lon, "track": hd,
               "speed": sp, "altHAE": 120.5, "epx": 2.5, "epy": 3.25, "epv": 4.0, "epd": 1.5}
        if style == "missing":
            for k in ("track", "speed", "altHAE", "epx", "epv", "epd"):
                if rng.random() < 0.25:
                    del tpv[k]
            if rng.random() < 0.15:
                del tpv["lat"], tpv["lon"]
        if style == "gaps" and t > gap_until and rng.random() < 0.03:
            gap_until = t + rng.randrange(300, 3500)
        if not (style == "gaps" and t <= gap_until):
            out.append([t, "report", tpv])
        t += period
    return out


def pick_t0(rng):
    """mostly the present; one in four runs in 2038-2039, where seconds >= 2^31 and ms < 2^41 (float products of
    `seconds*1000` are least accurate there)"""
    if rng.random() < 0.25:
        return 2_150_000_000_000 + rng.randrange(0, 45_000_000_000)
    return 1_700_000_000_000 + rng.randrange(0, 100_000_000_000)


def gen_cam_scenario(rng, dur_ms, style=None, wrap=False):
    style = style or rng.choice(STYLES)
    rate = rng.choice(RATES)
    t0 = pick_t0(rng)
    if wrap:     # generationDeltaTime wraps a few seconds into the run
        t0 += (65536 - its_of(t0) % 65536) - rng.randrange(1000, max(2000, min(dur_ms, 60000)))
    events = gen_reports(rng, style, dur_ms, 1000 // rate, rng.randrange(0, 1000 // rate), t0)
    mode = rng.choice(["plain", "plain", "restart", "late-start", "fail", "jitter"])
    ctl = [[0, "start"]]
    if mode == "restart":
        ctl = []
        t, on = rng.randrange(0, 300), False
        while t < dur_ms:
            ctl.append([t, "stop" if on and rng.random() < 0.8 else "start"])
            on = ctl[-1][1] == "start"
            t += rng.choice([1, 7, 50, 99, 100, 101, 250, 1200, 4000, 9000])
        ctl.insert(0, [0, rng.choice(["stop", "start"])])
    elif mode == "late-start":
        ctl = [[rng.randrange(500, 3000), "start"], [dur_ms - rng.randrange(100, 2000), "stop"]]
    n_checks = dur_ms // 100 + 5
    fails = sorted(rng.sample(range(n_checks), max(1, n_checks // 25))) if mode == "fail" else []
    late = [rng.choice([0, 0, 1, 5, 20, 40]) for _ in range(7)] if mode == "jitter" else [0]
    role = rng.choice([0, 0, 0, 5, 6])
    return {"kind": "cam", "style": style, "mode": mode, "rate": rate, "t0": t0, "dur": dur_ms,
            "delay": rng.randrange(0, 100), "late": late, "role": role, "station_type": rng.choice([5, 5, 2, 4, 10]),
            "special": bool(role and rng.random() < 0.7), "fails": fails,
            "events": sorted(events + ctl, key=lambda e: (e[0], 0 if e[1] != "report" else 1))}


def gen_vam_scenario(rng, dur_ms, style=None, wrap=False, rate=None, tgen=100):
    style = style or rng.choice(STYLES)
    rate = rate or rng.choice(RATES)
    t0 = pick_t0(rng)
    if wrap:
        t0 += (65536 - its_of(t0) % 65536) - rng.randrange(1000, max(2000, min(dur_ms, 60000)))
    events = gen_reports(rng, style, dur_ms, 1000 // rate, rng.randrange(0, 1000 // rate), t0)
    if style == "missing":     # the VAM path needs time; lat/lon/speed may be missing
        pass
    gate_mode = rng.choice(["open", "open", "open", "passive-phases"])
    for e in events:
        g = 1
        if gate_mode == "passive-phases" and (e[0] // 2500) % 3 == 1:
            g = 0
        e.append(g)
    exact = rng.random() < 0.15   # wall clock on the binary-exact 125 ms grid (tests the 2 s LF boundary exactly)
    return {"kind": "vam", "style": style, "rate": rate, "t0": t0, "dur": dur_ms, "tgen": tgen,
            "wall_lag": 0 if exact else rng.choice([0, 1, 2, 7]), "exact": exact, "events": events}


# ------------------------------------------------------------------------------------------------
# CAM: run the real code


def decode_cam(coder, payload):
    d = coder.decode(payload)
    p = d["cam"]["camParameters"]
    rp = p["basicContainer"]["referencePosition"]
    hf = p["highFrequencyContainer"][1]
    ext = sorted(int(e["containerId"]) for e in p.get("extensionContainers", []))
    return {"gdt": d["cam"]["generationDeltaTime"], "lat": rp["latitude"], "lon": rp["longitude"],
            "heading": hf["heading"]["headingValue"], "speed": hf["speed"]["speedValue"],
            "lf": "lowFrequencyContainer" in p, "special": "specialVehicleContainer" in p,
            "vlf": 3 in ext, "tw": 1 in ext, "station": d["header"]["stationId"]}


def reflects(dec, tpv, lat_key="lat", lon_key="lon"):
    """does the decoded message carry the values of this report (resolution of each DE; gdt exact)?"""
    bad = []
    if "time" in tpv:
        want = its_of(parse_ms(tpv["time"])) % 65536
        if dec["gdt"] != want:
            bad.append(f"gdt {dec['gdt']} != {want}")
    for k, key, scale, unav in (("lat", lat_key, 1e7, 900000001), ("lon", lon_key, 1e7, 1800000001)):
        if key in tpv:
            if abs(dec[k] - tpv[key] * scale) >= 1.0 + 1e-6:
                bad.append(f"{k} {dec[k]} vs {tpv[key]}")
        elif dec[k] != unav:
            bad.append(f"{k} {dec[k]} should be unavailable")
    if "track" in tpv:
        if abs(dec["heading"] - tpv["track"] * 10) >= 1.0:
            bad.append(f"heading {dec['heading']} vs {tpv['track']}")
    elif dec["heading"] != 3601:
        bad.append("heading should be unavailable")
    if "speed" in tpv:
        if tpv["speed"] * 100 < 16382 and abs(dec["speed"] - tpv["speed"] * 100) >= 1.0:
            bad.append(f"speed {dec['speed']} vs {tpv['speed']}")
    elif dec["speed"] != 16383:
        bad.append("speed should be unavailable")
    return bad


def parse_ms(s):
    dt = datetime.datetime.strptime(s, "%Y-%m-%dT%H:%M:%S.%fZ")
    return int((dt - datetime.datetime(1970, 1, 1)) // datetime.timedelta(milliseconds=1))


def cdeg(x):
    v = x * 100
    if v != int(v):
        raise Infra(f"heading {x} not on the 0.01 degree grid")
    return int(v)


def mms(x):
    v = x * 1000
    if v != int(v):
        raise Infra(f"speed {x} not on the mm/s grid")
    return int(v)


def run_cam(sc, coder, quiet_log=True):
    """drive the real CAMTransmissionManagement through scenario `sc`.
    returns (model_lines, real_lines, oracle_log, info)"""
    clock = HalfClock(sc["t0"])
    sched = Sched(clock, sc.get("late", [0]))
    cap = CapRouter(clock)
    lines, reals, log = [], [], []
    info = {"checks": 0, "cams": 0, "nudges": 0, "tol": 0}
    saved = (ctm.threading, ctm.random)
    logger = logging.getLogger("ca_basic_service")
    old_level = logger.level
    logger.setLevel(logging.CRITICAL + 10)
    ctm.threading = types.SimpleNamespace(Timer=sched.Timer, Lock=threading.Lock)
    ctm.random = types.SimpleNamespace(uniform=lambda a, b: sc["delay"] / 1000.0)
    try:
        with clock:
            vd = ctm.VehicleData(station_id=4242, station_type=sc["station_type"], vehicle_role=sc["role"],
                                 special_vehicle_data=(("emergencyContainer", {"lightBarSirenInUse": (b"\x80", 2)})
                                                       if sc["special"] else None))
            obj = ctm.CAMTransmissionManagement(cap, coder, vd, None)
            tw = 1 if sc["station_type"] in (2, 3, 4) else 0
            lines.append(f"init {sc['role']} {tw} {1 if sc['special'] else 0}")

            def st():
                p = sched.pending()
                return f"st {int(obj._active)} {p if p < 2 else 'many'} {obj.t_gen_cam} {obj._n_gen_cam_counter} {obj._cam_count}"

            reals.append(st())
            cur = None            # (rid, tpv) last delivered report
            last_pos = None       # position of the last CAM that carried one
            rid = 0
            fails = set(sc.get("fails", []))

            def deliver(t_rel, tpv, nudge=False):
                nonlocal cur, rid
                rid += 1
                obj.location_service_callback(tpv)
                cur = (rid, tpv)
                its = its_of(parse_ms(tpv["time"])) if "time" in tpv else None
                lines.append("report %d %s %s %s %d" % (
                    rid, "-" if its is None else its, cdeg(tpv["track"]) if "track" in tpv else "-",
                    mms(tpv["speed"]) if "speed" in tpv else "-", 1 if ("lat" in tpv and "lon" in tpv) else 0))
                reals.append(st())
                log.append(("report", clock.ms, rid, tpv))
                stray = cap.take()
                if stray:
                    log.append(("stray", clock.ms, "report"))

            def dist_mm():
                if cur is None or last_pos is None or "lat" not in cur[1] or "lon" not in cur[1]:
                    return 0, None
                d = haversine_oracle(last_pos[0], last_pos[1], cur[1]["lat"], cur[1]["lon"])
                return int(round(d * 1000)), d

            def fire():
                nonlocal last_pos
                clock.ms = sched.next_due()
                now = int(TimeService.time() * 1000)
                if now != clock.ms:
                    raise Infra("virtual clock is not millisecond exact")
                # keep the cached position >= 2 cm away from the 4 m threshold (extra, nudged report)
                if obj._active:
                    for _ in range(6):
                        dmm, d = dist_mm()
                        if d is None or abs(d - 4.0) >= 0.02:
                            break
                        t2 = dict(cur[1])
                        t2["lat"] = t2["lat"] + (7e-7 if t2["lat"] < 80 else -7e-7)
                        info["nudges"] += 1
                        deliver(clock.ms - sc["t0"], t2, nudge=True)
                dmm, d = dist_mm()
                _, _, tm = sched.pop()
                idx = info["checks"]
                info["checks"] += 1
                fail = idx in fails
                cap.fail_next = fail
                was_active = obj._active
                tm.fired = True
                tm.function(*tm.args, **tm.kwargs)
                cap.fail_next = False
                sent = cap.take()
                lines.append(f"check {now} {dmm} {0 if fail else 1}")
                cam = None
                if len(sent) > 1:
                    log.append(("stray", clock.ms, "two CAMs in one check"))
                if sent:
                    dec = decode_cam(coder, sent[0][1].data)
                    port_ok = sent[0][1].destination_port == 2001
                    bad = reflects(dec, cur[1]) if cur else ["no report yet"]
                    if not port_ok:
                        bad.append("port")
                    cam = {"dec": dec, "bad": bad, "rid": cur[0] if cur else -1}
                    r_rid = cur[0] if (cur and not bad) else -1
                    reals.append(f"cam {int(dec['lf'])} {int(dec['special'])} {int(dec['vlf'])} {int(dec['tw'])} "
                                 f"{dec['gdt']} {r_rid} " + st())
                    if cur and "lat" in cur[1] and "lon" in cur[1]:
                        last_pos = (cur[1]["lat"], cur[1]["lon"])
                    info["cams"] += 1
                else:
                    reals.append("none " + st())
                log.append(("check", clock.ms, {"fail": fail, "dist": d, "cam": cam, "cur": cur, "active": was_active}))

            for ev in sc["events"] + [[sc["dur"], "end"]]:
                t_abs = sc["t0"] + ev[0]
                while True:
                    nd = sched.next_due()
                    if nd is None or nd > t_abs:
                        break
                    fire()
                clock.ms = max(clock.ms, t_abs)
                if ev[1] == "report":
                    deliver(ev[0], ev[2])
                elif ev[1] == "start":
                    was = obj._active
                    obj.start()
                    if not was:
                        last_pos = None
                    lines.append("start")
                    reals.append(st())
                    log.append(("start", clock.ms))
                    if cap.take():
                        log.append(("stray", clock.ms, "start"))
                elif ev[1] == "stop":
                    obj.stop()
                    lines.append("stop")
                    reals.append(st())
                    log.append(("stop", clock.ms))
                    if cap.take():
                        log.append(("stray", clock.ms, "stop"))
            obj.stop()
    finally:
        ctm.threading, ctm.random = saved
        logger.setLevel(old_level)
    return lines, reals, log, info


def oracle_cam(log, P):
    """TS 103 900 §6.1.3 / property text over the timed log.  returns [(rule, time, detail)]"""
    out = []
    active = False
    cur = None
    last_t = None            # time of the last CAM of this activation
    last_lf = None
    ref = {"track": None, "pos": None, "speed": None}   # values lastly included in a CAM
    prev_check = None
    clean = True             # since the last CAM every check was serviceable (report present, send ok, <= P apart)
    start_t = None
    for e in log:
        kind, t = e[0], e[1]
        if kind == "stray":
            out.append(("silent", t, f"message emitted outside a check ({e[2]})"))
        elif kind == "start":
            if not active:
                active, last_t, last_lf, prev_check, clean, start_t = True, None, None, None, True, t
                ref = {"track": None, "pos": None, "speed": None}
        elif kind == "stop":
            active = False
        elif kind == "report":
            cur = (e[2], e[3])
        elif kind == "check":
            c = e[2]
            cam = c["cam"]
            if not active:
                if cam is not None:
                    out.append(("silent", t, "CAM while the service is not active"))
                continue
            base = prev_check if prev_check is not None else start_t
            if t - base > P:
                out.append(("timer", t, f"no check for {t - base} ms > {P} while active"))
                clean = False
            serviceable = cur is not None and not c["fail"]
            if cam is not None:
                if last_t is not None and t - last_t < T_GEN_CAM_MIN:
                    out.append(("min-gap", t, f"{t - last_t} ms after the previous CAM"))
                if last_t is not None and clean and t - last_t > T_GEN_CAM_MAX + P:
                    out.append(("max-gap", t, f"{t - last_t} ms after the previous CAM"))
                want_lf = last_lf is None or t - last_lf >= T_LF_CAM
                if cam["dec"]["lf"] != want_lf:
                    out.append(("lf", t, f"LF container {'present' if cam['dec']['lf'] else 'absent'}, "
                                         f"{'first CAM' if last_lf is None else str(t - last_lf) + ' ms after the last LF'}"))
                if cam["bad"]:
                    out.append(("gdt" if all(b.startswith("gdt") for b in cam["bad"]) else "latest-report", t, "; ".join(cam["bad"])))
                if cam["dec"]["lf"]:
                    last_lf = t
                last_t, clean = t, True
                tpv = cur[1] if cur else {}
                if "track" in tpv:
                    ref["track"] = tpv["track"]
                if "lat" in tpv and "lon" in tpv:
                    ref["pos"] = (tpv["lat"], tpv["lon"])
                if "speed" in tpv:
                    ref["speed"] = tpv["speed"]
            else:
                if serviceable:
                    tpv = cur[1]
                    if last_t is None:
                        out.append(("first", t, "no CAM at the first check with position data after activation"))
                    else:
                        el = t - last_t
                        dyn = []
                        if "track" in tpv and ref["track"] is not None and circ_diff(tpv["track"], ref["track"]) > 4.0:
                            dyn.append("heading")
                        if "speed" in tpv and ref["speed"] is not None and abs(tpv["speed"] - ref["speed"]) > 0.5:
                            dyn.append("speed")
                        if "lat" in tpv and "lon" in tpv and ref["pos"] is not None:
                            d = haversine_oracle(ref["pos"][0], ref["pos"][1], tpv["lat"], tpv["lon"])
                            if d > 4.0 + 0.02:
                                dyn.append("position")
                        if el >= T_GEN_CAM_MIN and dyn:
                            out.append(("responsive", t, f"{el} ms elapsed, {'/'.join(dyn)} changed, no CAM"))
                        if clean and el > T_GEN_CAM_MAX + P:
                            out.append(("max-gap", t, f"{el} ms since the previous CAM and none at this check"))
                else:
                    clean = False
            prev_check = t
    return out


# ------------------------------------------------------------------------------------------------
# VAM: run the real code


class Gate:
    """clustering manager stand-in: only the transmission gate (cluster containers belong to C18)"""

    def __init__(self):
        self.open = True

    def should_transmit_vam(self):
        return self.open

    def get_cluster_information_container(self):
        return None

    def get_cluster_operation_container(self):
        return None


def decode_vam(coder, payload):
    d = coder.decode(payload)
    p = d["vam"]["vamParameters"]
    rp = p["basicContainer"]["referencePosition"]
    hf = p["vruHighFrequencyContainer"]
    return {"gdt": d["vam"]["generationDeltaTime"], "lat": rp["latitude"], "lon": rp["longitude"],
            "heading": hf["heading"]["value"], "speed": hf["speed"]["speedValue"],
            "lf": "vruLowFrequencyContainer" in p}


def detect_vam_gated(coder):
    """witness of C10-KF1 on the real code: 1 = triggers 2-4 gated by T_GenVamMin, 0 = code as pinned by the tests"""
    sc = {"kind": "vam", "t0": 1_700_000_000_000, "tgen": 100, "wall_lag": 0, "exact": False, "events": [
        [0, "report", {"time": iso(1_700_000_000_000), "lat": 41.0, "lon": 2.0, "speed": 1.0, "track": 90.0}, 1],
        [20, "report", {"time": iso(1_700_000_000_020), "lat": 41.0, "lon": 2.0, "speed": 3.0, "track": 90.0}, 1]]}
    _, reals, _, _ = run_vam(sc, coder, gated=0)
    return 0 if reals[2].startswith("vam") else 1


def run_vam(sc, coder, gated):
    clock = HalfClock(sc["t0"])
    cap = CapRouter(clock)
    gate = Gate()
    lines, reals, log = [], [], []
    info = {"reports": 0, "vams": 0, "nudges": 0, "errors": 0}
    logger = logging.getLogger("vru_basic_service")
    old_level = logger.level
    logger.setLevel(logging.CRITICAL + 10)
    real_time = _time.time
    try:
        with clock:
            ddp = vtm.DeviceDataProvider(station_id=777, station_type=1)
            obj = vtm.VAMTransmissionManagement(cap, coder, ddp, None, gate)
            obj.t_genvam = sc.get("tgen", 100)
            lines.append(f"init {gated} {obj.t_genvam}")

            def st():
                g = obj.last_vam_generation_delta_time
                return "st %s %d %d %d %d %d" % (
                    "-" if g is None else g.msec, round(obj.last_sent_position[0] * 1e7),
                    round(obj.last_sent_position[1] * 1e7), round(obj.last_vam_speed * 100),
                    round(obj.last_vam_heading * 10), int(obj.is_first_vam))

            reals.append(st())
            last_lf_wall = None
            rid = 0
            for ev in sc["events"]:
                t_rel, _, tpv, g = ev
                rid += 1
                info["reports"] += 1
                wall = sc["t0"] + t_rel + sc.get("wall_lag", 0)
                if last_lf_wall is not None and wall - last_lf_wall == T_LF_VAM and not sc.get("exact"):
                    wall += 1          # keep the float product (now-last)*1000 away from the 2000 boundary
                    info["nudges"] += 1
                if sc.get("exact"):
                    wall = wall - wall % 125   # multiples of 1/8 s are exact doubles
                clock.ms = max(clock.ms, wall)
                wall = clock.ms
                gate.open = bool(g)
                its = its_of(parse_ms(tpv["time"])) if "time" in tpv else None
                pos = ("lat" in tpv and "lon" in tpv)
                lines.append("report %d %s %s %s %s %s %d %d" % (
                    rid, "-" if its is None else its,
                    int(tpv["lat"] * 10000000) if pos else "-", int(tpv["lon"] * 10000000) if pos else "-",
                    mms(tpv["speed"]) if "speed" in tpv else "-", cdeg(tpv["track"]) if "track" in tpv else "-",
                    wall, int(bool(g))))
                err = None
                _time.time = (lambda w=wall: w / 1000.0) if sc.get("exact") else (lambda w=wall: (w + 0.5) / 1000.0)
                try:
                    obj.location_service_callback(tpv)
                except Exception as e:      # judged by the oracle (generation must not fail) and shown in the line
                    err = type(e).__name__
                    info["errors"] += 1
                finally:
                    _time.time = real_time
                sent = cap.take()
                vam = None
                if err is not None:
                    reals.append(f"err {err} " + st())
                elif sent:
                    dec = decode_vam(coder, sent[0][1].data)
                    bad = reflects(dec, tpv)
                    if sent[0][1].destination_port != 2018:
                        bad.append("port")
                    vam = {"dec": dec, "bad": bad}
                    reals.append(f"vam {int(dec['lf'])} {dec['gdt']} {rid if not bad else -1} " + st())
                    if dec["lf"]:
                        last_lf_wall = wall
                    info["vams"] += 1
                else:
                    reals.append("none " + st())
                log.append({"rid": rid, "ts": parse_ms(tpv["time"]) if "time" in tpv else None, "wall": wall,
                            "gate": bool(g), "vam": vam, "err": err, "n": len(sent), "tpv": tpv})
    finally:
        _time.time = real_time
        logger.setLevel(old_level)
    return lines, reals, log, info


def oracle_vam(log, tgen=T_GEN_VAM_MIN):
    """TS 103 300-3 §6.4.1 / property text over the report log.  returns [(rule, rid, detail, early_dyn)]"""
    out = []
    last_ts = None          # report timestamp of the last VAM
    last_lf = None          # wall time of the last VAM that carried the LF container
    prev_ts = None
    R = 0                   # largest report period since the last VAM
    quiet = False           # a passive/idle phase or a failure occurred since the last VAM
    first_seen = False
    for e in log:
        ts = e["ts"]
        if e["n"] > 1:
            out.append(("one-per-report", e["rid"], "more than one VAM for one report", False))
        if e["err"]:
            out.append(("no-fail", e["rid"], f"location callback raised {e['err']}", False))
        if ts is not None and prev_ts is not None:
            R = max(R, ts - prev_ts)
        if e["vam"] is not None:
            if not e["gate"]:
                out.append(("passive-silent", e["rid"], "VAM although the station is passive/idle", False))
            if last_ts is not None and ts is not None and ts - last_ts < T_GEN_VAM_MIN:
                out.append(("min-gap", e["rid"], f"{ts - last_ts} ms (report timestamps) after the previous VAM", True))
            want_lf = last_lf is None or e["wall"] - last_lf >= T_LF_VAM
            if e["vam"]["dec"]["lf"] != want_lf:
                out.append(("lf", e["rid"], f"LF container {'present' if e['vam']['dec']['lf'] else 'absent'}, "
                                            f"{'first VAM' if last_lf is None else str(e['wall'] - last_lf) + ' ms after the last LF'}", False))
            if e["vam"]["bad"]:
                out.append(("gdt" if all(b.startswith("gdt") for b in e["vam"]["bad"]) else "latest-report", e["rid"],
                            "; ".join(e["vam"]["bad"]), False))
            if e["vam"]["dec"]["lf"]:
                last_lf = e["wall"]
            last_ts, R, quiet, first_seen = ts, 0, False, True
        else:
            if not e["gate"] or e["err"] or ts is None:
                quiet = True
            elif not first_seen:
                out.append(("first", e["rid"], "no VAM at the first report after activation", False))
                first_seen = True
            elif not quiet and last_ts is not None and R < 65536 - T_GEN_VAM_MAX and ts - last_ts > T_GEN_VAM_MAX + R:
                out.append(("max-gap", e["rid"], f"{ts - last_ts} ms since the previous VAM, report period <= {R}", False))
        if ts is not None:
            prev_ts = ts
    return out


# ------------------------------------------------------------------------------------------------
# bookkeeping


def classify_vam(rule, early_dyn, gated):
    """membership in the known region of C10-KF1: a min-gap violation of the un-gated code"""
    return "C10-KF1" if (rule == "min-gap" and not gated) else None


def trim(sc, t_limit):
    s = dict(sc)
    s["events"] = [e for e in sc["events"] if e[0] <= t_limit]
    s["dur"] = min(sc.get("dur", t_limit), t_limit + 1)
    return s


def check_cam_batch(ctx, coder, scenarios, tag):
    all_lines, spans = [], []
    for i, sc in enumerate(scenarios):
        lines, reals, log, info = run_cam(sc, coder)
        P = 100 + max(sc.get("late", [0]))
        viol = oracle_cam(log, P)
        ctx.evals(len(lines))
        ctx.cover(f"cam_style_{sc.get('style')}")
        ctx.cover(f"cam_mode_{sc.get('mode')}")
        ctx.cover(f"cam_rate_{sc.get('rate')}Hz")
        ctx.cover("cam_checks", info["checks"])
        ctx.cover("cam_sent", info["cams"])
        ctx.cover("cam_pos_nudges", info["nudges"])
        ctx.cover("cam_virtual_s", sc["dur"] // 1000)
        for e in log:
            if e[0] == "check" and e[2]["cam"]:
                d = e[2]["cam"]["dec"]
                ctx.cover("cam_with_lf" if d["lf"] else "cam_without_lf")
                if d["gdt"] < 200 or d["gdt"] > 65335:
                    ctx.cover("cam_gdt_near_wrap")
                ctx.nontrivial(("cam", tag, i, e[1], d["lf"], d["vlf"], d["gdt"]))
        for rule, t, detail in viol[:3]:
            ctx.violation(f"CAM {rule}: {detail} (t={t - sc['t0']} ms, style {sc.get('style')}/{sc.get('mode')}, {sc.get('rate')} Hz)",
                          {"kind": "cam", "rule": rule, "scenario": trim(sc, t - sc["t0"])},
                          "C10-F2" if rule == "gdt" else None)
        spans.append((len(all_lines), len(lines), reals, i))
        all_lines += lines
        if i == 0:
            ctx.sample("cam-trajectory", {"style": sc.get("style"), "mode": sc.get("mode"), "rate_hz": sc.get("rate"),
                                          "virtual_ms": sc["dur"], "checks": info["checks"], "cams": info["cams"],
                                          "first_lines": lines[:6], "real": reals[:6]})
    if ctx.model_ok and all_lines:
        out = ctx.model("CamTM", all_lines)
        for off, n, reals, i in spans:
            for k in range(n):
                if out[off + k] != reals[k]:
                    ctx.mismatch(f"cam/{tag}", {"scenario": i, "op": all_lines[off + k], "index": k,
                                                "context": all_lines[max(off, off + k - 3):off + k]}, reals[k], out[off + k])
                    break


def check_vam_batch(ctx, coder, scenarios, gated, tag):
    all_lines, spans = [], []
    for i, sc in enumerate(scenarios):
        lines, reals, log, info = run_vam(sc, coder, gated)
        viol = oracle_vam(log)
        ctx.evals(len(lines))
        ctx.cover(f"vam_style_{sc.get('style')}")
        ctx.cover(f"vam_rate_{sc.get('rate')}Hz")
        ctx.cover("vam_reports", info["reports"])
        ctx.cover("vam_sent", info["vams"])
        ctx.cover("vam_lf_boundary_nudges", info["nudges"])
        if sc.get("exact"):
            ctx.cover("vam_exact_wall_grid")
        for e in log:
            if e["vam"]:
                d = e["vam"]["dec"]
                ctx.cover("vam_with_lf" if d["lf"] else "vam_without_lf")
                if d["gdt"] < 200 or d["gdt"] > 65335:
                    ctx.cover("vam_gdt_near_wrap")
                ctx.nontrivial(("vam", tag, i, e["rid"], d["lf"], d["gdt"]))
        shown = set()
        for rule, rid, detail, early in viol:
            fid = classify_vam(rule, early, gated)
            if (rule, fid) in shown:
                continue
            shown.add((rule, fid))
            t_rel = sc["events"][rid - 1][0]
            ctx.violation(f"VAM {rule}: {detail} (report {rid}, style {sc.get('style')}, {sc.get('rate')} Hz)",
                          {"kind": "vam", "rule": rule, "scenario": trim(sc, t_rel)},
                          fid or ("C10-F2" if rule == "gdt" else None))
        spans.append((len(all_lines), len(lines), reals, i))
        all_lines += lines
        if i == 0:
            ctx.sample("vam-trajectory", {"style": sc.get("style"), "rate_hz": sc.get("rate"), "reports": info["reports"],
                                          "vams": info["vams"], "first_lines": lines[:5], "real": reals[:5]})
    if ctx.model_ok and all_lines:
        out = ctx.model("VamTM", all_lines)
        for off, n, reals, i in spans:
            for k in range(n):
                if out[off + k] != reals[k]:
                    ctx.mismatch(f"vam/{tag}", {"scenario": i, "op": all_lines[off + k], "index": k,
                                                "context": all_lines[max(off, off + k - 3):off + k]}, reals[k], out[off + k])
                    break


_CODERS = {}


def coders():
    if not _CODERS:
        _CODERS["cam"] = CAMCoder()
        _CODERS["vam"] = VAMCoder()
    return _CODERS["cam"], _CODERS["vam"]


def boundary_scenarios():
    """hand-written boundary cases: elapsed exactly 99/100/101, 999/1000/1001, LF at 499/500/501, dynamics exactly at
    / just beyond the thresholds, heading across 0/360"""
    out = []
    t0 = 1_700_000_000_000
    base = {"class": "TPV", "lat": 41.0, "lon": 2.0, "track": 358.0, "speed": 10.0}
    for late in ([0], [0, 99, 0, 1], [399, 0, 0, 0, 0], [0, 0, 0, 0, 400], [900, 0], [899, 0], [901, 0]):
        for d_track, d_speed in ((4.0, 0.0), (4.25, 0.0), (0.0, 0.5), (0.0, 0.625), (-4.25, 0.0), (6.0, 0.0), (0.0, 0.0)):
            ev = [[0, "start"]]
            for k in range(0, 3000, 50):
                tpv = dict(base, time=iso(t0 + k))
                if k >= 400:
                    tpv["track"] = (base["track"] + d_track) % 360.0
                    tpv["speed"] = base["speed"] + d_speed
                ev.append([k, "report", tpv])
            out.append({"kind": "cam", "style": "boundary", "mode": "boundary", "rate": 20, "t0": t0, "dur": 3000, "delay": 7,
                        "late": late, "role": 0, "station_type": 5, "special": False, "fails": [],
                        "events": sorted(ev, key=lambda e: (e[0], 0 if e[1] != "report" else 1))})
    return out


def vam_boundary_scenarios():
    out = []
    t0 = 1_700_000_000_000
    t0 -= t0 % 125
    for period in (20, 25, 50, 99, 100, 101, 125, 1000):
        for dv in (0.0, 0.5, 0.625, 2.0):
            ev = []
            for i, k in enumerate(range(0, 6000, period)):
                ev.append([k, "report", {"time": iso(t0 + k), "lat": 41.0, "lon": 2.0, "track": 90.0,
                                         "speed": 1.0 + (dv if (i % 7) == 3 else 0.0)}, 1])
            out.append({"kind": "vam", "style": "boundary", "rate": 1000 // period, "t0": t0, "dur": 6000, "tgen": 100,
                        "wall_lag": 0, "exact": period == 125, "events": ev})
    return out


def run(ctx):
    ctx.extra["rule"] = ("whole runs of the real transmission managements under a virtual clock/timer: each trajectory is a "
                         "timed list of start/stop/report events (8 motion styles x 8 report rates 1-50 Hz x start/stop/"
                         "failure/jitter modes, generationDeltaTime wraps, hand-written threshold boundaries); "
                         "distinct_nontrivial counts distinct emitted messages (trajectory, time, containers, gdt)")
    cam_coder, vam_coder = coders()
    gated = detect_vam_gated(vam_coder)
    ctx.extra["variant"] = {"C10-KF1": "gated (repaired)" if gated else "un-gated (code as is)"}
    # 1 corpus
    cam_c, vam_c = [], []
    for name, c in corpus("C10"):
        sc = c.get("scenario", c)
        (cam_c if sc.get("kind") == "cam" else vam_c).append(sc)
    ctx.cover("corpus_cases", len(cam_c) + len(vam_c))
    check_cam_batch(ctx, cam_coder, cam_c, "corpus")
    check_vam_batch(ctx, vam_coder, vam_c, gated, "corpus")
    # 2 boundaries
    check_cam_batch(ctx, cam_coder, boundary_scenarios(), "boundary")
    check_vam_batch(ctx, vam_coder, vam_boundary_scenarios(), gated, "boundary")
    # 3 generated trajectories
    n_cam, dur = ctx.scale(50, 600), ctx.scale(20_000, 60_000)
    cams = [gen_cam_scenario(ctx.rng, dur, wrap=(i % 4 == 0)) for i in range(n_cam)]
    for st in STYLES:     # every style at least once
        cams.append(gen_cam_scenario(ctx.rng, dur, style=st))
    check_cam_batch(ctx, cam_coder, cams, "gen")
    n_vam = ctx.scale(50, 600)
    vams = [gen_vam_scenario(ctx.rng, dur, wrap=(i % 4 == 0)) for i in range(n_vam)]
    vams += [gen_vam_scenario(ctx.rng, dur, style=st, rate=50) for st in STYLES]
    vams += [gen_vam_scenario(ctx.rng, dur, tgen=tg) for tg in (100, 250, 1000, 5000)]
    check_vam_batch(ctx, vam_coder, vams, gated, "gen")
    if ctx.thorough:      # hours of virtual time
        longs = [gen_cam_scenario(ctx.rng, 2 * 3600 * 1000, style=st) for st in ("still", "random", "stopgo")]
        for sc in longs:
            sc["events"] = [e for e in sc["events"] if e[1] != "report" or e[0] % 1000 < 1000 // sc["rate"] or sc["rate"] <= 2]
        check_cam_batch(ctx, cam_coder, longs, "long")
        vlong = [gen_vam_scenario(ctx.rng, 3600 * 1000, style=st, rate=2) for st in ("still", "random")]
        check_vam_batch(ctx, vam_coder, vlong, gated, "long")


def search(ctx):
    cam_coder, vam_coder = coders()
    gated = detect_vam_gated(vam_coder)
    ok = ctx.model_ok
    ctx.model_ok = False
    try:
        n, dur = ctx.scale(150, 900), ctx.scale(20_000, 60_000)
        check_cam_batch(ctx, cam_coder, [gen_cam_scenario(ctx.rng, dur, wrap=(i % 3 == 0)) for i in range(n)], "search")
        check_vam_batch(ctx, vam_coder, [gen_vam_scenario(ctx.rng, dur, wrap=(i % 3 == 0)) for i in range(n)], gated, "search")
    finally:
        ctx.model_ok = ok


def replay(ctx, obj):
    case = obj.get("case", obj)
    sc = case.get("scenario", case)
    cam_coder, vam_coder = coders()
    if sc.get("kind") == "cam":
        _, _, log, info = run_cam(sc, cam_coder)
        viol = oracle_cam(log, 100 + max(sc.get("late", [0])))
        for v in viol[:5]:
            print("CAM", v[0], "t=%d" % (v[1] - sc["t0"]), v[2])
        print(f"cam scenario: {info['checks']} checks, {info['cams']} CAMs, {len(viol)} rule violations")
        return bool(viol)
    if sc.get("kind") == "vam":
        gated = detect_vam_gated(vam_coder)
        _, _, log, info = run_vam(sc, vam_coder, gated)
        viol = oracle_vam(log)
        for v in viol[:5]:
            print("VAM", v[0], "report", v[1], v[2])
        print(f"vam scenario: {info['reports']} reports, {info['vams']} VAMs, {len(viol)} rule violations")
        return bool(viol)
    raise Infra(f"unknown replay kind {sc.get('kind')}")

"""C10 — CAM and VAM generation follow the timing and trigger rules of their standards.

Theorems: lean/Props/C10.lean about lean/FlexModel/Fac/CamTM.lean and VamTM.lean.
Tie: the real CAMTransmissionManagement (virtual T_CheckCamGen timer, virtual clock, capturing BTP router, real CAM
coder) and the real VAMTransmissionManagement (report driven, wall clock patched) are run op by op on generated
trajectories; every emitted payload is decoded with the repository's coder; per op the canonical line
"sent? containers? generationDeltaTime? which report? + management state" is compared with the Lean model.
The virtual timer separates a timer's EXPIRY from the run of its CALLBACK, so that stop() / start() can be placed
between the two (threading.Timer.cancel() cannot stop a callback that is already past its cancel check).
Failures are injected at every point of a transmission attempt: while the PDU is filled from the report, in the
coder, in the BTP request, in the LDM feed after the BTP request (CAM); in the LDM feed, the coder, the BTP request (VAM).
Oracle: the timing rules of the property text / TS 103 900 §6.1.3 / TS 103 300-3 §6.4.1 (`oracle_cam`, `oracle_vam`),
written over the timed log of TRANSMISSIONS only, independent of the code and of the model.
"""
from __future__ import annotations

import datetime
import heapq
import logging
import math
import threading
import time as _time
import types

from common import Infra, corpus
import realstack as rs
import gen_facflow

import flexstack.facilities.ca_basic_service.cam_transmission_management as ctm
import flexstack.facilities.vru_awareness_service.vam_transmission_management as vtm
from flexstack.facilities.ca_basic_service.cam_coder import CAMCoder
from flexstack.facilities.vru_awareness_service.vam_coder import VAMCoder
from flexstack.utils.time_service import TimeService

MODULES = ["Props.C10"]
DRIVERS = ["CamTM", "VamTM"]
TRUSTED = [
    "modelled rather than verified: IEEE-754 comparisons of heading/speed (inputs on binary-exact grids: 0.25 deg, "
    "1/8 m/s, so float and integer comparisons coincide), the haversine distance (the model is parametric in the "
    "distance function; the harness supplies the value of its independent oracle for the model's own reference "
    "position, positions kept >= 2 cm from the 4 m threshold), dateutil parsing of the report time, the float "
    "expression in GenerationDeltaTime.from_timestamp (decoded generationDeltaTime compared with the exact integer "
    "value), asn1tools UPER (every payload decoded)",
    "the virtual threading.Timer (expiry and callback separated) / clock (TimeService.time returns ms+0.5 so that "
    "int(time*1000) is exact), the capturing BTP router, the LDM stubs and the failure-injecting coder proxy of "
    "harness/props/c10.py; the ast pass of harness/gen_facflow.py",
]
ASSUMPTIONS = [
    "time is observed in integer milliseconds; reports carry a `time` field (ISO-8601, millisecond precision)",
    "threads: the T_CheckCamGen callback runs atomically with respect to start()/stop() (the race covered is "
    "stop()/start() between a timer's expiry and the start of its callback; a stop() in the middle of a running "
    "callback is not modelled)",
    "the low-frequency container rule is judged per activation (TS 103 900 §6.1.3: first CAM after activation), the "
    "minimum interval T_GenCamMin over ALL consecutive CAMs (also across a stop/start cycle)",
    "VAM: report timestamps are non-decreasing; reports are < 65.4 s apart for the upper bound; "
    "the low-frequency container is timed on the wall clock at sending (as the code does); a VAM that also carries a "
    "cluster-operation container may carry the low-frequency container early (TS 103 300-3 clause 6.2)",
    "known finding C10-KF1: VAM triggers 2-4 (position/speed/heading change) are not gated by T_GenVamMin "
    "(pinned by 4 unit tests that expect a VAM 1 ms after the previous one)",
]

ITS_EPOCH_MS = 1072915200000   # 2004-01-01T00:00:00Z, written from TS 102 894-2 (not read from the repo)
LEAP_MS = 5000                 # TAI-UTC leap seconds since 2004 included in TimestampIts
T_GEN_CAM_MIN, T_GEN_CAM_MAX, T_LF_CAM = 100, 1000, 500       # TS 103 900 §6.1.3
T_GEN_VAM_MIN, T_GEN_VAM_MAX, T_LF_VAM = 100, 5000, 2000      # TS 103 300-3 Table 16
EARTH_R = 6371000.0
FAIL_KINDS = {0: "none", 1: "build", 2: "encode", 3: "btp", 4: "ldm"}


class Injected(RuntimeError):
    """a failure injected by the harness (never an error of the code under test)"""


# ------------------------------------------------------------------------------------------------
# virtual time


class HalfClock(rs.VClock):
    """virtual clock: integer ms; TimeService.time() = (ms + 0.5)/1000 so that int(time*1000) == ms exactly"""

    def install(self):
        self._orig = TimeService.__dict__["time"]
        clock = self
        TimeService.time = staticmethod(lambda: (clock.ms + 0.5) / 1000.0)
        return self


class Sched:
    """virtual threading.Timer registry.  A timer leaves the registry when it EXPIRES (`pop`: its wait completed and
    was not cancelled); its callback is run by the caller, possibly later: `cancel()` on an expired timer has no
    effect, exactly as with threading.Timer."""

    def __init__(self, clock, late):
        self.clock, self.heap, self.seq = clock, [], 0
        self.late, self.late_i = list(late) or [0], 0
        sched = self

        class VTimer:
            def __init__(self, interval, function, args=None, kwargs=None):
                self.interval, self.function = interval, function
                self.args, self.kwargs = args or (), kwargs or {}
                self.daemon = False
                self.cancelled = self.fired = False

            def start(self):
                lateness = sched.late[sched.late_i % len(sched.late)]
                sched.late_i += 1
                due = sched.clock.ms + int(round(self.interval * 1000)) + lateness
                sched.seq += 1
                heapq.heappush(sched.heap, (due, sched.seq, self))

            def cancel(self):
                self.cancelled = True

        self.Timer = VTimer

    def _clean(self):
        while self.heap and (self.heap[0][2].cancelled or self.heap[0][2].fired):
            heapq.heappop(self.heap)

    def next_due(self):
        self._clean()
        return self.heap[0][0] if self.heap else None

    def pop(self):
        self._clean()
        return heapq.heappop(self.heap)

    def pending(self):
        return sum(1 for _, _, t in self.heap if not t.cancelled and not t.fired)


class CapRouter:
    """stands in for the BTP router: records requests with the virtual time, optionally fails"""

    def __init__(self, clock):
        self.clock, self.sent, self.fail_next = clock, [], False

    def btp_data_request(self, request):
        if self.fail_next:
            raise Injected("injected BTP failure")
        self.sent.append((self.clock.ms, request))

    def take(self):
        s, self.sent = self.sent, []
        return s


class LdmStub:
    """stands in for the LDM adapter: counts the feeds, optionally fails"""

    def __init__(self):
        self.fail_next, self.fed = False, 0

    def add_provider_data_to_ldm(self, msg):
        if self.fail_next:
            raise Injected("injected LDM failure")
        self.fed += 1


class CoderProxy:
    """the repository's coder with an injectable encode failure"""

    def __init__(self, coder):
        self._coder, self.fail_next = coder, False

    def encode(self, msg):
        if self.fail_next:
            raise Injected("injected encoding failure")
        return self._coder.encode(msg)

    def __getattr__(self, name):
        return getattr(self._coder, name)


def iso(ms):
    return (datetime.datetime(1970, 1, 1) + datetime.timedelta(milliseconds=ms)).isoformat(timespec="milliseconds") + "Z"


def its_of(report_ms):
    return report_ms - ITS_EPOCH_MS + LEAP_MS


def haversine_oracle(lat1, lon1, lat2, lon2):
    """independent great-circle distance (asin form) in metres"""
    p1, p2 = math.radians(lat1), math.radians(lat2)
    h = math.sin((p2 - p1) / 2) ** 2 + math.cos(p1) * math.cos(p2) * math.sin(math.radians(lon2 - lon1) / 2) ** 2
    return 2 * EARTH_R * math.asin(min(1.0, math.sqrt(h)))


def circ_diff(a, b):
    d = abs(a - b) % 360.0
    return min(d, 360.0 - d)


# ------------------------------------------------------------------------------------------------
# trajectories


RATES = [1, 2, 4, 5, 10, 20, 25, 50]
STYLES = ["constant", "accelerating", "turning", "stopgo", "random", "missing", "gaps", "still"]
CAM_MODES = ["plain", "restart", "multi-restart", "late-start", "fail", "jitter", "race"]


def gen_reports(rng, style, dur_ms, period, t_first, t0):
    """timed position reports (relative time, tpv dict) of one trajectory; t0 = absolute ms of relative time 0"""
    lat = rng.uniform(-80, 80)
    lon = rng.uniform(-179, 179)
    hd = rng.randrange(0, 1440) * 0.25
    sp = rng.randrange(0, 320) * 0.125
    if style == "still":
        sp = 0.0
    acc = rng.choice([-3, -2, -1, 1, 2, 3, 4]) * 0.125      # per report
    turn = rng.choice([-8, -4, -2, -1, 1, 2, 4, 8, 16]) * 0.25
    if style == "turning":
        hd = rng.choice([350.0, 355.5, 2.0, 0.0, 359.75, 10.25])
    latency = rng.choice([0, 0, 3, 20, 80])
    out, t, phase, gap_until = [], t_first, 0, -1
    while t < dur_ms:
        dt = period / 1000.0
        if style == "accelerating":
            sp = min(max(0.0, sp + acc), 60.0)
        elif style == "turning":
            hd = (hd + turn) % 360.0
        elif style == "stopgo":
            phase = (t // 3000) % 3
            sp = max(0.0, sp - 1.0) if phase == 0 else (sp if phase == 1 else min(30.0, sp + 0.75))
        elif style in ("random", "missing", "gaps"):
            if rng.random() < 0.3:
                sp = min(max(0.0, sp + rng.randrange(-6, 7) * 0.125), 70.0)
            if rng.random() < 0.3:
                hd = (hd + rng.randrange(-24, 25) * 0.25) % 360.0
        lat += sp * dt * math.cos(math.radians(hd)) / 111320.0
        lon += sp * dt * math.sin(math.radians(hd)) / (111320.0 * max(0.05, math.cos(math.radians(lat))))
        lat = max(-89.9, min(89.9, lat))
        lon = ((lon + 180.0) % 360.0) - 180.0
        tpv = {"class": "TPV", "mode": 3, "time": iso(t0 + t - latency), "lat": lat, "lon": lon, "track": hd,
               "speed": sp, "altHAE": 120.5, "epx": 2.5, "epy": 3.25, "epv": 4.0, "epd": 1.5}
        if style == "missing":
            for k in ("track", "speed", "altHAE", "epx", "epv", "epd"):
                if rng.random() < 0.25:
                    del tpv[k]
            if rng.random() < 0.15:
                del tpv["lat"], tpv["lon"]
        if style == "gaps" and t > gap_until and rng.random() < 0.03:
            gap_until = t + rng.randrange(300, 3500)
        if not (style == "gaps" and t <= gap_until):
            out.append([t, "report", tpv])
        t += period
    return out


def pick_t0(rng):
    """mostly the present; one in four runs in 2038-2039, where seconds >= 2^31 and ms < 2^41 (float products of
    `seconds*1000` are least accurate there)"""
    if rng.random() < 0.25:
        return 2_150_000_000_000 + rng.randrange(0, 45_000_000_000)
    return 1_700_000_000_000 + rng.randrange(0, 100_000_000_000)


def wrap_t0(rng, t0, dur_ms, lo=1000):
    """move t0 so that generationDeltaTime wraps `lo`.. ms into the run"""
    return t0 + (65536 - its_of(t0) % 65536) - rng.randrange(lo, max(lo + 1000, min(dur_ms, 60000)))


def gen_cam_scenario(rng, dur_ms, style=None, wrap=False, mode=None):
    style = style or rng.choice(STYLES)
    rate = rng.choice(RATES)
    t0 = pick_t0(rng)
    if wrap:     # generationDeltaTime wraps a few seconds into the run
        t0 = wrap_t0(rng, t0, dur_ms)
    events = gen_reports(rng, style, dur_ms, 1000 // rate, rng.randrange(0, 1000 // rate), t0)
    mode = mode or rng.choice(["plain", "plain", "restart", "multi-restart", "late-start", "fail", "fail", "jitter", "race"])
    ctl = [[0, "start"]]
    delay = rng.randrange(0, 100)
    if mode == "restart":
        ctl = []
        t, on = rng.randrange(0, 300), False
        while t < dur_ms:
            ctl.append([t, "stop" if on and rng.random() < 0.8 else "start"])
            on = ctl[-1][1] == "start"
            t += rng.choice([1, 7, 50, 99, 100, 101, 250, 1200, 4000, 9000])
        ctl.insert(0, [0, rng.choice(["stop", "start"])])
    elif mode == "multi-restart":
        # bursts of SEVERAL quick stop()/start() cycles: the activations in between are too short for a CAM, or their only
        # check falls into the T_GenCamMin window of the last CAM (held back), so what start() remembered about the last
        # CAM has to survive 2, 3, ... restarts without a CAM in between
        delay = rng.choice([0, 1, 4, 10, 25, 60])
        t = rng.randrange(150, 1500)
        while t < dur_ms - 500:
            u = t
            for _ in range(rng.choice([2, 2, 3, 3, 4, 6])):
                ctl.append([u, "stop"])
                u += rng.choice([0, 1, 2, 5, 9, 20])
                ctl.append([u, "start"])
                u += rng.choice([1, 3, 8, 15, 30, 55])
            t = u + rng.choice([40, 90, 100, 150, 600, 1100, 2300])
    elif mode == "late-start":
        ctl = [[rng.randrange(500, 3000), "start"], [dur_ms - rng.randrange(100, 2000), "stop"]]
    elif mode == "race":
        # stop() / stop()+start() placed between a timer's expiry and the run of its callback
        ctl = [[0, "start"]]
        t, on = rng.randrange(100, 1500), True
        while t < dur_ms:
            if on:
                k = rng.choice(["race-stop", "race-stop", "race-restart", "race-restart", "stop"])
                ctl.append([t, k, rng.choice([0, 0, 1, 3, 30])])
                on = k == "race-restart"
            else:
                ctl.append([t, "start"])
                on = True
            t += rng.choice([7, 50, 100, 130, 250, 700, 1200, 2600])
    n_checks = dur_ms // 100 + 5
    fails = []
    if mode == "fail":
        kinds = rng.choice([[1, 2, 3, 4], [4], [3], [2], [2, 3], [1, 4]])
        idx = sorted(rng.sample(range(n_checks), max(2, n_checks // 10)))
        # runs of consecutive failing checks as well (a retry that fails again)
        fails = [[i, rng.choice(kinds)] for i in idx] + [[i + 1, rng.choice(kinds)] for i in idx[::4]]
    late = [rng.choice([0, 0, 1, 5, 20, 40]) for _ in range(7)] if mode == "jitter" else [0]
    role = rng.choice([0, 0, 0, 5, 6])
    return {"kind": "cam", "style": style, "mode": mode, "rate": rate, "t0": t0, "dur": dur_ms,
            "delay": delay, "late": late, "role": role, "station_type": rng.choice([5, 5, 2, 4, 10]),
            "special": bool(role and rng.random() < 0.7), "fails": fails,
            "events": sorted(events + ctl, key=lambda e: (e[0], 0 if e[1] != "report" else 1))}


def gen_vam_scenario(rng, dur_ms, style=None, wrap=False, rate=None, tgen=100, faults=None):
    style = style or rng.choice(STYLES)
    rate = rate or rng.choice(RATES)
    t0 = pick_t0(rng)
    if wrap:
        t0 = wrap_t0(rng, t0, dur_ms)
    events = gen_reports(rng, style, dur_ms, 1000 // rate, rng.randrange(0, 1000 // rate), t0)
    gate_mode = rng.choice(["open", "open", "open", "passive-phases"])
    faults = faults if faults is not None else rng.choice([None, None, "fail", "cluster", "both"])
    for e in events:
        g = 1
        if gate_mode == "passive-phases" and (e[0] // 2500) % 3 == 1:
            g = 0
        e.append(g)
        e.append(1 if faults in ("cluster", "both") and (e[0] // 700) % 5 == 2 else 0)        # cluster-operation container
        e.append(rng.choice([1, 2, 3]) if faults in ("fail", "both") and rng.random() < 0.08 else 0)   # failing attempt
    exact = rng.random() < 0.15   # wall clock on the binary-exact 125 ms grid (tests the 2 s LF boundary exactly)
    return {"kind": "vam", "style": style, "rate": rate, "t0": t0, "dur": dur_ms, "tgen": tgen, "faults": faults,
            "wall_lag": 0 if exact else rng.choice([0, 1, 2, 7]), "exact": exact, "events": events}


# ------------------------------------------------------------------------------------------------
# CAM: run the real code


def decode_cam(coder, payload):
    d = coder.decode(payload)
    p = d["cam"]["camParameters"]
    rp = p["basicContainer"]["referencePosition"]
    hf = p["highFrequencyContainer"][1]
    ext = sorted(int(e["containerId"]) for e in p.get("extensionContainers", []))
    return {"gdt": d["cam"]["generationDeltaTime"], "lat": rp["latitude"], "lon": rp["longitude"],
            "heading": hf["heading"]["headingValue"], "speed": hf["speed"]["speedValue"],
            "lf": "lowFrequencyContainer" in p, "special": "specialVehicleContainer" in p,
            "vlf": 3 in ext, "tw": 1 in ext, "station": d["header"]["stationId"]}


def reflects(dec, tpv, lat_key="lat", lon_key="lon"):
    """does the decoded message carry the values of this report (resolution of each DE; gdt exact)?"""
    bad = []
    if "time" in tpv:
        want = its_of(parse_ms(tpv["time"])) % 65536
        if dec["gdt"] != want:
            bad.append(f"gdt {dec['gdt']} != {want}")
    for k, key, scale, unav in (("lat", lat_key, 1e7, 900000001), ("lon", lon_key, 1e7, 1800000001)):
        if key in tpv:
            if abs(dec[k] - tpv[key] * scale) >= 1.0 + 1e-6:
                bad.append(f"{k} {dec[k]} vs {tpv[key]}")
        elif dec[k] != unav:
            bad.append(f"{k} {dec[k]} should be unavailable")
    if "track" in tpv:
        if abs(dec["heading"] - tpv["track"] * 10) >= 1.0:
            bad.append(f"heading {dec['heading']} vs {tpv['track']}")
    elif dec["heading"] != 3601:
        bad.append("heading should be unavailable")
    if "speed" in tpv:
        if tpv["speed"] * 100 < 16382 and abs(dec["speed"] - tpv["speed"] * 100) >= 1.0:
            bad.append(f"speed {dec['speed']} vs {tpv['speed']}")
    elif dec["speed"] != 16383:
        bad.append("speed should be unavailable")
    return bad


def parse_ms(s):
    dt = datetime.datetime.strptime(s, "%Y-%m-%dT%H:%M:%S.%fZ")
    return int((dt - datetime.datetime(1970, 1, 1)) // datetime.timedelta(milliseconds=1))


OFFGRID = {"on": False}     # set while an off-grid scenario (oracle only, no model comparison) is running


def cdeg(x):
    v = x * 100
    if v != int(v):
        if OFFGRID["on"]:
            return int(round(v))
        raise Infra(f"heading {x} not on the 0.01 degree grid")
    return int(v)


def mms(x):
    v = x * 1000
    if v != int(v):
        if OFFGRID["on"]:
            return int(round(v))
        raise Infra(f"speed {x} not on the mm/s grid")
    return int(v)


def offgrid(rng, sc):
    """the same scenario with arbitrary doubles for heading / speed (not on the binary-exact grids): judged by the
    oracle only (the integer model is not compared), threshold neighbourhoods of 1e-6 excluded by construction"""
    sc = dict(sc, offgrid=True, events=[list(e) for e in sc["events"]])
    for e in sc["events"]:
        if e[1] == "report":
            tpv = dict(e[2])
            if "speed" in tpv:
                tpv["speed"] = max(0.0, tpv["speed"] + rng.uniform(-0.06, 0.06))
            if "track" in tpv:
                tpv["track"] = (tpv["track"] + rng.uniform(-0.12, 0.12)) % 360.0
            e[2] = tpv
    return sc


def pos7(lat, lon):
    return f"{round(lat * 1e7)} {round(lon * 1e7)}"


def fails_of(sc):
    """check index -> failure kind (1 build, 2 encode, 3 btp, 4 ldm); old corpus files: list of indices = btp"""
    out = {}
    for f in sc.get("fails", []):
        if isinstance(f, (list, tuple)):
            out[int(f[0])] = int(f[1])
        else:
            out[int(f)] = 3
    return out


def run_cam(sc, coder, variants=(1, 1, 1), quiet_log=True):
    """drive the real CAMTransmissionManagement through scenario `sc`.
    returns (model_lines, real_lines, oracle_log, info)"""
    clock = HalfClock(sc["t0"])
    sched = Sched(clock, sc.get("late", [0]))
    cap = CapRouter(clock)
    ldm = LdmStub()
    pcoder = CoderProxy(coder)
    lines, reals, log = [], [], []
    info = {"checks": 0, "cams": 0, "nudges": 0, "tol": 0, "races": 0, "escaped": 0, "late_callbacks": 0}
    saved = (ctm.threading, ctm.random)
    logger = logging.getLogger("ca_basic_service")
    old_level = logger.level
    logger.setLevel(logging.CRITICAL + 10)
    ctm.threading = types.SimpleNamespace(Timer=sched.Timer, Lock=threading.Lock, RLock=threading.RLock)
    ctm.random = types.SimpleNamespace(uniform=lambda a, b: sc["delay"] / 1000.0)
    build = {"fail": False}
    msg_cls = ctm.CooperativeAwarenessMessage
    orig_fill = msg_cls.fullfill_with_tpv_data

    def fill(self_, tpv):
        if build["fail"]:
            raise Injected("injected construction failure")
        return orig_fill(self_, tpv)

    msg_cls.fullfill_with_tpv_data = fill
    OFFGRID["on"] = bool(sc.get("offgrid"))
    try:
        with clock:
            vd = ctm.VehicleData(station_id=4242, station_type=sc["station_type"], vehicle_role=sc["role"],
                                 special_vehicle_data=(("emergencyContainer", {"lightBarSirenInUse": (b"\x80", 2)})
                                                       if sc["special"] else None))
            obj = ctm.CAMTransmissionManagement(cap, pcoder, vd, ldm)
            tw = 1 if sc["station_type"] in (2, 3, 4) else 0
            variants = tuple(variants) + (1,) * (3 - len(variants))
            lines.append(f"init {sc['role']} {tw} {1 if sc['special'] else 0} {variants[0]} {variants[1]} {variants[2]}")

            def st():
                tm = obj._timer
                tracked = int(tm is not None and not tm.cancelled and not tm.fired)
                ref = "-" if obj._last_cam_lat is None or obj._last_cam_lon is None else \
                    f"{round(obj._last_cam_lat * 1e7)},{round(obj._last_cam_lon * 1e7)}"
                return (f"st {int(obj._active)} {sched.pending()} {tracked} {obj.t_gen_cam} {obj._n_gen_cam_counter} "
                        f"{obj._cam_count} {ref}")

            reals.append(st())
            cur = None            # (rid, tpv) last delivered report
            last_pos = None       # position lastly included in a transmitted CAM of this activation (property level)
            rid = 0
            fails = fails_of(sc)

            def deliver(tpv):
                nonlocal cur, rid
                rid += 1
                obj.location_service_callback(tpv)
                cur = (rid, tpv)
                its = its_of(parse_ms(tpv["time"])) if "time" in tpv else None
                lines.append("report %d %s %s %s %s" % (
                    rid, "-" if its is None else its, cdeg(tpv["track"]) if "track" in tpv else "-",
                    mms(tpv["speed"]) if "speed" in tpv else "-",
                    pos7(tpv["lat"], tpv["lon"]) if ("lat" in tpv and "lon" in tpv) else "- -"))
                reals.append(st())
                log.append(("report", clock.ms, rid, tpv))
                if cap.take():
                    log.append(("stray", clock.ms, "report"))

            def dist_to(ref):
                """(mm, m) from `ref` (lat, lon) to the current report"""
                if cur is None or ref is None or ref[0] is None or ref[1] is None or "lat" not in cur[1] or "lon" not in cur[1]:
                    return 0, None
                d = haversine_oracle(ref[0], ref[1], cur[1]["lat"], cur[1]["lon"])
                return int(round(d * 1000)), d

            def code_ref():
                return (obj._last_cam_lat, obj._last_cam_lon)

            def expire():
                """the wait of the next timer completes (not cancelled): from now on cancel() cannot stop its callback"""
                clock.ms = max(clock.ms, sched.next_due())
                _, _, tm = sched.pop()
                tracked = int(obj._timer is tm)
                tm.fired = True
                lines.append(f"expire {tracked}")
                reals.append(st())
                log.append(("expire", clock.ms))
                return tm

            def callback(tm):
                nonlocal last_pos
                now = int(TimeService.time() * 1000)
                if now != clock.ms:
                    raise Infra("virtual clock is not millisecond exact")
                # keep the cached position >= 2 cm away from the 4 m threshold (extra, nudged report)
                if obj._active:
                    for _ in range(6):
                        near = [d for d in (dist_to(code_ref())[1], dist_to(last_pos)[1]) if d is not None and abs(d - 4.0) < 0.02]
                        if not near:
                            break
                        t2 = dict(cur[1])
                        t2["lat"] = t2["lat"] + (7e-7 if t2["lat"] < 80 else -7e-7)
                        info["nudges"] += 1
                        deliver(t2)
                dmm, _ = dist_to(code_ref())          # for the model: distance from ITS reference position (checked in `st`)
                _, d = dist_to(last_pos)              # for the oracle: from the position lastly included in a CAM
                idx = info["checks"]
                info["checks"] += 1
                fail = fails.get(idx, 0)
                build["fail"], pcoder.fail_next, cap.fail_next, ldm.fail_next = fail == 1, fail == 2, fail == 3, fail == 4
                was_active = obj._active
                escaped = None
                try:
                    tm.function(*tm.args, **tm.kwargs)
                except Injected:
                    escaped = "injected"
                except Exception as e:     # an exception leaving the callback would end a real timer thread
                    escaped = type(e).__name__
                    info["escaped"] += 1
                finally:
                    build["fail"] = pcoder.fail_next = cap.fail_next = ldm.fail_next = False
                sent = cap.take()
                lines.append(f"check {now} {dmm} {fail}")
                cam = None
                if len(sent) > 1:
                    log.append(("stray", clock.ms, "two CAMs in one check"))
                if sent:
                    dec = decode_cam(coder, sent[0][1].data)
                    port_ok = sent[0][1].destination_port == 2001
                    bad = reflects(dec, cur[1]) if cur else ["no report yet"]
                    if not port_ok:
                        bad.append("port")
                    cam = {"dec": dec, "bad": bad, "rid": cur[0] if cur else -1}
                    r_rid = cur[0] if (cur and not bad) else -1
                    reals.append(f"cam {int(dec['lf'])} {int(dec['special'])} {int(dec['vlf'])} {int(dec['tw'])} "
                                 f"{dec['gdt']} {r_rid} " + st())
                    if cur and "lat" in cur[1] and "lon" in cur[1]:
                        last_pos = (cur[1]["lat"], cur[1]["lon"])
                    info["cams"] += 1
                else:
                    reals.append("none " + st())
                log.append(("check", clock.ms, {"fail": fail, "dist": d, "cam": cam, "cur": cur, "active": was_active,
                                                "escaped": escaped}))

            def do_start():
                nonlocal last_pos
                was = obj._active
                obj.start()
                if not was:
                    last_pos = None
                lines.append("start")
                reals.append(st())
                log.append(("start", clock.ms))
                if cap.take():
                    log.append(("stray", clock.ms, "start"))

            def do_stop():
                obj.stop()
                lines.append("stop")
                reals.append(st())
                log.append(("stop", clock.ms))
                if cap.take():
                    log.append(("stray", clock.ms, "stop"))

            for ev in sc["events"] + [[sc["dur"], "end"]]:
                t_abs = sc["t0"] + ev[0]
                while True:
                    nd = sched.next_due()
                    if nd is None or nd > t_abs:
                        break
                    callback(expire())
                clock.ms = max(clock.ms, t_abs)
                if ev[1] == "report":
                    deliver(ev[2])
                elif ev[1] == "start":
                    do_start()
                elif ev[1] == "stop":
                    do_stop()
                elif ev[1] in ("race-stop", "race-restart"):
                    # the next timer expires; before its callback runs another thread calls stop() (and start())
                    if sched.next_due() is None:
                        do_stop()
                        if ev[1] == "race-restart":
                            do_start()
                        continue
                    tm = expire()
                    info["races"] += 1
                    do_stop()
                    if ev[1] == "race-restart":
                        do_start()
                    clock.ms += int(ev[2]) if len(ev) > 2 else 0
                    info["late_callbacks"] += 1
                    callback(tm)
            log.append(("end", clock.ms))
            obj.stop()
    finally:
        OFFGRID["on"] = False
        msg_cls.fullfill_with_tpv_data = orig_fill
        ctm.threading, ctm.random = saved
        logger.setLevel(old_level)
    return lines, reals, log, info


def oracle_cam(log, P):
    """TS 103 900 §6.1.3 / property text over the timed log.  returns [(rule, time, detail)].
    A CAM in the log is a transmission (a request that reached the BTP router), whatever the sender recorded."""
    out = []
    active = False
    cur = None
    last_t = None            # time of the last CAM of this activation
    glast = None             # time of the last CAM of any activation
    last_lf = None
    ref = {"track": None, "pos": None, "speed": None}   # values lastly included in a CAM
    prev_check = None
    clean = True             # since the last CAM every check was serviceable (report present, no failure, <= P apart)
    start_t = None
    for e in log:
        kind, t = e[0], e[1]
        if kind == "stray":
            out.append(("silent", t, f"message emitted outside a check ({e[2]})"))
        elif kind == "start":
            if not active:
                active, last_t, last_lf, prev_check, clean, start_t = True, None, None, None, True, t
                ref = {"track": None, "pos": None, "speed": None}
        elif kind in ("stop", "end"):
            base = prev_check if prev_check is not None else start_t
            if active and t - base > P:     # the T_CheckCamGen loop died (or never ran) during this activation
                out.append(("timer", t, f"no check for the last {t - base} ms > {P} of the activation"))
            active = active and kind == "end"
        elif kind == "report":
            cur = (e[2], e[3])
        elif kind == "check":
            c = e[2]
            cam = c["cam"]
            if c.get("escaped") not in (None, "injected"):
                out.append(("no-crash", t, f"{c['escaped']} left the T_CheckCamGen callback"))
            if not active:
                if cam is not None:
                    out.append(("silent", t, "CAM handed to BTP while the service is not active (after stop() returned)"))
                    glast = t
                continue
            base = prev_check if prev_check is not None else start_t
            if t - base > P:
                out.append(("timer", t, f"no check for {t - base} ms > {P} while active"))
                clean = False
            serviceable = cur is not None and not c["fail"]
            if cam is not None:
                if last_t is not None and t - last_t < T_GEN_CAM_MIN:
                    out.append(("min-gap", t, f"{t - last_t} ms after the previous CAM"))
                elif glast is not None and t - glast < T_GEN_CAM_MIN:
                    out.append(("min-gap-restart", t, f"{t - glast} ms after the previous CAM (sent before a stop/start cycle)"))
                if last_t is not None and clean and t - last_t > T_GEN_CAM_MAX + P:
                    out.append(("max-gap", t, f"{t - last_t} ms after the previous CAM"))
                want_lf = last_lf is None or t - last_lf >= T_LF_CAM
                if cam["dec"]["lf"] != want_lf:
                    out.append(("lf", t, f"LF container {'present' if cam['dec']['lf'] else 'absent'}, "
                                         f"{'first CAM' if last_lf is None else str(t - last_lf) + ' ms after the last CAM that carried it'}"))
                if cam["bad"]:
                    out.append(("gdt" if all(b.startswith("gdt") for b in cam["bad"]) else "latest-report", t, "; ".join(cam["bad"])))
                if cam["dec"]["lf"]:
                    last_lf = t
                last_t, glast, clean = t, t, True
                tpv = cur[1] if cur else {}
                if "track" in tpv:
                    ref["track"] = tpv["track"]
                if "lat" in tpv and "lon" in tpv:
                    ref["pos"] = (tpv["lat"], tpv["lon"])
                if "speed" in tpv:
                    ref["speed"] = tpv["speed"]
            else:
                if serviceable:
                    tpv = cur[1]
                    if last_t is None:
                        if not (glast is not None and t - glast < T_GEN_CAM_MIN):     # else: held back, T_GenCamMin
                            out.append(("first", t, "no CAM at the first check with position data after activation"))
                    else:
                        el = t - last_t
                        dyn = []
                        if "track" in tpv and ref["track"] is not None and circ_diff(tpv["track"], ref["track"]) > 4.0:
                            dyn.append("heading")
                        if "speed" in tpv and ref["speed"] is not None and abs(tpv["speed"] - ref["speed"]) > 0.5:
                            dyn.append("speed")
                        if "lat" in tpv and "lon" in tpv and ref["pos"] is not None:
                            d = haversine_oracle(ref["pos"][0], ref["pos"][1], tpv["lat"], tpv["lon"])
                            if d > 4.0 + 0.02:
                                dyn.append("position")
                        if el >= T_GEN_CAM_MIN and dyn:
                            out.append(("responsive", t, f"{el} ms elapsed, {'/'.join(dyn)} changed, no CAM"))
                        if clean and el > T_GEN_CAM_MAX + P:
                            out.append(("max-gap", t, f"{el} ms since the previous CAM and none at this check"))
                else:
                    clean = False
            prev_check = t
    return out


def classify_cam(rule):
    """findings of this round (status fixed: nothing is suppressed, the id only labels the report)"""
    return {"gdt": "C10-F2", "min-gap-restart": "C10-F5"}.get(rule)


def detect_cam_variants(coder):
    """which variant is the code?  (ldmIsolated, restartHold, holdSticky), by running the witnesses on the real code"""
    t0 = 1_700_000_000_000
    rep = {"time": iso(t0), "lat": 41.0, "lon": 2.0, "track": 90.0, "speed": 1.0}
    base = {"kind": "cam", "t0": t0, "dur": 400, "delay": 0, "late": [0], "role": 0, "station_type": 5, "special": False}
    # the LDM feed of the first CAM fails: is the CAM counted (`_cam_count` = last but one field of the state line)?
    _, reals, _, _ = run_cam(dict(base, fails=[[0, 4]], events=[[0, "report", rep], [0, "start"]]), coder)
    first = next((r for r in reals if r.startswith("cam ")), None)
    if first is None:
        raise Infra("variant probe: no CAM at the first check")
    isolated = 1 if first.split()[-2] == "1" else 0
    # CAM at 0, stop at 3, start at 7: is the first CAM of the second activation sent at 7 (no hold) or held back?
    sc = dict(base, fails=[], events=[[0, "report", rep], [0, "start"], [3, "stop"], [7, "start"]])
    _, _, log, _ = run_cam(sc, coder)
    times = [e[1] - t0 for e in log if e[0] == "check" and e[2]["cam"] is not None]
    if not times:
        raise Infra("variant probe: no CAM at all")
    hold = 0 if (len(times) >= 2 and times[1] - times[0] < T_GEN_CAM_MIN) else 1
    # CAM at 0, restart at 3..7 (its check at 7 is held back), SECOND restart at 20..30: is the check at 30 still held
    # back, or did the start() that followed the CAM-less activation forget the CAM at 0?
    sticky = 1
    if hold:
        sc = dict(base, fails=[], events=[[0, "report", rep], [0, "start"], [3, "stop"], [7, "start"], [20, "stop"], [30, "start"]])
        _, _, log, _ = run_cam(sc, coder)
        times = [e[1] - t0 for e in log if e[0] == "check" and e[2]["cam"] is not None]
        sticky = 0 if (len(times) >= 2 and times[1] - times[0] < T_GEN_CAM_MIN) else 1
    return isolated, hold, sticky


# ------------------------------------------------------------------------------------------------
# VAM: run the real code


CLUSTER_OP = {"clusterJoinInfo": {"clusterId": 5, "joinTime": 8}}


class Gate:
    """clustering manager stand-in: the transmission gate and, on request, a cluster-operation container (the cluster
    state machine itself belongs to C18)"""

    def __init__(self):
        self.open = True
        self.cluster_op = False

    def should_transmit_vam(self):
        return self.open

    def get_cluster_information_container(self):
        return None

    def get_cluster_operation_container(self):
        return dict(CLUSTER_OP) if self.cluster_op else None


def decode_vam(coder, payload):
    d = coder.decode(payload)
    p = d["vam"]["vamParameters"]
    rp = p["basicContainer"]["referencePosition"]
    hf = p["vruHighFrequencyContainer"]
    return {"gdt": d["vam"]["generationDeltaTime"], "lat": rp["latitude"], "lon": rp["longitude"],
            "heading": hf["heading"]["value"], "speed": hf["speed"]["speedValue"],
            "lf": "vruLowFrequencyContainer" in p, "cop": "vruClusterOperationContainer" in p}


def detect_vam_gated(coder):
    """witness of C10-KF1 on the real code: 1 = triggers 2-4 gated by T_GenVamMin, 0 = code as pinned by the tests"""
    sc = {"kind": "vam", "t0": 1_700_000_000_000, "tgen": 100, "wall_lag": 0, "exact": False, "events": [
        [0, "report", {"time": iso(1_700_000_000_000), "lat": 41.0, "lon": 2.0, "speed": 1.0, "track": 90.0}, 1],
        [20, "report", {"time": iso(1_700_000_000_020), "lat": 41.0, "lon": 2.0, "speed": 3.0, "track": 90.0}, 1]]}
    _, reals, _, _ = run_vam(sc, coder, gated=0)
    return 0 if reals[2].startswith("vam") else 1


def detect_vam_lf_after_send(coder):
    """1 = last_lf_vam_time is recorded after the BTP request succeeded (repaired), 0 = when the container is attached"""
    t0 = 1_700_000_000_000
    rep = lambda k: {"time": iso(t0 + k), "lat": 41.0, "lon": 2.0, "speed": 1.0, "track": 90.0}
    sc = {"kind": "vam", "t0": t0, "tgen": 100, "wall_lag": 0, "exact": False, "events": [
        [0, "report", rep(0), 1, 0, 0], [2000, "report", rep(2000), 1, 0, 3], [2100, "report", rep(2100), 1, 0, 0]]}
    _, reals, _, _ = run_vam(sc, coder, gated=0)
    return 1 if reals[3].startswith("vam 1 ") else 0


def run_vam(sc, coder, gated, lfa=1):
    clock = HalfClock(sc["t0"])
    cap = CapRouter(clock)
    gate = Gate()
    ldm = LdmStub()
    pcoder = CoderProxy(coder)
    lines, reals, log = [], [], []
    info = {"reports": 0, "vams": 0, "nudges": 0, "errors": 0, "injected": 0}
    logger = logging.getLogger("vru_basic_service")
    old_level = logger.level
    logger.setLevel(logging.CRITICAL + 10)
    real_time = _time.time
    OFFGRID["on"] = bool(sc.get("offgrid"))
    try:
        with clock:
            ddp = vtm.DeviceDataProvider(station_id=777, station_type=1)
            obj = vtm.VAMTransmissionManagement(cap, pcoder, ddp, ldm, gate)
            obj.t_genvam = sc.get("tgen", 100)
            lines.append(f"init {gated} {obj.t_genvam} {lfa}")

            def st():
                g = obj.last_vam_generation_delta_time
                lf = obj.last_lf_vam_time
                return "st %s %d %d %d %d %d %s" % (
                    "-" if g is None else g.msec, round(obj.last_sent_position[0] * 1e7),
                    round(obj.last_sent_position[1] * 1e7), round(obj.last_vam_speed * 100),
                    round(obj.last_vam_heading * 10), int(obj.is_first_vam),
                    "-" if lf is None else round(lf * 1000 - 0.25))

            reals.append(st())
            last_lf_wall = None
            rid = 0
            for ev in sc["events"]:
                t_rel, _, tpv, g = ev[:4]
                cop = int(ev[4]) if len(ev) > 4 else 0
                fail = int(ev[5]) if len(ev) > 5 else 0
                rid += 1
                info["reports"] += 1
                wall = sc["t0"] + t_rel + sc.get("wall_lag", 0)
                if last_lf_wall is not None and wall - last_lf_wall == T_LF_VAM and not sc.get("exact"):
                    wall += 1          # keep the float product (now-last)*1000 away from the 2000 boundary
                    info["nudges"] += 1
                if sc.get("exact"):
                    wall = wall - wall % 125   # multiples of 1/8 s are exact doubles
                clock.ms = max(clock.ms, wall)
                wall = clock.ms
                gate.open = bool(g)
                gate.cluster_op = bool(cop)
                its = its_of(parse_ms(tpv["time"])) if "time" in tpv else None
                pos = ("lat" in tpv and "lon" in tpv)
                lines.append("report %d %s %s %s %s %s %d %d %d %d" % (
                    rid, "-" if its is None else its,
                    int(tpv["lat"] * 10000000) if pos else "-", int(tpv["lon"] * 10000000) if pos else "-",
                    mms(tpv["speed"]) if "speed" in tpv else "-", cdeg(tpv["track"]) if "track" in tpv else "-",
                    wall, int(bool(g)), cop, 1 if fail else 0))
                err = None
                ldm.fail_next, pcoder.fail_next, cap.fail_next = fail == 1, fail == 2, fail == 3
                _time.time = (lambda w=wall: w / 1000.0) if sc.get("exact") else (lambda w=wall: (w + 0.5) / 1000.0)
                try:
                    obj.location_service_callback(tpv)
                except Injected:
                    err = "injected"
                    info["injected"] += 1
                except Exception as e:      # judged by the oracle (generation must not fail) and shown in the line
                    err = type(e).__name__
                    info["errors"] += 1
                finally:
                    _time.time = real_time
                    ldm.fail_next = pcoder.fail_next = cap.fail_next = False
                sent = cap.take()
                vam = None
                if err not in (None, "injected"):
                    reals.append(f"err {err} " + st())
                elif sent:
                    dec = decode_vam(coder, sent[0][1].data)
                    bad = reflects(dec, tpv)
                    if sent[0][1].destination_port != 2018:
                        bad.append("port")
                    if dec["cop"] != bool(cop):
                        bad.append("cluster-operation container")
                    vam = {"dec": dec, "bad": bad}
                    reals.append(f"vam {int(dec['lf'])} {dec['gdt']} {rid if not bad else -1} " + st())
                    if dec["lf"]:
                        last_lf_wall = wall
                    info["vams"] += 1
                else:
                    reals.append("none " + st())
                log.append({"rid": rid, "ts": parse_ms(tpv["time"]) if "time" in tpv else None, "wall": wall,
                            "gate": bool(g), "vam": vam, "err": err, "n": len(sent), "tpv": tpv, "cop": bool(cop),
                            "fail": fail})
    finally:
        OFFGRID["on"] = False
        _time.time = real_time
        logger.setLevel(old_level)
    return lines, reals, log, info


def oracle_vam(log, tgen=T_GEN_VAM_MIN):
    """TS 103 300-3 §6.4.1 / property text over the report log.  returns [(rule, rid, detail, early_dyn)]"""
    out = []
    last_ts = None          # report timestamp of the last VAM
    last_lf = None          # wall time of the last VAM that carried the LF container
    prev_ts = None
    R = 0                   # largest report period since the last VAM
    quiet = False           # a passive/idle phase or a failure occurred since the last VAM
    first_seen = False
    for e in log:
        ts = e["ts"]
        failed = bool(e.get("fail")) or e["err"] == "injected"
        if e["n"] > 1:
            out.append(("one-per-report", e["rid"], "more than one VAM for one report", False))
        if e["err"] and e["err"] != "injected":
            out.append(("no-fail", e["rid"], f"location callback raised {e['err']}", False))
        if e["vam"] is not None and e.get("fail"):
            out.append(("failed-send", e["rid"], "a VAM reached BTP although the transmission attempt was made to fail", False))
        if ts is not None and prev_ts is not None:
            R = max(R, ts - prev_ts)
        if e["vam"] is not None:
            if not e["gate"]:
                out.append(("passive-silent", e["rid"], "VAM although the station is passive/idle", False))
            if last_ts is not None and ts is not None and ts - last_ts < T_GEN_VAM_MIN:
                out.append(("min-gap", e["rid"], f"{ts - last_ts} ms (report timestamps) after the previous VAM", True))
            want_lf = last_lf is None or e["wall"] - last_lf >= T_LF_VAM
            has_lf = e["vam"]["dec"]["lf"]
            if want_lf and not has_lf:
                out.append(("lf", e["rid"], "LF container absent, " + (
                    "first VAM" if last_lf is None else f"{e['wall'] - last_lf} ms after the last VAM that carried it"), False))
            if has_lf and not want_lf and not e.get("cop"):
                out.append(("lf", e["rid"], f"LF container present {e['wall'] - last_lf} ms after the last VAM that carried it "
                                            "(no cluster operation)", False))
            if e["vam"]["bad"]:
                out.append(("gdt" if all(b.startswith("gdt") for b in e["vam"]["bad"]) else "latest-report", e["rid"],
                            "; ".join(e["vam"]["bad"]), False))
            if has_lf:
                last_lf = e["wall"]
            last_ts, R, quiet, first_seen = ts, 0, False, True
        else:
            if not e["gate"] or e["err"] or failed or ts is None:
                quiet = True
            elif not first_seen:
                out.append(("first", e["rid"], "no VAM at the first report after activation", False))
                first_seen = True
            elif not quiet and last_ts is not None and R < 65536 - T_GEN_VAM_MAX and ts - last_ts > T_GEN_VAM_MAX + R:
                out.append(("max-gap", e["rid"], f"{ts - last_ts} ms since the previous VAM, report period <= {R}", False))
        if ts is not None:
            prev_ts = ts
    return out


# ------------------------------------------------------------------------------------------------
# bookkeeping


def classify_vam(rule, early_dyn, gated):
    """membership in the known region of C10-KF1: a min-gap violation of the un-gated code"""
    return "C10-KF1" if (rule == "min-gap" and not gated) else None


def trim(sc, t_limit):
    s = dict(sc)
    s["events"] = [e for e in sc["events"] if e[0] <= t_limit]
    s["dur"] = min(sc.get("dur", t_limit), t_limit + 1)
    return s


def check_cam_batch(ctx, coder, scenarios, tag, variants):
    all_lines, spans = [], []
    for i, sc in enumerate(scenarios):
        lines, reals, log, info = run_cam(sc, coder, variants)
        P = 100 + max(sc.get("late", [0])) + max([int(e[2]) for e in sc["events"] if e[1].startswith("race") and len(e) > 2] or [0])
        viol = oracle_cam(log, P)
        ctx.evals(len(lines))
        ctx.cover(f"cam_style_{sc.get('style')}")
        ctx.cover(f"cam_mode_{sc.get('mode')}")
        ctx.cover(f"cam_rate_{sc.get('rate')}Hz")
        ctx.cover("cam_checks", info["checks"])
        ctx.cover("cam_sent", info["cams"])
        ctx.cover("cam_pos_nudges", info["nudges"])
        ctx.cover("cam_virtual_s", sc["dur"] // 1000)
        ctx.cover("cam_expiry_then_stop_races", info["races"])
        glast, starts, on = None, 0, False     # last CAM of any activation / activations begun since then
        for e in log:
            if e[0] == "start" and not on:
                on, starts = True, starts + 1
            elif e[0] == "stop":
                on = False
            if e[0] == "check":
                c = e[2]
                if c["active"] and glast is not None and e[1] - glast < T_GEN_CAM_MIN + 2 and starts >= 1:
                    # a check of a LATER activation inside (or at the edge of) the T_GenCamMin window of the last CAM
                    ctx.cover("cam_check_in_min_window_after_%s" % ("1_restart" if starts == 1 else "2_restarts" if starts == 2
                                                                    else "3plus_restarts"))
                if c["cam"] is not None:
                    if starts >= 2 and glast is not None:
                        ctx.cover("cam_first_after_several_restarts_without_cam")
                    glast, starts = e[1], 0
                if c["fail"]:
                    ctx.cover(f"cam_check_with_injected_{FAIL_KINDS[c['fail']]}_failure")
                    if c["cam"] is not None:
                        ctx.cover("cam_transmitted_despite_failure_after_btp")
                if not c["active"]:
                    ctx.cover("cam_callback_after_stop")
                if c["cam"]:
                    d = c["cam"]["dec"]
                    ctx.cover("cam_with_lf" if d["lf"] else "cam_without_lf")
                    if d["gdt"] < 200 or d["gdt"] > 65335:
                        ctx.cover("cam_gdt_near_wrap")
                    ctx.nontrivial(("cam", tag, i, e[1], d["lf"], d["vlf"], d["gdt"]))
        for rule, t, detail in viol[:3]:
            ctx.violation(f"CAM {rule}: {detail} (t={t - sc['t0']} ms, style {sc.get('style')}/{sc.get('mode')}, {sc.get('rate')} Hz)",
                          {"kind": "cam", "rule": rule, "scenario": trim(sc, t - sc["t0"])}, classify_cam(rule))
        if sc.get("offgrid"):
            ctx.cover("cam_offgrid_oracle_only")
        else:
            spans.append((len(all_lines), len(lines), reals, i))
            all_lines += lines
        if i == 0:
            ctx.sample("cam-trajectory", {"style": sc.get("style"), "mode": sc.get("mode"), "rate_hz": sc.get("rate"),
                                          "virtual_ms": sc["dur"], "checks": info["checks"], "cams": info["cams"],
                                          "first_lines": lines[:6], "real": reals[:6]})
    if ctx.model_ok and all_lines:
        out = ctx.model("CamTM", all_lines)
        for off, n, reals, i in spans:
            for k in range(n):
                if out[off + k] != reals[k]:
                    ctx.mismatch(f"cam/{tag}", {"scenario": i, "op": all_lines[off + k], "index": k,
                                                "context": all_lines[max(off, off + k - 3):off + k]}, reals[k], out[off + k])
                    break


def check_vam_batch(ctx, coder, scenarios, gated, tag, lfa=1):
    all_lines, spans = [], []
    for i, sc in enumerate(scenarios):
        lines, reals, log, info = run_vam(sc, coder, gated, lfa)
        viol = oracle_vam(log)
        ctx.evals(len(lines))
        ctx.cover(f"vam_style_{sc.get('style')}")
        ctx.cover(f"vam_rate_{sc.get('rate')}Hz")
        ctx.cover("vam_reports", info["reports"])
        ctx.cover("vam_sent", info["vams"])
        ctx.cover("vam_lf_boundary_nudges", info["nudges"])
        ctx.cover("vam_injected_failures", info["injected"])
        if sc.get("exact"):
            ctx.cover("vam_exact_wall_grid")
        wrapped = False
        for e in log:
            if e["vam"]:
                d = e["vam"]["dec"]
                ctx.cover("vam_with_lf" if d["lf"] else "vam_without_lf")
                if d["cop"]:
                    ctx.cover("vam_with_cluster_operation")
                if d["gdt"] < 200 or d["gdt"] > 65335:
                    ctx.cover("vam_gdt_near_wrap")
                    wrapped = True
                ctx.nontrivial(("vam", tag, i, e["rid"], d["lf"], d["gdt"]))
        if wrapped:
            ctx.cover("vam_runs_across_gdt_wrap")
        shown = set()
        for rule, rid, detail, early in viol:
            fid = classify_vam(rule, early, gated)
            if (rule, fid) in shown:
                continue
            shown.add((rule, fid))
            t_rel = sc["events"][rid - 1][0]
            ctx.violation(f"VAM {rule}: {detail} (report {rid}, style {sc.get('style')}, {sc.get('rate')} Hz)",
                          {"kind": "vam", "rule": rule, "scenario": trim(sc, t_rel)},
                          fid or ("C10-F2" if rule == "gdt" else None))
        if sc.get("offgrid"):
            ctx.cover("vam_offgrid_oracle_only")
        else:
            spans.append((len(all_lines), len(lines), reals, i))
            all_lines += lines
        if i == 0:
            ctx.sample("vam-trajectory", {"style": sc.get("style"), "rate_hz": sc.get("rate"), "reports": info["reports"],
                                          "vams": info["vams"], "first_lines": lines[:5], "real": reals[:5]})
    if ctx.model_ok and all_lines:
        out = ctx.model("VamTM", all_lines)
        for off, n, reals, i in spans:
            for k in range(n):
                if out[off + k] != reals[k]:
                    ctx.mismatch(f"vam/{tag}", {"scenario": i, "op": all_lines[off + k], "index": k,
                                                "context": all_lines[max(off, off + k - 3):off + k]}, reals[k], out[off + k])
                    break


_CODERS = {}


def coders():
    if not _CODERS:
        _CODERS["cam"] = CAMCoder()
        _CODERS["vam"] = VAMCoder()
    return _CODERS["cam"], _CODERS["vam"]


def _cam_sc(t0, dur, events, **kw):
    sc = {"kind": "cam", "style": "boundary", "mode": "boundary", "rate": 20, "t0": t0, "dur": dur, "delay": 7,
          "late": [0], "role": 0, "station_type": 5, "special": False, "fails": [],
          "events": sorted(events, key=lambda e: (e[0], 0 if e[1] != "report" else 1))}
    sc.update(kw)
    return sc


def boundary_scenarios():
    """hand-written boundary cases: elapsed exactly 99/100/101, 999/1000/1001, LF at 499/500/501, dynamics exactly at
    / just beyond the thresholds, heading across 0/360"""
    out = []
    t0 = 1_700_000_000_000
    base = {"class": "TPV", "lat": 41.0, "lon": 2.0, "track": 358.0, "speed": 10.0}
    for late in ([0], [0, 99, 0, 1], [399, 0, 0, 0, 0], [0, 0, 0, 0, 400], [900, 0], [899, 0], [901, 0]):
        for d_track, d_speed in ((4.0, 0.0), (4.25, 0.0), (0.0, 0.5), (0.0, 0.625), (-4.25, 0.0), (6.0, 0.0), (0.0, 0.0)):
            ev = [[0, "start"]]
            for k in range(0, 3000, 50):
                tpv = dict(base, time=iso(t0 + k))
                if k >= 400:
                    tpv["track"] = (base["track"] + d_track) % 360.0
                    tpv["speed"] = base["speed"] + d_speed
                ev.append([k, "report", tpv])
            out.append(_cam_sc(t0, 3000, ev, late=late))
    return out


def race_and_failure_scenarios():
    """hand-written histories of the classes added in round 3:
    * stop() / stop()+start() between a timer's expiry and its callback, at the first expiry of an activation, at an
      expiry at which condition 1 / condition 2 is due, and at one at which nothing is due;
    * a transmission attempt failing at each of the four points, at a check at which the low-frequency container is due
      and at one at which it is not, the retry one period later, two failures in a row;
    * stop/start cycles 1..100 ms after a CAM."""
    out = []
    t0 = 1_700_000_000_000

    def reports(dur, period, dyn):
        ev = []
        for i, k in enumerate(range(0, dur, period)):
            ev.append([k, "report", {"time": iso(t0 + k), "lat": 41.0 + (i * 2e-5 if dyn else 0.0), "lon": 2.0,
                                     "track": (90.0 + (i % 3) * 5.0) if dyn else 90.0, "speed": 10.0}])
        return ev

    for dyn in (False, True):
        for at in (3, 50, 1003, 1150, 2007):
            for kind in ("race-stop", "race-restart"):
                for gap in (0, 3):
                    out.append(_cam_sc(t0, 3500, reports(3500, 50, dyn) + [[0, "start"], [at, kind, gap], [at + 900, "start"]],
                                       mode="race"))
        for fk in (1, 2, 3, 4):
            for idx in ([0], [1], [5], [10], [10, 11], [20], [3, 4, 5, 6]):
                out.append(_cam_sc(t0, 3500, reports(3500, 50, dyn) + [[0, "start"]], mode="fail", fails=[[i, fk] for i in idx]))
        for off in (1, 7, 50, 93, 99, 100, 101):
            out.append(_cam_sc(t0, 2500, reports(2500, 50, dyn) + [[0, "start"], [1010, "stop"], [1010 + off, "start"],
                                                                    [1800, "stop"], [1800 + off, "start"]], mode="restart", delay=0))
    return out


def restart_chain_scenarios():
    """hand-written histories of the class added in round 4: a CAM, then k = 2..5 stop()/start() cycles inside the
    T_GenCamMin window of that CAM without a CAM in between (activations without any check, and activations whose only
    check is held back), the first check of the last activation well inside the window and at 99 / 100 / 101 ms after
    the CAM; standing still (CAM cadence 1 s) and with dynamics (cadence 100 ms); twice per run."""
    out = []
    t0 = 1_700_000_000_000

    def reports(dur, dyn):
        return [[k, "report", {"time": iso(t0 + k), "lat": 41.0 + (i * 2e-5 if dyn else 0.0), "lon": 2.0,
                               "track": (90.0 + (i % 3) * 5.0) if dyn else 90.0, "speed": 10.0}]
                for i, k in enumerate(range(0, dur, 50))]

    for dyn in (False, True):
        for k in (2, 3, 5):
            for delay, gap in ((0, 4), (0, 9), (10, 3), (10, 8)):     # gap > delay: a (held) check in every activation
                for last in (None, 99, 100, 101):
                    ev = reports(3600, dyn) + [[0, "start"]]
                    cam = 1000 + delay                                  # a CAM of the first activation (cadence 100 ms / 1 s)
                    for _ in range(2):
                        t = cam + 2
                        for j in range(k):
                            ev.append([t, "stop"])
                            t += gap
                            if j == k - 1 and last is not None:
                                t = max(t, cam + last - delay)          # first check of the last activation at cam + last
                            ev.append([t, "start"])
                            first_check = t + delay
                            t += gap
                        # the first CAM of the last activation (if the hold is honoured), then a CAM 1 s later in either style
                        cam = (first_check if first_check - cam >= T_GEN_CAM_MIN else first_check + 100) + 1000
                    out.append(_cam_sc(t0, 3600, ev, mode="multi-restart", delay=delay))
    return out


def overdue_dynamics_scenarios():
    """hand-written histories: the transmission attempts at the 1..3 checks at which the time-triggered CAM is due fail
    (while the PDU is built / in the coder / in the BTP request), heading / speed / position change meanwhile, so that the
    CAM that finally goes out is a CONDITION-1 CAM with more than T_GenCamMax elapsed; afterwards the vehicle is steady:
    the next CAM has to follow within T_GenCamMax + one check period (T_GenCam clamped from above as well)."""
    out = []
    t0 = 1_700_000_000_000
    for what in ("speed", "heading", "position"):
        for fk in (1, 2, 3):
            for nfail in (1, 2, 3):
                for due in (21, 31):         # index of the check (7 + 100 i ms) at which condition 2 is due: CAMs at 7, 107, 1107, ...
                    ev = [[0, "start"]]
                    change_at = 7 + 100 * due + 30
                    for k in range(0, 100 * due + 3600, 50):
                        tpv = {"time": iso(t0 + k), "lat": 41.0, "lon": 2.0, "track": 90.0, "speed": 10.0}
                        if k >= change_at:
                            if what == "speed":
                                tpv["speed"] = 11.0
                            elif what == "heading":
                                tpv["track"] = 96.0
                            else:
                                tpv["lat"] = 41.0001       # about 11 m
                        ev.append([k, "report", tpv])
                    out.append(_cam_sc(t0, 100 * due + 3600, ev, mode="fail", fails=[[due + j, fk] for j in range(nfail)]))
    return out


def _vam_rep(t0, k, speed=1.0, track=90.0):
    return {"time": iso(t0 + k), "lat": 41.0, "lon": 2.0, "track": track, "speed": speed}


def vam_boundary_scenarios():
    out = []
    t0 = 1_700_000_000_000
    t0 -= t0 % 125
    for period in (20, 25, 50, 99, 100, 101, 125, 1000):
        for dv in (0.0, 0.5, 0.625, 2.0):
            ev = []
            for i, k in enumerate(range(0, 6000, period)):
                ev.append([k, "report", _vam_rep(t0, k, 1.0 + (dv if (i % 7) == 3 else 0.0)), 1])
            out.append({"kind": "vam", "style": "boundary", "rate": 1000 // period, "t0": t0, "dur": 6000, "tgen": 100,
                        "wall_lag": 0, "exact": period == 125, "events": ev})
    return out


def vam_wrap_and_failure_scenarios():
    """report timestamps crossing the 65.536 s generationDeltaTime wrap at every report rate (standing still: only the
    elapsed-time trigger can fire), with every T_GenVam; failing transmission attempts at / off the LF boundary;
    cluster-operation containers"""
    out = []
    base = 1_700_000_000_000
    for period in (20, 40, 100, 200, 250, 500, 1000):
        for tgen in (100, 1000, 5000):
            for before in (2950, 10, 99):
                t0 = base + (65536 - its_of(base) % 65536) - before
                ev = [[k, "report", _vam_rep(t0, k), 1] for k in range(0, 14000, period)]
                out.append({"kind": "vam", "style": "still-wrap", "rate": 1000 // period, "t0": t0, "dur": 14000,
                            "tgen": tgen, "wall_lag": 0, "exact": False, "events": ev})
    t0 = base
    for fk in (1, 2, 3):
        for at in ([20], [21], [20, 21], [5], [0], [0, 1]):          # report 20 = 2000 ms: LF due; 21: retry
            ev = [[k, "report", _vam_rep(t0, k), 1, 0, (fk if i in at else 0)] for i, k in enumerate(range(0, 7000, 100))]
            out.append({"kind": "vam", "style": "fail", "rate": 10, "t0": t0, "dur": 7000, "tgen": 100,
                        "wall_lag": 0, "exact": False, "events": ev})
    for cops in ([3], [3, 4, 5], [20], [19, 21], [0]):
        ev = [[k, "report", _vam_rep(t0, k), 1, 1 if i in cops else 0, 0] for i, k in enumerate(range(0, 5000, 100))]
        out.append({"kind": "vam", "style": "cluster-op", "rate": 10, "t0": t0, "dur": 5000, "tgen": 100,
                    "wall_lag": 0, "exact": False, "events": ev})
    return out


def variants_and_facts(ctx, cam_coder, vam_coder):
    gated = detect_vam_gated(vam_coder)
    lfa = detect_vam_lf_after_send(vam_coder)
    cam_var = detect_cam_variants(cam_coder)
    ctx.extra["variant"] = {"C10-KF1": "gated (repaired)" if gated else "un-gated (code as is)",
                            "C10-F4 cam ldm failure": "isolated (repaired)" if cam_var[0] else "aborts the bookkeeping",
                            "C10-F5 cam restart hold": ("no hold" if not cam_var[1] else "held through any number of restarts (repaired)"
                                                        if cam_var[2] else "held, but cleared by a second restart without a CAM"),
                            "C10-F6 vam lf time": "after the send (repaired)" if lfa else "before the attempt"}
    # the facts regenerated from the source must describe the same variants as the behaviour probes
    try:
        facts = gen_facflow.facts()
        for name, probe in (("CAM_LDM_ISOLATED", cam_var[0]), ("CAM_RESTART_HOLD", cam_var[1]),
                            ("CAM_RESTART_HOLD_STICKY", cam_var[1] and cam_var[2]), ("VAM_LF_TIME_AFTER_SEND", lfa)):
            if bool(facts.get(name)) != bool(probe):
                ctx.mismatch("variant-facts", {"fact": name}, f"behaviour probe: {probe}", f"source shape: {facts.get(name)}")
    except Exception as e:     # reported by the generator as a broken obligation already
        ctx.note(f"gen_facflow.facts failed: {type(e).__name__}: {e}")
    return gated, lfa, cam_var


def run(ctx):
    ctx.extra["rule"] = ("whole runs of the real transmission managements under a virtual clock/timer: each trajectory is a "
                         "timed list of start/stop/report events (8 motion styles x 8 report rates 1-50 Hz x start/stop/"
                         "failure/jitter/race modes, generationDeltaTime wraps, hand-written threshold boundaries, timer "
                         "expiries racing with stop()/start(), failures injected at 4 (CAM) / 3 (VAM) points of a "
                         "transmission attempt); distinct_nontrivial counts distinct emitted messages (trajectory, time, "
                         "containers, gdt)")
    cam_coder, vam_coder = coders()
    gated, lfa, cam_var = variants_and_facts(ctx, cam_coder, vam_coder)
    # 1 corpus
    cam_c, vam_c = [], []
    for name, c in corpus("C10"):
        sc = c.get("scenario", c)
        (cam_c if sc.get("kind") == "cam" else vam_c).append(sc)
    ctx.cover("corpus_cases", len(cam_c) + len(vam_c))
    check_cam_batch(ctx, cam_coder, cam_c, "corpus", cam_var)
    check_vam_batch(ctx, vam_coder, vam_c, gated, "corpus", lfa)
    # 2 boundaries
    check_cam_batch(ctx, cam_coder, boundary_scenarios(), "boundary", cam_var)
    check_cam_batch(ctx, cam_coder, race_and_failure_scenarios(), "race-fail", cam_var)
    check_cam_batch(ctx, cam_coder, restart_chain_scenarios(), "restart-chain", cam_var)
    check_cam_batch(ctx, cam_coder, overdue_dynamics_scenarios(), "overdue-dynamics", cam_var)
    check_vam_batch(ctx, vam_coder, vam_boundary_scenarios(), gated, "boundary", lfa)
    check_vam_batch(ctx, vam_coder, vam_wrap_and_failure_scenarios(), gated, "wrap-fail", lfa)
    # 3 generated trajectories
    n_cam, dur = ctx.scale(40, 600), ctx.scale(15_000, 60_000)
    cams = [gen_cam_scenario(ctx.rng, dur, wrap=(i % 4 == 0)) for i in range(n_cam)]
    for st in STYLES:     # every style at least once
        cams.append(gen_cam_scenario(ctx.rng, dur, style=st))
    for md in CAM_MODES:  # every mode at least once
        cams.append(gen_cam_scenario(ctx.rng, dur, mode=md))
    cams += [gen_cam_scenario(ctx.rng, dur, mode="multi-restart") for _ in range(ctx.scale(3, 40))]
    cams += [offgrid(ctx.rng, gen_cam_scenario(ctx.rng, dur)) for _ in range(ctx.scale(6, 60))]
    check_cam_batch(ctx, cam_coder, cams, "gen", cam_var)
    n_vam = ctx.scale(40, 600)
    vams = [gen_vam_scenario(ctx.rng, dur, wrap=(i % 3 == 0)) for i in range(n_vam)]
    vams += [gen_vam_scenario(ctx.rng, dur, style=st, rate=50) for st in STYLES]
    vams += [gen_vam_scenario(ctx.rng, dur, tgen=tg, wrap=True) for tg in (100, 250, 1000, 5000)]
    vams += [gen_vam_scenario(ctx.rng, dur, faults=f) for f in ("fail", "cluster", "both")]
    vams += [offgrid(ctx.rng, gen_vam_scenario(ctx.rng, dur)) for _ in range(ctx.scale(6, 60))]
    check_vam_batch(ctx, vam_coder, vams, gated, "gen", lfa)
    if ctx.thorough:      # hours of virtual time
        longs = [gen_cam_scenario(ctx.rng, 2 * 3600 * 1000, style=st) for st in ("still", "random", "stopgo")]
        for sc in longs:
            sc["events"] = [e for e in sc["events"] if e[1] != "report" or e[0] % 1000 < 1000 // sc["rate"] or sc["rate"] <= 2]
        check_cam_batch(ctx, cam_coder, longs, "long", cam_var)
        vlong = [gen_vam_scenario(ctx.rng, 3600 * 1000, style=st, rate=2) for st in ("still", "random")]
        check_vam_batch(ctx, vam_coder, vlong, gated, "long", lfa)


def search(ctx):
    """oracle only, on the real code: the hand-written race / failure / wrap histories again (they are the likeliest
    witnesses of a broken structural obligation), then ~3x the generated volume with the race and failure modes and
    the generationDeltaTime wrap over-represented"""
    cam_coder, vam_coder = coders()
    gated = detect_vam_gated(vam_coder)
    lfa = detect_vam_lf_after_send(vam_coder)
    cam_var = detect_cam_variants(cam_coder)
    ok = ctx.model_ok
    ctx.model_ok = False
    try:
        check_cam_batch(ctx, cam_coder, race_and_failure_scenarios(), "search-race-fail", cam_var)
        check_cam_batch(ctx, cam_coder, restart_chain_scenarios(), "search-restart-chain", cam_var)
        check_cam_batch(ctx, cam_coder, overdue_dynamics_scenarios(), "search-overdue-dynamics", cam_var)
        check_vam_batch(ctx, vam_coder, vam_wrap_and_failure_scenarios(), gated, "search-wrap-fail", lfa)
        if ctx.violations:
            return
        n, dur = ctx.scale(150, 900), ctx.scale(20_000, 60_000)
        modes = ["race", "fail", "restart", "multi-restart", None]
        check_cam_batch(ctx, cam_coder, [gen_cam_scenario(ctx.rng, dur, wrap=(i % 3 == 0), mode=modes[i % 5]) for i in range(n)],
                        "search", cam_var)
        check_vam_batch(ctx, vam_coder, [gen_vam_scenario(ctx.rng, dur, wrap=(i % 2 == 0), style=("still" if i % 5 == 0 else None))
                                         for i in range(n)], gated, "search", lfa)
    finally:
        ctx.model_ok = ok


def replay(ctx, obj):
    case = obj.get("case", obj)
    sc = case.get("scenario", case)
    cam_coder, vam_coder = coders()
    if sc.get("kind") == "cam":
        _, _, log, info = run_cam(sc, cam_coder)
        P = 100 + max(sc.get("late", [0])) + max([int(e[2]) for e in sc["events"] if e[1].startswith("race") and len(e) > 2] or [0])
        viol = oracle_cam(log, P)
        for v in viol[:5]:
            print("CAM", v[0], "t=%d" % (v[1] - sc["t0"]), v[2])
        print(f"cam scenario: {info['checks']} checks, {info['cams']} CAMs, {len(viol)} rule violations")
        return bool(viol)
    if sc.get("kind") == "vam":
        gated = detect_vam_gated(vam_coder)
        _, _, log, info = run_vam(sc, vam_coder, gated)
        viol = oracle_vam(log)
        for v in viol[:5]:
            print("VAM", v[0], "report", v[1], v[2])
        print(f"vam scenario: {info['reports']} reports, {info['vams']} VAMs, {len(viol)} rule violations")
        return bool(viol)
    raise Infra(f"unknown replay kind {sc.get('kind')}")

"""C04 — No received frame can stop or derail the receive path.

Theorems: lean/Props/C04.lean (loop never dies for every frame processor given the GENERATED except-clauses;
rejected frames have no effect; MAC filter).  Model: lean/FlexModel/Geo/RecvPath.lean.
Tie: (i) Generated/Except.lean re-read from the source's `except` clauses on every run;
(ii) byte-level correspondence of `classify` with the real `Router.process_basic_header` on fuzzed frames
(outcome class per frame: raised:<Exc> / dropped / secured / handled:<handler>);
(iii) the real `RawLinkLayer.receive` and `PythonCV2XLinkLayer.callback_handler_loop` run on scripted
sockets/queues with bad frames injected at every position of valid traffic — oracle: loop alive, deliveries of
the valid frames equal those of the control run without the bad frames, own/foreign-unicast frames ignored.
"""
from __future__ import annotations

import queue
import traceback

from common import Infra, corpus
import realstack as rs
import station as st_mod

from flexstack.linklayer.raw_link_layer import RawLinkLayer as _RawLL

# the class is wrapped by a plain-function decorator (raise_exception_if_windows): unwrap it
RawLinkLayer = _RawLL if isinstance(_RawLL, type) else _RawLL.__closure__[0].cell_contents
import sys
import types

if "flexstack.linklayer.cv2xlinklayer" not in sys.modules:
    # the native C-V2X binding (.so) is not shipped: only the Python callback loop is in scope
    _stub = types.ModuleType("flexstack.linklayer.cv2xlinklayer")
    _stub.CV2XLinkLayer = type("CV2XLinkLayer", (), {})
    sys.modules["flexstack.linklayer.cv2xlinklayer"] = _stub
from flexstack.linklayer import cv2x_link_layer as cv2x_mod  # noqa: E402

MODULES = ["Props.C04"]
DRIVERS = ["Recv"]
TRUSTED = [
    "modelled rather than verified: exceptions raised inside asn1tools/ecdsa/facility callbacks are one kind "
    "`opaque` assumed to derive from Exception (observed by fuzzing, not proved); BaseException-only signals "
    "(KeyboardInterrupt, SystemExit) are out of scope",
    "gen_except.py: ast pass that reads the except clauses around receive_callback / process_basic_header",
    "the stateful handler part (DAD, location table, delivery, forwarding) is an arbitrary function in C04's "
    "theorems; its own behaviour is the subject of C06/C08/C01",
]
ASSUMPTIONS = [
    "a frame counts as 'handled' once its handler reaches duplicate_address_detection (all headers decoded)",
    "mutants are derived from emissions that are not part of the valid stream (fresh sequence numbers), so a "
    "mutant never legitimately pre-empts a later valid frame in duplicate packet detection",
]

OWN_MAC = bytes([0x02, 0, 0, 0, 0, 0x63])
PEER_MAC = bytes([0x02, 0, 0, 0, 0, 0x01])
BCAST = b"\xff" * 6
ETHERTYPE = b"\x89\x47"
MODEL_EXC = {"DecodeError", "DecapError", "ValueError", "NotImplementedError", "ZeroDivisionError"}


# ------------------------------------------------------------------------------------------------
# frame generation


def base_frames(clock, n=1, idxs=(1, 3)):
    """valid frames (CAM/VAM over SHB, DENM over GBC) emitted by real stations (mutant sources: 1 and 3;
    the valid streams come from stations 5 and 7 so that no mutant shares (source, SN) with a valid frame)"""
    out = []
    with rs.quiet():
        for idx in idxs:
            a = st_mod.Station(idx, clock, with_ldm=False)
            for _ in range(n):
                out += [("cam", f) for f in st_mod.emit_cam(a, clock)]
                out += [("vam", f) for f in st_mod.emit_vam(a, clock)]
                out += [("denm", f) for f in st_mod.emit_denm(a, clock)]
    return out


def skeleton(ht, hst, body_len, nh=1, cnh=2, rhl=1, mhl=1, version=1, fill=0):
    basic = bytes([(version << 4) | nh, 0, 0x05, rhl])
    common = bytes([cnh << 4, (ht << 4) | hst, 0, 0x80, 0, 0, mhl, 0])
    return basic + common + bytes([fill]) * body_len


def grammar_frames(ctx, base):
    fr = []
    # every length of every header type around the extended-header sizes
    for ht, hsts in ((0, [0]), (1, [0, 1]), (2, [0, 3]), (3, [0, 1, 2, 3]), (4, [0, 1, 2, 7]), (5, [0, 1, 2]),
                     (6, [0, 1, 2]), (7, [0]), (15, [0])):
        for hst in hsts:
            for ln in (0, 1, 7, 23, 24, 25, 27, 28, 29, 35, 36, 37, 43, 44, 45, 47, 48, 49, 60):
                fr.append(skeleton(ht, hst, ln))
                fr.append(skeleton(ht, hst, ln, fill=0xFF))
                fr.append(skeleton(ht, hst, ln, fill=0x14))
    for b0 in range(256):
        fr.append(bytes([b0]) + base[0][1][1:])
    src = base[0][1]
    for v in range(256):
        for pos in (4, 5):
            q = bytearray(src)
            q[pos] = v
            fr.append(bytes(q))
    # hop limits
    for rhl in (0, 1, 2, 10, 255):
        for mhl in (0, 1, 9, 10, 255):
            q = bytearray(src)
            q[3], q[10] = rhl, mhl
            fr.append(bytes(q))
    # station-type field of the source address (offset 12 for SHB/beacon bodies, 16 for ext headers with SN)
    for kind, f in base[:3]:
        off = 12 if kind in ("cam", "vam") else 16
        for v in range(0, 256, 3):
            q = bytearray(f)
            q[off] = v
            fr.append(bytes(q))
    # zero-sized areas on the GBC frame
    g = next(f for k, f in base if k == "denm")
    for a, b in ((0, 0), (0, 5), (5, 0), (1, 1)):
        for hst in (0, 1, 2):
            for ht in (3, 4):
                q = bytearray(g)
                q[5] = (ht << 4) | hst
                q[12 + 36:12 + 38] = a.to_bytes(2, "big")
                q[12 + 38:12 + 40] = b.to_bytes(2, "big")
                fr.append(bytes(q))
    fr += [b"", b"\x11", b"\x11\x00", b"\x11\x00\x05", b"\x11\x00\x05\x01"]
    return fr


def mutant_frames(ctx, base):
    fr = []
    for kind, f in base[:3] if not ctx.thorough else base:
        for i in range(len(f) + 1):
            fr.append(f[:i])
        idxs = range(len(f)) if ctx.thorough else sorted(ctx.rng.sample(range(len(f)), min(len(f), 40)) + list(range(16)))
        for i in idxs:
            for bit in (range(8) if (ctx.thorough or i < 16) else (ctx.rng.randrange(8),)):
                q = bytearray(f)
                q[i] ^= 1 << bit
                fr.append(bytes(q))
        for _ in range(ctx.scale(30, 300)):
            q = bytearray(f)
            for _ in range(ctx.rng.randrange(1, 4)):
                q[ctx.rng.randrange(len(q))] = ctx.rng.randrange(256)
            fr.append(bytes(q))
        for _ in range(ctx.scale(10, 60)):
            fr.append(f + bytes(ctx.rng.randrange(256) for _ in range(ctx.rng.randrange(1, 40))))
    return fr


def random_frames(ctx):
    fr = []
    for _ in range(ctx.scale(600, 20000)):
        ln = ctx.rng.choice([0, 1, 3, 4, 5, 11, 12, 13, 36, 40, 56, 60, 100, 300, 1486]) if ctx.rng.random() < 0.5 \
            else ctx.rng.randrange(0, 200)
        b = bytearray(ctx.rng.randrange(256) for _ in range(ln))
        if ln >= 12 and ctx.rng.random() < 0.7:   # mostly-valid prefix so deeper stages are reached
            b[0] = 0x11 if ctx.rng.random() < 0.8 else ctx.rng.randrange(256)
            b[4] = ctx.rng.choice([0x10, 0x20, 0x00, 0x30, 0x40])
            b[5] = (ctx.rng.randrange(8) << 4) | ctx.rng.randrange(4)
            b[3] = ctx.rng.choice([0, 1, 2, 10])
            b[10] = ctx.rng.choice([1, 10, 255])
        fr.append(bytes(b))
    return fr


# ------------------------------------------------------------------------------------------------
# (ii) classification correspondence


class Spy:
    """records which handler's stateful part was reached on a real Router"""

    def __init__(self, router):
        self.r = router
        self.reached = None
        self.current = None
        orig_dad = router.duplicate_address_detection

        def dad(addr):
            if self.reached is None:
                self.reached = self.current or "?"
            return orig_dad(addr)
        router.duplicate_address_detection = dad
        for name, tag in (("gn_data_indicate_beacon", "beacon"), ("gn_data_indicate_shb", "shb"),
                          ("gn_data_indicate_tsb", "tsb"), ("gn_data_indicate_gbc", "gbc"),
                          ("gn_data_indicate_gac", "gac"), ("gn_data_indicate_guc", "guc"),
                          ("gn_data_indicate_ls_request", "ls_request"), ("gn_data_indicate_ls_reply", "ls_reply")):
            self._wrap(name, tag)

    def _wrap(self, name, tag):
        orig = getattr(self.r, name)

        def w(*a, **k):
            self.current = tag
            return orig(*a, **k)
        setattr(self.r, name, w)

    def reset(self):
        self.reached = None
        self.current = None


def real_classify(stn, spy, frame):
    spy.reset()
    before = stn.loct_snapshot()
    hits = len(stn.port_hits)
    exc = None
    try:
        with rs.quiet():
            stn.gn.process_basic_header(frame)
    except Exception as e:  # noqa: BLE001
        exc = e
    if spy.reached is not None:
        return "handled:" + spy.reached, exc
    if exc is not None:
        n = type(exc).__name__
        changed = stn.loct_snapshot() != before or len(stn.port_hits) != hits
        return ("raised:" + n) + ("+EFFECT" if changed else ""), exc
    if stn.loct_snapshot() != before or len(stn.port_hits) != hits:
        return "dropped+EFFECT", None
    return "dropped", None


def check_classify(ctx, clock, frames):
    from flexstack.geonet.mib import GnSecurity
    for sec in (0, 1):
        kw = {"itsGnSecurity": GnSecurity.ENABLED} if sec else {}
        with rs.quiet():
            stn = st_mod.Station(0x63, clock, with_ldm=False, **kw)
        spy = Spy(stn.gn)
        sub = frames if not sec else frames[::5]
        lines, reals = [], []
        for f in sub:
            out, exc = real_classify(stn, spy, f)
            reals.append((f, out))
            lines.append(f"cls 1 {sec} 0 {f.hex() or '-'}")
            ctx.evals()
            ctx.cover("real_" + out.split("+")[0])
            ctx.nontrivial(("cls", sec, out, len(f) if len(f) < 64 else 64, f[4:6].hex()))
            if out.endswith("+EFFECT"):
                ctx.violation(f"rejected frame changed router state ({out})", {"kind": "classify", "sec": sec, "frame": f.hex()})
        if not ctx.model_ok:
            continue
        for (f, out), mo in zip(reals, ctx.model("Recv", lines)):
            if out != mo:
                ctx.mismatch("recv.classify", {"sec": sec, "frame": f.hex()}, out, mo)
        ctx.sample("classify", {"frame": reals[len(reals) // 2][0].hex(), "outcome": reals[len(reals) // 2][1]})


# ------------------------------------------------------------------------------------------------
# (iii) loops


class FakeSock:
    def __init__(self, frames, on_recv):
        self.frames = list(frames)
        self.i = 0
        self.on_recv = on_recv

    def recv(self, n):
        self.on_recv(self.i)
        if self.i >= len(self.frames):
            raise OSError("end of script")
        f = self.frames[self.i]
        self.i += 1
        return f[:n]

    def close(self):
        pass


def eth(payload, dst=BCAST, src=PEER_MAC):
    return dst + src + ETHERTYPE + payload


def run_raw_loop(clock, frames, facilities, with_ldm):
    """returns (alive, per-frame deliveries, error) for ethernet frames `frames` through the real RawLinkLayer.receive"""
    with rs.quiet():
        stn = st_mod.Station(0x63, clock, facilities=facilities, with_ldm=with_ldm)
    marks = []
    ll = RawLinkLayer.__new__(RawLinkLayer)
    ll.receive_callback = stn.gn.gn_data_indicate
    ll.mac_address = OWN_MAC
    ll.sock = FakeSock(frames, lambda i: marks.append(len(stn.port_hits)))
    err = None
    try:
        with rs.quiet():
            ll.receive()
    except BaseException as e:  # noqa: BLE001  the loop died
        err = f"{type(e).__name__}: {e}"
    per = []
    for i in range(len(frames)):
        lo = marks[i] if i < len(marks) else len(stn.port_hits)
        hi = marks[i + 1] if i + 1 < len(marks) else len(stn.port_hits)
        per.append([(p, bytes(ind.data).hex()) for p, ind in stn.port_hits[lo:hi]])
    alive = err is None and ll.sock.i == len(frames)
    return alive, per, err


def run_cv2x_loop(clock, payloads):
    with rs.quiet():
        stn = st_mod.Station(0x63, clock, with_ldm=False)
    ll = cv2x_mod.PythonCV2XLinkLayer.__new__(cv2x_mod.PythonCV2XLinkLayer)
    ll.link_layer = None
    ll.receive_callback = stn.gn.gn_data_indicate
    q = queue.Queue()
    for p in payloads:
        q.put(p)
    q.put(None)
    err = None
    try:
        with rs.quiet():
            ll.callback_handler_loop(q)
    except BaseException as e:  # noqa: BLE001
        err = f"{type(e).__name__}: {e}"
    return err is None and q.empty(), [(p, bytes(i.data).hex()) for p, i in stn.port_hits], err


def check_loops(ctx, clock, bad_pool):
    wirings = [(("ca", "den", "vru"), False), (("ca", "den", "vru"), True), (("ca",), False), (("den",), True), (("vru",), True)]
    n_streams = ctx.scale(24, 400)
    for s in range(n_streams):
        facilities, with_ldm = wirings[s % len(wirings)]
        valid = [f for _, f in base_frames(clock, n=1, idxs=(5, 7))]
        ctx.rng.shuffle(valid)
        k = ctx.rng.randrange(1, ctx.scale(12, 40))
        bads = [ctx.rng.choice(bad_pool) for _ in range(k)]
        # control: valid frames only
        ctrl_frames = [eth(v) for v in valid]
        alive0, per0, err0 = run_raw_loop(clock, ctrl_frames, facilities, with_ldm)
        # test: bad frames injected at random positions (every position covered over the streams)
        seq = [("v", v) for v in valid]
        for b in bads:
            seq.insert(ctx.rng.randrange(len(seq) + 1), ("b", b))
        alive1, per1, err1 = run_raw_loop(clock, [eth(x) for _, x in seq], facilities, with_ldm)
        ctx.evals(len(seq))
        ctx.cover("loop_streams")
        ctx.cover("loop_bad_frames", k)
        case = {"kind": "loop", "facilities": list(facilities), "ldm": with_ldm,
                "stream": [[t, x.hex()] for t, x in seq]}
        if not alive0:
            ctx.violation(f"receive loop died on valid traffic: {err0}", dict(case, stream=[["v", v.hex()] for v in valid]))
        if not alive1:
            ctx.violation(f"receive loop terminated by a received frame: {err1}", case)
            continue
        got = [d for (t, _), d in zip(seq, per1) if t == "v"]
        if got != per0:
            ctx.violation("deliveries of the valid frames differ from the run without the bad frames", case)
        ctx.nontrivial(("loop", s, k, tuple(facilities), with_ldm))
        if s == 0:
            ctx.sample("loop", {"facilities": list(facilities), "ldm": with_ldm, "n_valid": len(valid), "n_bad": k,
                                "deliveries_per_valid_frame": [len(d) for d in per0]})
    # MAC filter: own frames and foreign unicast ignored, own unicast and foreign broadcast accepted
    v = base_frames(clock, n=1, idxs=(5,))[0][1]
    other = bytes([0x02, 0, 0, 0, 0, 0x77])
    cases = [(BCAST, PEER_MAC, 1), (BCAST, OWN_MAC, 0), (OWN_MAC, PEER_MAC, 1), (other, PEER_MAC, 0), (OWN_MAC, OWN_MAC, 1),
             (PEER_MAC, OWN_MAC, 0)]
    lines = []
    for dst, src, want in cases:
        alive, per, err = run_raw_loop(clock, [eth(v, dst, src)], ("ca", "den", "vru"), False)
        got = 1 if per and per[0] else 0
        ctx.evals()
        exp_prop = 0 if (src == OWN_MAC and dst != OWN_MAC) or (dst not in (OWN_MAC, BCAST)) else 1
        if got != exp_prop:
            ctx.violation(f"MAC filter: dst={dst.hex()} src={src.hex()} delivered={got}", {"kind": "mac", "dst": dst.hex(), "src": src.hex()})
        lines.append((f"mac {OWN_MAC.hex()} {dst.hex()} {src.hex()}", str(got)))
    if ctx.model_ok:
        for (ln, got), mo in zip(lines, ctx.model("Recv", [l for l, _ in lines])):
            if got != mo:
                ctx.mismatch("recv.mac", ln, got, mo)
    # C-V2X callback loop
    for s in range(ctx.scale(6, 60)):
        valid = [f for _, f in base_frames(clock, n=1, idxs=(5, 7))]
        seq = [("v", x) for x in valid]
        for _ in range(ctx.rng.randrange(1, 10)):
            seq.insert(ctx.rng.randrange(len(seq) + 1), ("b", ctx.rng.choice(bad_pool) or b"\x00"))
        alive0, d0, e0 = run_cv2x_loop(clock, valid)
        alive1, d1, e1 = run_cv2x_loop(clock, [x for _, x in seq if x])
        ctx.evals(len(seq))
        ctx.cover("cv2x_streams")
        case = {"kind": "cv2x", "stream": [[t, x.hex()] for t, x in seq if x]}
        if not alive1:
            ctx.violation(f"C-V2X callback loop terminated by a received frame: {e1}", case)
        else:
            bad_deliv = set()
            if [d for d in d1 if d in d0] != d0:
                ctx.violation("C-V2X: deliveries of the valid frames differ from the control run", case)


def check_no_raise(ctx, clock, frames):
    with rs.quiet():
        stn = st_mod.Station(0x63, clock, with_ldm=True)
    for f in frames:
        ctx.evals()
        try:
            with rs.quiet():
                stn.gn.gn_data_indicate(f)
        except Exception as e:  # noqa: BLE001
            ctx.violation(f"gn_data_indicate raised {type(e).__name__} into the link layer", {"kind": "indicate", "frame": f.hex()})
    ctx.cover("gn_data_indicate_frames", len(frames))


def all_bad_frames(ctx, clock):
    base = base_frames(clock, n=1)
    frames = grammar_frames(ctx, base) + mutant_frames(ctx, base) + random_frames(ctx)
    seen, out = set(), []
    for f in frames:
        if f not in seen:
            seen.add(f)
            out.append(f)
    return out


def run(ctx):
    ctx.extra["rule"] = ("frames: grammar-based on the GN header layout (every HT/HST/NH/version, truncation at every "
                         "extended-header boundary, RHL/MHL pairs, station-type octets, zero-sized areas), truncations/bit "
                         "flips/byte substitutions/extensions of CAM, VAM and DENM frames captured from real stations, random "
                         "bytes up to the MTU; each classified by the real router and the Lean model; streams of valid traffic "
                         "with bad frames at random positions through the real RawLinkLayer.receive and C-V2X loop for 5 "
                         "facility wirings. distinct_nontrivial = distinct (security, outcome, length bucket, HT/HST octets) "
                         "classes plus distinct streams")
    with rs.VClock(1_700_000_000_000) as clock:
        corp = [bytes.fromhex(c["frame"]) for _, c in corpus("C04") if "frame" in c]
        frames = corp + all_bad_frames(ctx, clock)
        ctx.cover("corpus_cases", len(corp))
        check_classify(ctx, clock, frames)
        check_no_raise(ctx, clock, frames if ctx.thorough else frames[::3] + corp)
        check_loops(ctx, clock, frames)


def search(ctx):
    with rs.VClock(1_700_000_000_000) as clock:
        ok = ctx.model_ok
        ctx.model_ok = False
        try:
            frames = all_bad_frames(ctx, clock) + random_frames(ctx) + random_frames(ctx)
            check_no_raise(ctx, clock, frames)
            check_loops(ctx, clock, frames)
        finally:
            ctx.model_ok = ok


def replay(ctx, obj):
    case = obj.get("case", obj)
    kind = case["kind"]
    with rs.VClock(1_700_000_000_000) as clock:
        if kind in ("classify", "indicate"):
            f = bytes.fromhex(case["frame"])
            with rs.quiet():
                stn = st_mod.Station(0x63, clock, with_ldm=True)
            if kind == "indicate":
                try:
                    with rs.quiet():
                        stn.gn.gn_data_indicate(f)
                    return False
                except Exception as e:  # noqa: BLE001
                    print("raised", type(e).__name__, e)
                    return True
            out, _ = real_classify(stn, Spy(stn.gn), f)
            print(out)
            return out.endswith("+EFFECT")
        if kind == "loop":
            seq = [(t, bytes.fromhex(x)) for t, x in case["stream"]]
            fac, ldm = tuple(case["facilities"]), case["ldm"]
            alive0, per0, _ = run_raw_loop(clock, [eth(x) for t, x in seq if t == "v"], fac, ldm)
            alive1, per1, err1 = run_raw_loop(clock, [eth(x) for _, x in seq], fac, ldm)
            got = [d for (t, _), d in zip(seq, per1) if t == "v"]
            print("alive", alive1, err1, "same deliveries", got == per0)
            return (not alive1) or got != per0
        if kind == "cv2x":
            seq = [(t, bytes.fromhex(x)) for t, x in case["stream"]]
            alive1, d1, e1 = run_cv2x_loop(clock, [x for _, x in seq])
            print("alive", alive1, e1)
            return not alive1
        if kind == "mac":
            v = base_frames(clock, n=1, idxs=(5,))[0][1]
            dst, src = bytes.fromhex(case["dst"]), bytes.fromhex(case["src"])
            alive, per, err = run_raw_loop(clock, [eth(v, dst, src)], ("ca", "den", "vru"), False)
            got = 1 if per and per[0] else 0
            exp = 0 if (src == OWN_MAC and dst != OWN_MAC) or (dst not in (OWN_MAC, BCAST)) else 1
            return got != exp
    raise Infra(f"unknown replay kind {kind}")

"""C04 — No received frame can stop or derail the receive path.

Theorems: lean/Props/C04.lean.  Models: lean/FlexModel/Geo/RecvPath.lean (byte-level prologue, loops with handler
faults), RecvStation.lean (prologue + C03 gate + C06 router + facility chain), RecvLemmas.lean.
Tie:
 (i)   Generated/Except.lean re-read from the source on every run (gen_except.py): shape of the guarding `try`
       statements (inside the `while`? handler bodies allow-listed?), table of every exception class a `raise` on the
       receive path names + builtins + classes observed here, with their MRO;
 (ii)  byte-level correspondence of `classify` with the real `Router.process_basic_header` for four configurations
       (security off / on, without / WITH a real VerifyService) on grammar-based, mutated (unsecured and SECURED
       captures) and random frames; every exception observed must derive from Exception and be in the table;
 (iii) effect oracle per frame (transcribes the property, independent of the model): a frame that is DISCARDED
       (raises or is dropped, nothing delivered to the upper layer, nothing transmitted) must leave location table,
       duplicate lists, certificate library and P2PCD lists as they were; pair runs `[bad, original]` vs `[original]`
       for every mutant that keeps (source, sequence number);
 (iv)  the real `RawLinkLayer.receive` and `PythonCV2XLinkLayer.callback_handler_loop` on scripted sockets / queues:
       bad frames at random positions of valid traffic, unsecured (5 facility wirings) and with SECURITY ENABLED
       (real PKI, VerifyService, secured mutants): loop alive, per-frame deliveries of the valid frames, location-table
       entries of the valid sources and (secured) trust-store snapshots equal to the control run;
 (v)   fault injection: stdout / stderr that raise (BrokenPipeError, OSError, ValueError) while a bad frame is reported;
       the loops on their own with a callback that raises (Router.process_basic_header without the router's catch-all);
 (vi)  MAC filter incl. own MAC -> own MAC;
 (vii) histories (round 5): [discarded frame, well-formed frame that is delivered AND FORWARDED] against the well-formed
       frame alone, per configuration (unsecured; verify service + security disabled = mixed deployment; security enabled),
       comparing outcome, deliveries, the GN-PDUs put on the air (contention timers are virtual and expire at the end
       of the frame that armed them) and the location table; mixed secured/unsecured streams through the raw loop;
       Location-Service histories (requests buffered, replies with fresh / boundary / stale / future position vectors,
       duplicated, truncated, unasked); C-V2X: the real receive_process + callback loop on radio frames incl. lengths 0/1/2;
       every loop runs on a thread of its own under a WATCHDOG: a loop that blocks is a violation like a loop that died;
 (viii) Generated/RouterRx.lean (gen_router.py) and Generated/Locks.lean (gen_locks.py) are regenerated for C04 too:
       reset of the receive context in a `finally`, no lock re-taken while held; Generated/Except.lean: the C-V2X stop test
       is an identity test against None, the raw loop has no frame-dependent exit.
"""
from __future__ import annotations

import copy
import io
import logging
import os
import queue
import sys
import threading
import time as _time
import types

from common import Infra, corpus
import realstack as rs
import station as st_mod
import sec_common as sc
import gen_except

from flexstack.linklayer.raw_link_layer import RawLinkLayer as _RawLL

# the class is wrapped by a plain-function decorator (raise_exception_if_windows): unwrap it
RawLinkLayer = _RawLL if isinstance(_RawLL, type) else _RawLL.__closure__[0].cell_contents

if "flexstack.linklayer.cv2xlinklayer" not in sys.modules:
    # the native C-V2X binding (.so) is not shipped: only the Python callback loop is in scope
    _stub = types.ModuleType("flexstack.linklayer.cv2xlinklayer")
    _stub.CV2XLinkLayer = type("CV2XLinkLayer", (), {})
    sys.modules["flexstack.linklayer.cv2xlinklayer"] = _stub
from flexstack.linklayer import cv2x_link_layer as cv2x_mod  # noqa: E402
import flexstack.geonet.router as router_mod  # noqa: E402

MODULES = ["Props.C04"]
DRIVERS = ["Recv"]
TRUSTED = [
    "gen_except.py: ast pass reading the try statements around receive_callback / process_basic_header and the raise "
    "statements of the modules in the static import closure of the receive path (+ asn1tools, ecdsa, ... whole packages)",
    "modelled rather than verified: raise statements whose class is computed at run time (`raise self.error`, 54 sites, "
    "all in code generators / parsers of asn1tools and pyparsing) and exceptions raised by C extensions are covered by "
    "observation only (every class observed by the fuzzing runs must be in the generated table and derive from Exception); "
    "application callbacks registered by the user are assumed to raise only Exception subclasses",
    "the logging module does not raise when its stream fails (CPython: Handler.handleError swallows OSError; exercised "
    "here with stdout+stderr raising BrokenPipeError/OSError, and stdout raising ValueError)",
    "gen_router.py / gen_locks.py (other properties' ast passes, read-only here): RouterRx.ctxResetInFinally, Locks.edges "
    "(transitive over the call graph gen_locks resolves; calls it cannot resolve are not edges)",
    "the wire-level receive model of C06 (RouterSec.lean: receive context, _forward_pdu) is reused for "
    "later_frames_on_the_wire_unaffected_by_discarded_frame; its correspondence is C06's, its conclusion is checked here on "
    "the real stack by the history oracle (vii)",
    "the composite station model (RecvStation.lean) glues the C03 gate and the C06 router model, which have their own "
    "correspondence checks; its decoders are parameters; the conclusions of its theorems are checked on the real stack by "
    "the effect oracle (iii)/(iv), the glue itself is not run against the code",
]
ASSUMPTIONS = [
    "contention-based-forwarding timers are virtual: the copy a forwarder buffered is sent at the end of the frame that "
    "armed the timer (attribution of forwarded PDUs to frames); Location Service retransmission timers never fire",
    "watchdog: a receive thread that makes no progress for 8 s of wall time while parked at one source line is blocked "
    "(reported as a violation with the line); below that a slow frame is not judged",
    "a frame counts as 'handled' once its handler reaches duplicate_address_detection (all headers decoded)",
    "a frame counts as DISCARDED when processing it raised or returned without any GN-DATA.indication and without any "
    "transmission; a frame that produced an indication is a well-formed GN packet whatever its payload (C04-KF1)",
    "bad frames injected into the loop streams that are well-formed GN packets claiming the address of a source of the "
    "valid stream are excluded from the streams (they are the subject of the pair check and of C04-KF1)",
]

OWN_MAC = bytes([0x02, 0, 0, 0, 0, 0x63])
PEER_MAC = bytes([0x02, 0, 0, 0, 0, 0x01])
BCAST = b"\xff" * 6
ETHERTYPE = b"\x89\x47"
T0 = 1_700_000_000_000


# ------------------------------------------------------------------------------------------------ timers, watchdog


class VTimer:
    """stand-in for threading.Timer inside flexstack.geonet.router.  A started timer is kept; the harness fires the CBF
    timers of a station at the END of the frame that armed them (so the copy a forwarder puts on the air is attributed
    to that frame and the run is deterministic); Location Service retransmission timers never fire."""
    pending = []

    def __init__(self, interval, function, args=None, kwargs=None):
        self.interval, self.function = interval, function
        self.args, self.kwargs = list(args or []), dict(kwargs or {})
        self.daemon = True

    def start(self):
        VTimer.pending.append(self)

    def cancel(self):
        try:
            VTimer.pending.remove(self)
        except ValueError:
            pass

    def is_alive(self):
        return self in VTimer.pending


def fire_cbf(router):
    """expire the contention timers armed by `router` (what `_cbf_timeout` sends goes to its link layer)"""
    for t in list(VTimer.pending):
        fn = t.function
        if getattr(fn, "__self__", None) is router and getattr(fn, "__name__", "") == "_cbf_timeout" and t in VTimer.pending:
            VTimer.pending.remove(t)
            try:
                fn(*t.args, **t.kwargs)
            except Exception:  # noqa: BLE001 - a timer thread that dies is not the receive path
                pass


class vtimers:
    def __enter__(self):
        self.old = router_mod.Timer
        router_mod.Timer = VTimer
        VTimer.pending.clear()
        return self

    def __exit__(self, *a):
        router_mod.Timer = self.old
        VTimer.pending.clear()


WATCHDOG_S = 8.0       # no progress for this long AND the thread parked at one source line -> the receive path HANGS
HANGS = []             # one entry per hang observed in this process (hung daemon threads stay parked; keep them few)


def guarded(fn, progress, limit=None):
    """run `fn()` on a worker thread (a receive loop is a thread of its own in the real stack as well) under a watchdog:
    -> (finished, error, where).  `finished` False = the thread made no progress (`progress()` constant) for `limit`
    seconds while parked at one and the same source line: the loop is blocked (dead-lock), `where` names the line.
    A hang is JUDGED (violation), never an infrastructure error."""
    limit = WATCHDOG_S if limit is None else limit
    box = {}

    def work():
        try:
            fn()
        except BaseException as e:  # noqa: BLE001 - the loop died
            box["err"] = f"{type(e).__name__}: {e}"
    th = threading.Thread(target=work, daemon=True, name="c04-receive")
    th.start()

    def where():
        fr = sys._current_frames().get(th.ident)
        if fr is None:
            return None
        return f"{os.path.basename(fr.f_code.co_filename)}:{fr.f_lineno} in {fr.f_code.co_name}"
    last, t_last, spots = progress(), _time.monotonic(), []
    while True:
        th.join(0.02 if _time.monotonic() - t_last < 0.5 else 0.5)
        if not th.is_alive():
            return True, box.get("err"), None
        p = progress()
        if p != last:
            last, t_last, spots = p, _time.monotonic(), []
            continue
        spots.append(where())
        if _time.monotonic() - t_last > limit and len(spots) >= 6 and len(set(spots[-6:])) == 1:
            HANGS.append(spots[-1])
            return False, None, spots[-1]


# ------------------------------------------------------------------------------------------------ snapshots


def loct_snapshot(router):
    out = []
    for addr, e in router.location_table.loc_t.items():
        pv = e.position_vector
        out.append((addr.encode().hex(), pv.tst.msec, pv.latitude, pv.longitude, bool(e.is_neighbour),
                    bool(e.ls_pending), tuple(e.dpl_deque)))
    return sorted(out)


def sec_snapshot(r):
    """certificate library + P2PCD bookkeeping of a sec_common.RealStation"""
    lib, ss = r.lib, r.ss
    return (tuple(sorted(k.hex() for k in lib.known_root_certificates)),
            tuple(sorted(k.hex() for k in lib.known_authorization_authorities)),
            tuple(sorted(k.hex() for k in lib.known_authorization_tickets)),
            tuple(sorted(k.hex() for k in lib.own_certificates)),
            tuple(bytes(x).hex() for x in ss.unknown_ats), tuple(bytes(x).hex() for x in ss.requested_ats),
            bool(ss.cam_handler.requested_own_certificate))


# ------------------------------------------------------------------------------------------------ exception classes


class ExcLog:
    """every exception class seen at process_basic_header level"""

    def __init__(self, ctx):
        self.ctx = ctx
        self.seen = {}
        self.names, _ = gen_except.table_names()

    def see(self, exc, frame_hex, kind="classify", extra=None):
        cls = type(exc)
        q = f"{cls.__module__}.{cls.__qualname__}"
        if q in self.seen:
            return
        self.seen[q] = f"{cls.__module__}:{cls.__qualname__}"
        self.ctx.cover("exception_class_" + cls.__name__)
        if not isinstance(exc, Exception):
            self.ctx.violation(f"{q} raised on the receive path does not derive from Exception (the loops do not catch it)",
                               dict({"kind": kind, "frame": frame_hex}, **(extra or {})))
        elif q not in self.names:
            self.ctx.mismatch("recv.exception_table", {"frame": frame_hex}, q, "not in Generated.Except.raiseTable")


# ------------------------------------------------------------------------------------------------ frame generation


def base_frames(clock, n=1, idxs=(1, 3)):
    """valid frames (CAM/VAM over SHB, DENM over GBC) emitted by real stations (mutant sources: 1 and 3;
    the valid streams come from stations 5 and 7)"""
    out = []
    with rs.quiet():
        for idx in idxs:
            a = st_mod.Station(idx, clock, with_ldm=False)
            for _ in range(n):
                out += [("cam", f) for f in st_mod.emit_cam(a, clock)]
                out += [("vam", f) for f in st_mod.emit_vam(a, clock)]
                out += [("denm", f) for f in st_mod.emit_denm(a, clock)]
    return out


def skeleton(ht, hst, body_len, nh=1, cnh=2, rhl=1, mhl=1, version=1, fill=0):
    basic = bytes([(version << 4) | nh, 0, 0x05, rhl])
    common = bytes([cnh << 4, (ht << 4) | hst, 0, 0x80, 0, 0, mhl, 0])
    return basic + common + bytes([fill]) * body_len


def zero_area_frames(g):
    """zero-sized areas on a captured GBC frame `g` (everything else, incl. source and sequence number, unchanged)"""
    fr = []
    for a, b in ((0, 0), (0, 5), (5, 0), (1, 1)):
        for hst in (0, 1, 2):
            for ht in (3, 4):
                q = bytearray(g)
                q[5] = (ht << 4) | hst
                q[12 + 36:12 + 38] = a.to_bytes(2, "big")
                q[12 + 38:12 + 40] = b.to_bytes(2, "big")
                fr.append(bytes(q))
    return fr


def grammar_frames(ctx, base):
    fr = []
    for ht, hsts in ((0, [0]), (1, [0, 1]), (2, [0, 3]), (3, [0, 1, 2, 3]), (4, [0, 1, 2, 7]), (5, [0, 1, 2]),
                     (6, [0, 1, 2]), (7, [0]), (15, [0])):
        for hst in hsts:
            for ln in (0, 1, 7, 23, 24, 25, 27, 28, 29, 35, 36, 37, 43, 44, 45, 47, 48, 49, 60):
                fr.append(skeleton(ht, hst, ln))
                fr.append(skeleton(ht, hst, ln, fill=0xFF))
                fr.append(skeleton(ht, hst, ln, fill=0x14))
    for b0 in range(256):
        fr.append(bytes([b0]) + base[0][1][1:])
    src = base[0][1]
    for v in range(256):
        for pos in (4, 5):
            q = bytearray(src)
            q[pos] = v
            fr.append(bytes(q))
    for rhl in (0, 1, 2, 10, 255):
        for mhl in (0, 1, 9, 10, 255):
            q = bytearray(src)
            q[3], q[10] = rhl, mhl
            fr.append(bytes(q))
    for kind, f in base[:3]:
        off = 12 if kind in ("cam", "vam") else 16
        for v in range(0, 256, 3):
            q = bytearray(f)
            q[off] = v
            fr.append(bytes(q))
    g = next(f for k, f in base if k == "denm")
    fr += zero_area_frames(g)
    fr += [b"", b"\x11", b"\x11\x00", b"\x11\x00\x05", b"\x11\x00\x05\x01"]
    return fr


def mutant_frames(ctx, base, n_rand=None):
    fr = []
    n_rand = ctx.scale(30, 300) if n_rand is None else n_rand
    for kind, f in base[:3] if not ctx.thorough else base:
        for i in range(len(f) + 1):
            fr.append(f[:i])
        idxs = range(len(f)) if ctx.thorough else sorted(ctx.rng.sample(range(len(f)), min(len(f), 40)) + list(range(16)))
        for i in idxs:
            for bit in (range(8) if (ctx.thorough or i < 16) else (ctx.rng.randrange(8),)):
                q = bytearray(f)
                q[i] ^= 1 << bit
                fr.append(bytes(q))
        for _ in range(n_rand):
            q = bytearray(f)
            for _ in range(ctx.rng.randrange(1, 4)):
                q[ctx.rng.randrange(len(q))] = ctx.rng.randrange(256)
            fr.append(bytes(q))
        for _ in range(ctx.scale(10, 60)):
            fr.append(f + bytes(ctx.rng.randrange(256) for _ in range(ctx.rng.randrange(1, 40))))
    return fr


def random_frames(ctx):
    fr = []
    for _ in range(ctx.scale(600, 20000)):
        ln = ctx.rng.choice([0, 1, 3, 4, 5, 11, 12, 13, 36, 40, 56, 60, 100, 300, 1486]) if ctx.rng.random() < 0.5 \
            else ctx.rng.randrange(0, 200)
        b = bytearray(ctx.rng.randrange(256) for _ in range(ln))
        if ln >= 12 and ctx.rng.random() < 0.7:   # mostly-valid prefix so deeper stages are reached
            b[0] = 0x11 if ctx.rng.random() < 0.8 else ctx.rng.choice([0x12, ctx.rng.randrange(256)])
            b[4] = ctx.rng.choice([0x10, 0x20, 0x00, 0x30, 0x40])
            b[5] = (ctx.rng.randrange(8) << 4) | ctx.rng.randrange(4)
            b[3] = ctx.rng.choice([0, 1, 2, 10])
            b[10] = ctx.rng.choice([1, 10, 255])
        fr.append(bytes(b))
    return fr


def dedup(frames):
    seen, out = set(), []
    for f in frames:
        if f not in seen:
            seen.add(f)
            out.append(f)
    return out


def all_bad_frames(ctx, clock):
    base = base_frames(clock, n=1)
    return dedup(grammar_frames(ctx, base) + mutant_frames(ctx, base) + random_frames(ctx))


# ------------------------------------------------------------------------------------------------ secured world


class SecWorld:
    """real PKI (root -> AA -> two tickets), two secured sender stations, secured captures of CAM / VAM / DENM frames"""

    def __init__(self, clock):
        p = self.pki = sc.PKI()
        now = sc.its_now_s(T0)
        live = dict(start=now - 1000, duration=("hours", 100))
        self.root = p.root("root", **live)
        self.aa = p.issue(self.root, "aa", issue=[sc.perm_all(1)], **live)
        self.at1 = p.issue(self.aa, app=[36, 37, 638, 99], **live)
        self.at2 = p.issue(self.aa, app=[36, 37, 638, 99], **live)
        self.eroot = p.root("evil-root", **live)
        self.eaa = p.issue(self.eroot, "evil-aa", issue=[sc.perm_all(1)], **live)
        self.eat = p.issue(self.eaa, app=[36, 37, 638, 99], **live)
        # BTP + facility payloads taken from real unsecured captures of stations 5 / 7
        plain = base_frames(clock, n=1, idxs=(5, 7))
        self.payloads = {}
        for kind, f in plain:
            self.payloads.setdefault(kind, []).append(f[40:] if kind in ("cam", "vam") else f[56:])
        self.clock = clock

    def senders(self):
        s1 = sc.RouterStation(self.pki.backend, 5, [self.root], [self.aa], [], own=[self.at1])
        s2 = sc.RouterStation(self.pki.backend, 7, [self.root], [self.aa], [], own=[self.at2], lat=415000300, lon=21000300)
        return s1, s2

    def valid_stream(self):
        """secured CAM (with certificate), VAM, DENM from both senders; fresh senders each time = same SNs / signer rule"""
        out = []
        with rs.quiet():
            for i, s in enumerate(self.senders()):
                for kind in ("cam", "vam", "denm"):
                    fr = s.send(kind, self.payloads[kind][i % len(self.payloads[kind])], self.clock.ms)
                    out += [(kind, f) for f in fr]
        return out

    def receiver(self, facilities=("ca", "den", "vru"), enabled=True):
        return FullSecStation(self, 0x63, facilities, enabled)

    def trust(self):
        """public material from which a replay rebuilds the receiver (frames in a replay file were signed under this PKI)"""
        return {"root": self.root.encode().hex(), "aa": self.aa.encode().hex()}


class TrustWorld:
    """receive-only world rebuilt from recorded root / AA certificates (replay of secured cases)"""

    def __init__(self, trust):
        from flexstack.security.certificate import Certificate
        from flexstack.security.ecdsa_backend import PythonECDSABackend

        def cert(hexs, issuer=None):
            return Certificate.from_dict(sc.CODER.decode_etsi_ts_103097_certificate(bytes.fromhex(hexs)), issuer)
        self.pki = types.SimpleNamespace(backend=PythonECDSABackend())
        self.root = cert(trust["root"])
        self.aa = cert(trust["aa"], self.root)

    def receiver(self, facilities=("ca", "den", "vru"), enabled=True):
        return FullSecStation(self, 0x63, facilities, enabled)


def replay_world(case, clock):
    return TrustWorld(case["trust"]) if case.get("trust") else SecWorld(clock)


class FullSecStation:
    """security-enabled station: real Router + VerifyService + SignService + BTP router + facilities"""

    def __init__(self, w, idx, facilities=("ca", "den", "vru"), enabled=True):
        from flexstack.btp.router import Router as BTPRouter
        with rs.quiet():
            self.rs = sc.RouterStation(w.pki.backend, idx, [w.root], [w.aa], [], enabled=enabled,
                                       lat=415000100, lon=21000100)
            self.rs.set_position(T0)
            self.gn = self.rs.router
            self.ll = self.rs.ll
            self.btp = BTPRouter(self.gn)
            self.inds = []

            def on_ind(ind):
                self.inds.append(ind)
                return self.btp.btp_data_indication(ind)
            self.gn.register_indication_callback(on_ind)
            self.port_hits = []
            sid = 1000 + idx
            if "ca" in facilities:
                from flexstack.facilities.ca_basic_service.ca_basic_service import CooperativeAwarenessBasicService
                from flexstack.facilities.ca_basic_service.cam_transmission_management import VehicleData
                vd = VehicleData(station_id=sid, station_type=5, drive_direction="forward",
                                 vehicle_length={"vehicleLengthValue": 1023, "vehicleLengthConfidenceIndication": "unavailable"},
                                 vehicle_width=62)
                self.vehicle_data = vd
                self.ca = CooperativeAwarenessBasicService(btp_router=self.btp, vehicle_data=vd, ldm=None)
            if "vru" in facilities:
                from flexstack.facilities.vru_awareness_service.vru_awareness_service import VRUAwarenessService
                from flexstack.facilities.vru_awareness_service.vam_transmission_management import DeviceDataProvider
                self.vru = VRUAwarenessService(btp_router=self.btp,
                                               device_data_provider=DeviceDataProvider(station_id=sid, station_type=1), ldm=None)
            if "den" in facilities:
                from flexstack.facilities.decentralized_environmental_notification_service.den_service import (
                    DecentralizedEnvironmentalNotificationService)
                from flexstack.facilities.ca_basic_service.cam_transmission_management import VehicleData
                vd = getattr(self, "vehicle_data", None) or VehicleData(station_id=sid, station_type=5)
                self.den = DecentralizedEnvironmentalNotificationService(btp_router=self.btp, vehicle_data=vd, ldm=None)
            for port, cb in list(self.btp.pre_indication_callbacks.items()):
                self.btp.pre_indication_callbacks[port] = self._wrap(port, cb)
            self.btp.freeze_callbacks()

    def _wrap(self, port, cb):
        def w(ind):
            self.port_hits.append((port, ind))
            return cb(ind)
        return w

    def loct_snapshot(self):
        return loct_snapshot(self.gn)

    def state(self):
        return (loct_snapshot(self.gn), sec_snapshot(self.rs))


def reencode(sd, version=3, content="signedData"):
    return sc.CODER.encode_etsi_ts_103097_data_signed({"protocolVersion": version, "content": (content, sd)})


def secured_mutants(ctx, w, valid):
    """bad secured frames: byte-level mutations of the captures (the envelope stops parsing, names other algorithms,
    signature / payload / signer no longer match) and field-level forgeries.  Returns [(tag, frame)]."""
    rng = ctx.rng
    out = []
    for kind, f in valid[:3] if not ctx.thorough else valid:
        hdr, body = f[:4], f[4:]
        for i in sorted(set(list(range(0, 12)) + rng.sample(range(len(f)), min(len(f), ctx.scale(40, 400))))):
            q = bytearray(f)
            q[i] ^= 1 << rng.randrange(8)
            out.append(("bitflip", bytes(q)))
        for i in sorted(rng.sample(range(len(f)), ctx.scale(12, 80))) + [4, 5, 6, len(f) - 1]:
            out.append(("truncate", f[:i]))
        for _ in range(ctx.scale(10, 100)):
            q = bytearray(f)
            for _ in range(rng.randrange(1, 4)):
                q[rng.randrange(4, len(q))] = rng.randrange(256)
            out.append(("bytesub", bytes(q)))
        out.append(("extend", f + bytes(rng.randrange(256) for _ in range(7))))
        out.append(("garbage-envelope", hdr + bytes(rng.randrange(256) for _ in range(60))))
        out.append(("empty-envelope", hdr))
        dec = sc.decode_signed(body)
        if dec is None:
            continue
        base_sd = dec[0]

        def field(tag, fn, **kw):
            sd = copy.deepcopy(base_sd)
            try:
                fn(sd)
                out.append(("field:" + tag, hdr + reencode(sd, **kw)))
            except Exception:  # noqa: BLE001 - mutation not encodable
                pass

        def flip_payload(sd):
            pl = bytearray(sd["tbsData"]["payload"]["data"]["content"][1])
            pl[rng.randrange(len(pl))] ^= 1 << rng.randrange(8)
            sd["tbsData"]["payload"]["data"]["content"] = ("unsecuredData", bytes(pl))

        def garbage_payload_signed(sd):
            # an AUTHENTIC message (signed by the genuine ticket) whose facility payload does not decode
            pl = bytes(sd["tbsData"]["payload"]["data"]["content"][1])
            cut = rng.choice([len(pl) - 3, len(pl) - 8, 60, 62])
            sd["tbsData"]["payload"]["data"]["content"] = ("unsecuredData", pl[:max(cut, 57)])
            key = w.at1.key_id if (sd["signer"][0] == "certificate" and sc.hid8(sd["signer"][1][0]) == sc.hid8(w.at1.certificate)) \
                or (sd["signer"][0] == "digest" and bytes(sd["signer"][1]) == w.at1.as_hashedid8()) else w.at2.key_id
            sd["signature"] = w.pki.backend.sign(sc.CODER.encode_to_be_signed_data(sd["tbsData"]), key)

        def unknown_digest(sd):
            sd["signer"] = ("digest", bytes(rng.randrange(256) for _ in range(8)))

        def flip_sig(sd):
            sig = sd["signature"][1]
            b = bytearray(sig["sSig"])
            b[rng.randrange(32)] ^= 1 << rng.randrange(8)
            sig["sSig"] = bytes(b)

        def other_hash(sd):
            sd["hashId"] = "sha384"

        def sig_format(sd):
            sig = sd["signature"][1]
            sig["rSig"] = ("compressed-y-0", sig["rSig"][1])

        def evil_chain(sd):
            sd["signature"] = w.pki.backend.sign(sc.CODER.encode_to_be_signed_data(sd["tbsData"]), w.eat.key_id)
            sd["signer"] = ("certificate", [w.eat.certificate])

        def signer_self(sd):
            sd["signer"] = ("self", None)

        def two_certs(sd):
            if sd["signer"][0] == "certificate":
                sd["signer"] = ("certificate", [sd["signer"][1][0], w.aa.certificate])
            else:
                sd["signer"] = ("certificate", [w.at1.certificate, w.aa.certificate])

        def psid(sd):
            sd["tbsData"]["headerInfo"]["psid"] = 1000

        def no_gentime(sd):
            sd["tbsData"]["headerInfo"].pop("generationTime", None)

        field("payload-flip", flip_payload)
        field("payload-undecodable-authentic", garbage_payload_signed)
        field("unknown-digest", unknown_digest)
        field("signature-flip", flip_sig)
        field("hash-sha384", other_hash)
        field("sig-format", sig_format)
        field("evil-chain", evil_chain)
        field("signer-self", signer_self)
        field("two-certs", two_certs)
        field("psid", psid)
        field("no-gentime", no_gentime)
        field("protocol-version-2", lambda sd: None, version=2)
    out += hop_limit_mutants(valid[:3] if not ctx.thorough else valid)
    return out


def envelope_parses(frame):
    """independent judgement (asn1 coder, not the verify service): does the secured envelope of `frame` decode?"""
    try:
        return sc.decode_signed(frame[4:]) is not None
    except Exception:  # noqa: BLE001
        return False


# ------------------------------------------------------------------------------------------------ (ii)+(iii) per frame


class Spy:
    """records which handler's stateful part was reached / whether the verify service was called, on a real Router"""

    def __init__(self, router):
        self.r = router
        self.reached = None
        self.current = None
        self.verified = False
        orig_dad = router.duplicate_address_detection

        def dad(addr):
            if self.reached is None:
                self.reached = self.current or "?"
            return orig_dad(addr)
        router.duplicate_address_detection = dad
        for name, tag in (("gn_data_indicate_beacon", "beacon"), ("gn_data_indicate_shb", "shb"),
                          ("gn_data_indicate_tsb", "tsb"), ("gn_data_indicate_gbc", "gbc"),
                          ("gn_data_indicate_gac", "gac"), ("gn_data_indicate_guc", "guc"),
                          ("gn_data_indicate_ls_request", "ls_request"), ("gn_data_indicate_ls_reply", "ls_reply")):
            self._wrap(name, tag)
        vs = getattr(router, "verify_service", None)
        if vs is not None:
            orig_verify = vs.verify

            def verify(req):
                self.verified = True
                return orig_verify(req)
            vs.verify = verify

    def _wrap(self, name, tag):
        orig = getattr(self.r, name)

        def w(*a, **k):
            self.current = tag
            return orig(*a, **k)
        setattr(self.r, name, w)

    def reset(self):
        self.reached = None
        self.current = None
        self.verified = False


class Probe:
    """one real station observed per frame: outcome class, exception, discarded?, state before/after"""

    def __init__(self, clock, sec=0, ver=0, world=None, with_ldm=False):
        from flexstack.geonet.mib import GnSecurity
        self.sec, self.ver = sec, ver
        if ver:
            self.stn = world.receiver(enabled=bool(sec))
            self.state = self.stn.state
        else:
            kw = {"itsGnSecurity": GnSecurity.ENABLED} if sec else {}
            with rs.quiet():
                self.stn = st_mod.Station(0x63, clock, with_ldm=with_ldm, **kw)
            self.inds = []
            orig = self.stn.gn.indication_callback

            def on_ind(ind):
                self.inds.append(ind)
                return orig(ind)
            self.stn.gn.indication_callback = on_ind
            self.state = lambda: (loct_snapshot(self.stn.gn), ())
        self.spy = Spy(self.stn.gn)
        self.last_sent = []

    def n_inds(self):
        return len(self.stn.inds) if self.ver else len(self.inds)

    def feed(self, frame):
        """-> (outcome string as the model prints it, exception, discarded, state changed, delivered [(port, hex)])"""
        self.spy.reset()
        before = self.state()
        hits, inds = len(self.stn.port_hits), self.n_inds()
        self.stn.ll.take()
        exc = None
        try:
            with rs.quiet():
                self.stn.gn.process_basic_header(frame)
        except Exception as e:  # noqa: BLE001
            exc = e
        with rs.quiet():
            fire_cbf(self.stn.gn)          # the copy a contention-based forwarder buffered for this frame
        sent = self.stn.ll.take()
        self.last_sent = [bytes(x).hex() for x in sent]      # GN-PDUs put on the air because of this frame
        delivered = [(p, bytes(i.data).hex()) for p, i in self.stn.port_hits[hits:]]
        indicated = self.n_inds() > inds
        changed = self.state() != before
        # DISCARDED: the frame raised, or was dropped before any handler ran - and nothing was delivered or sent.
        # (A frame that a handler processed without raising is a well-formed packet even if nothing is delivered:
        # beacons, packets forwarded nowhere, areas the station is outside of.)
        discarded = (not indicated and not sent) and (exc is not None or (self.spy.reached is None and not self.spy.verified)
                                                      or self.spy.verified)
        if self.spy.reached is not None and not self.spy.verified:
            out = "handled:" + self.spy.reached
        elif self.spy.verified:
            out = "secured"
        elif exc is not None:
            out = "raised:" + type(exc).__name__
        else:
            out = "dropped"
        return out, exc, discarded, changed, delivered


MODEL_BATCH = []      # (stream name, input descriptor, real output, model line): compared in ONE driver call


def flush_model(ctx):
    batch, MODEL_BATCH[:] = list(MODEL_BATCH), []
    if not ctx.model_ok or not batch:
        return
    outs = ctx.model("Recv", [b[3] for b in batch])
    for (stream, inp, real, _), mo in zip(batch, outs):
        if real != mo:
            ctx.mismatch(stream, inp, real, mo)


def check_classify(ctx, clock, frames, world, sec_frames, elog):
    configs = [(0, 0, frames), (1, 0, frames[::5]), (1, 1, frames[::7] + sec_frames), (0, 1, frames[::11] + sec_frames[::3])]
    for sec, ver, sub in configs:
        pr = Probe(clock, sec, ver, world)
        reals = []
        for f in sub:
            out, exc, discarded, changed, _ = pr.feed(f)
            ctx.evals()
            if exc is not None:
                elog.see(exc, f.hex())
            ctx.cover("real_" + out.split(":")[0] + (":" + out.split(":")[1] if out.startswith("raised") else ""))
            ctx.nontrivial(("cls", sec, ver, out, len(f) if len(f) < 64 else 64, f[4:6].hex()))
            case = {"kind": "effect", "sec": sec, "ver": ver, "frame": f.hex()}
            if ver:
                case["trust"] = world.trust()
            if out == "secured":
                # (c): a secured frame never changes router state unless it is passed on; unparsable envelope: nothing
                if discarded and changed:
                    st_now = pr.state()
                    if not envelope_parses(f):
                        ctx.violation("secured frame whose envelope does not parse changed station state", case)
                    ctx.cover("secured_failed_with_sec_state_change")
                reals.append((f, out))
            else:
                if discarded and changed:
                    ctx.violation(f"discarded frame ({out}; nothing delivered, nothing sent) changed station state",
                                  case)
                reals.append((f, out))
            MODEL_BATCH.append(("recv.classify", {"sec": sec, "ver": ver, "frame": f.hex()}, out,
                                f"cls 1 {sec} {ver} {f.hex() or '-'}"))
        mid = reals[len(reals) // 2]
        ctx.sample("classify", {"sec": sec, "ver": ver, "frame": mid[0].hex()[:120], "outcome": mid[1]})


def router_state_of(stn):
    return loct_snapshot(stn.gn)


def check_secured_effect(ctx, clock, world, sec_mut, elog):
    """(c) on the real stack: a secured frame that is not passed on leaves the location table alone, delivers and sends
    nothing; the library only grows (roots, own certificates fixed)"""
    pr = Probe(clock, 1, 1, world)
    for tag, f in sec_mut:
        before_loct = loct_snapshot(pr.stn.gn)
        before_sec = sec_snapshot(pr.stn.rs)
        out, exc, discarded, changed, delivered = pr.feed(f)
        ctx.evals()
        ctx.cover("secmut_" + tag.split(":")[0])
        if exc is not None:
            elog.see(exc, f.hex())
        case = {"kind": "effect", "sec": 1, "ver": 1, "frame": f.hex(), "trust": world.trust()}
        after_sec = sec_snapshot(pr.stn.rs)
        if discarded and loct_snapshot(pr.stn.gn) != before_loct:
            ctx.violation(f"secured frame ({tag}) that was not passed on changed the location table", case)
        if after_sec[0] != before_sec[0] or after_sec[3] != before_sec[3]:
            ctx.violation(f"received frame ({tag}) changed root / own certificates", case)
        if not (set(before_sec[1]) <= set(after_sec[1]) and set(before_sec[2]) <= set(after_sec[2])):
            ctx.violation(f"received frame ({tag}) removed certificates from the library", case)
        if not envelope_parses(f) and out == "secured" and changed:
            ctx.violation(f"secured frame ({tag}) whose envelope does not parse changed station state", case)
        ctx.nontrivial(("secfx", tag, out, type(exc).__name__ if exc else None, changed))


def check_pairs(ctx, clock, base, elog, extra=()):
    """(iii) [bad, original] vs [original]: every mutant that keeps the GN headers' (source, SN) followed by the frame
    it was derived from.  If the mutant was DISCARDED the original must be processed as alone (C04-m1 class); if the
    mutant was indicated (well-formed GN packet) and the chain above raised, the differing outcome is C04-KF1."""
    n = 0
    for kind, v in base:
        hdr_len = 40 if kind in ("cam", "vam") else 56
        muts = []
        if kind == "denm":
            muts += [("zero-area", z) for z in zero_area_frames(v)]
        for _ in range(ctx.scale(6, 60)):                  # payload-only mutations (GN headers intact)
            q = bytearray(v)
            i = ctx.rng.randrange(hdr_len, len(q))
            q[i] ^= 1 << ctx.rng.randrange(8)
            muts.append(("payload-flip", bytes(q)))
        muts.append(("payload-truncated", v[:hdr_len + 6]))
        muts.append(("payload-garbage", v[:hdr_len + 4] + bytes(ctx.rng.randrange(256) for _ in range(20))))
        for off in (3, 10):                                 # RHL / MHL
            q = bytearray(v)
            q[off] = 0 if off == 10 else 255
            muts.append(("hop-limit", bytes(q)))
        muts += [("extra", e) for e in extra]
        seen_m = set()
        for tag, b in muts:
            if b == v or b in seen_m:
                continue
            seen_m.add(b)
            alone = Probe(clock, with_ldm=False)
            r_alone = alone.feed(v)
            s_alone = alone.state()
            sent_alone = list(alone.last_sent)
            both = Probe(clock, with_ldm=False)
            r_bad = both.feed(b)
            r_v = both.feed(v)
            n += 1
            ctx.evals(2)
            if r_bad[1] is not None:
                elog.see(r_bad[1], b.hex())
            out_b, exc_b, disc_b, changed_b, deliv_b = r_bad
            same = (r_v[0], type(r_v[1]).__name__, r_v[4]) == (r_alone[0], type(r_alone[1]).__name__, r_alone[4]) \
                and both.state() == s_alone and both.last_sent == sent_alone
            case = {"kind": "pair", "bad": b.hex(), "good": v.hex()}
            ctx.cover("pair_" + tag)
            if disc_b:
                if changed_b:
                    ctx.violation(f"discarded frame ({tag}: {out_b}) changed the location table", case)
                elif not same:
                    ctx.violation(f"well-formed frame after a discarded frame ({tag}: {out_b}) was not processed as if the "
                                  f"bad frame had never been received: {r_v[0]} deliveries {len(r_v[4])} vs alone "
                                  f"{r_alone[0]} deliveries {len(r_alone[4])}", case)
            elif exc_b is not None and not same and r_v[4] != r_alone[4]:
                # indicated (well-formed GN packet), the BTP / facility chain raised: C04-KF1 region
                ctx.violation(f"frame with undecodable payload ({tag}: {type(exc_b).__name__}) consumed (source, SN): the "
                              f"well-formed frame with the same (source, SN) that follows is dropped as duplicate", case,
                              "C04-KF1")
                ctx.cover("kf1_region")
            ctx.nontrivial(("pair", kind, tag, out_b, disc_b, same))
    ctx.cover("pairs", n)


# ------------------------------------------------------------------------------------------------ (iv) loops


class FakeSock:
    def __init__(self, frames, on_recv):
        self.frames = list(frames)
        self.i = 0
        self.on_recv = on_recv

    def recv(self, n):
        self.on_recv(self.i)
        if self.i >= len(self.frames):
            raise OSError("end of script")
        f = self.frames[self.i]
        self.i += 1
        return f[:n]

    def close(self):
        pass


def eth(payload, dst=BCAST, src=PEER_MAC):
    return dst + src + ETHERTYPE + payload


def make_station(clock, facilities, with_ldm, world=None):
    if world is not None:
        return world.receiver(facilities)
    with rs.quiet():
        return st_mod.Station(0x63, clock, facilities=facilities, with_ldm=with_ldm)


class LoopRun(tuple):
    """(alive, per-frame deliveries, error, station) + .sent (per-frame GN-PDUs put on the air, hex) + .hung"""

    def __new__(cls, alive, per, err, stn, sent=None, hung=False):
        self = super().__new__(cls, (alive, per, err, stn))
        self.sent, self.hung = sent or [], hung
        return self


def _slices(marks, n, hits, sent):
    """per received frame: what reached the facility ports / the link layer between its recv and the next recv"""
    per, per_sent = [], []
    for i in range(n):
        lo = marks[i] if i < len(marks) else (len(hits), len(sent))
        hi = marks[i + 1] if i + 1 < len(marks) else (len(hits), len(sent))
        per.append([(p, bytes(ind.data).hex()) for p, ind in hits[lo[0]:hi[0]]])
        per_sent.append([bytes(x).hex() for x in sent[lo[1]:hi[1]]])
    return per, per_sent


def run_raw_loop(clock, frames, facilities, with_ldm, world=None, stdout=None, unguarded=False, stn=None):
    """returns LoopRun(alive, per-frame deliveries, error, station) for ethernet frames through the real
    RawLinkLayer.receive, run on a thread of its own under the watchdog (a loop that HANGS is reported like a loop that
    died).  `unguarded`: the callback is Router.process_basic_header, which RAISES for bad frames (the loop's own guard
    is exercised: a link layer must survive whatever its receive_callback raises).  `stn`: a prepared station (history)"""
    stn = stn if stn is not None else make_station(clock, facilities, with_ldm, world)
    stn.ll.take()
    marks = []
    ll = RawLinkLayer.__new__(RawLinkLayer)
    ll.receive_callback = stn.gn.process_basic_header if unguarded else stn.gn.gn_data_indicate
    ll.mac_address = OWN_MAC

    def on_recv(i):
        fire_cbf(stn.gn)
        marks.append((len(stn.port_hits), len(stn.ll.sent)))
    ll.sock = FakeSock(frames, on_recv)
    with (rs.quiet() if stdout is None else stdout):
        finished, err, where = guarded(ll.receive, lambda: len(marks))
    if not finished:
        err = f"HANGS: the receive thread is blocked at {where} while handling frame {len(marks) - 1} of {len(frames)}"
    per, per_sent = _slices(marks, len(frames), stn.port_hits, stn.ll.sent)
    alive = finished and err is None and ll.sock.i == len(frames)
    return LoopRun(alive, per, err, stn, per_sent, not finished)


class _Flag:
    """multiprocessing.Event stand-in (receive_process runs in-process here)"""

    def __init__(self):
        self.v = False

    def is_set(self):
        return self.v

    def set(self):
        self.v = True


class _Modem:
    """scripted C-V2X modem: receive() hands out the radio frames, then raises the stop flag"""

    def __init__(self, radio, flag):
        self.radio, self.i, self.flag = list(radio), 0, flag

    def receive(self):
        if self.i >= len(self.radio):
            self.flag.set()
            return b""
        f = self.radio[self.i]
        self.i += 1
        return f


def cv2x_expected(radio):
    """GN packets the callback thread must be handed, by the module's documented framing: one family-id octet in front
    of the GN packet; the modem returns an empty buffer when it has nothing"""
    return [r[1:] for r in radio if len(r) > 0]


def run_cv2x_loop(clock, payloads=None, stdout=None, unguarded=False, radio=None):
    """the real PythonCV2XLinkLayer.receive_process (scripted modem) feeding the real callback_handler_loop through a
    queue, then the stop signal as PythonCV2XLinkLayer.stop() gives it.  `radio`: frames as the modem delivers them
    (family id + GN packet); `payloads`: GN packets (a family id is put in front).  Per-frame results are indexed by
    cv2x_expected(radio)"""
    if radio is None:
        radio = [b"\x03" + bytes(p) for p in payloads]
    expected = cv2x_expected(radio)
    with rs.quiet():
        stn = st_mod.Station(0x63, clock, with_ldm=False)
    stn.ll.take()
    ll = cv2x_mod.PythonCV2XLinkLayer.__new__(cv2x_mod.PythonCV2XLinkLayer)
    flag = _Flag()
    ll.link_layer = _Modem(radio, flag)
    marks = []

    def cb(data):
        fire_cbf(stn.gn)
        marks.append((len(stn.port_hits), len(stn.ll.sent)))
        return (stn.gn.process_basic_header if unguarded else stn.gn.gn_data_indicate)(data)
    ll.receive_callback = cb
    q = queue.Queue()
    err = None
    try:
        ll.receive_process(q, flag)
    except Exception as e:  # noqa: BLE001
        err = f"receive_process: {type(e).__name__}: {e}"
    queued = q.qsize()
    q.put(None)
    with (rs.quiet() if stdout is None else stdout):
        finished, err2, where = guarded(lambda: ll.callback_handler_loop(q), lambda: len(marks))
        if finished:
            fire_cbf(stn.gn)             # contention timer armed by the last frame
    ll.link_layer = None
    err = err or err2
    if not finished:
        err = f"HANGS: the callback thread is blocked at {where} while handling frame {len(marks) - 1}"
    per, per_sent = _slices(marks, len(expected), stn.port_hits, stn.ll.sent)
    alive = finished and err is None and q.empty() and len(marks) == len(expected) and queued == len(expected)
    if finished and err is None and not alive:
        err = (f"{len(expected)} GN packets received, {queued} queued, {len(marks)} handed to the router, "
               f"{q.qsize()} left in the queue when the callback thread ended")
    return LoopRun(alive, per, err, stn, per_sent, not finished)


def gn_source(frame):
    """GN address (8 octets) claimed as source by an unsecured frame, by header layout (independent of the router)"""
    if len(frame) < 12 or frame[0] & 0x0F != 1:
        return None
    ht, hst = frame[5] >> 4, frame[5] & 0x0F
    off = 12 if (ht == 1 or (ht == 5 and hst == 0)) else 16
    return bytes(frame[off:off + 8]) if len(frame) >= off + 8 else None


def classify_pool(ctx, clock, pool, valid_sources):
    """split the bad pool by what each frame does ALONE on a fresh station: ('none' no state change, 'other' creates /
    updates entries of addresses outside the valid sources, 'valid-source' touches a valid source's entry -> excluded)"""
    out = []
    pr = Probe(clock)
    for f in pool:
        before = pr.state()
        pr.feed(f)
        after = pr.state()
        if after == before:
            out.append((f, "none", ()))
            continue
        touched = {e[0] for e in set(after[0]) ^ set(before[0])}
        if any(t[-12:] in {v[-12:] for v in valid_sources} for t in touched):     # same MID (GNAddress equality)
            out.append((f, "valid-source", tuple(sorted(touched))))
        else:
            out.append((f, "other", tuple(sorted(touched))))
        pr = Probe(clock)          # fresh station after a state change
    return out


def restrict(loct, addrs_mid):
    return [e for e in loct if e[0][-12:] in addrs_mid]


def check_loops(ctx, clock, bad_pool, elog):
    wirings = [(("ca", "den", "vru"), False), (("ca", "den", "vru"), True), (("ca",), False), (("den",), True), (("vru",), True)]
    n_streams = ctx.scale(20, 400)
    valid0 = base_frames(clock, n=1, idxs=(5, 7))
    valid_src = {gn_source(f).hex() for _, f in valid0}
    valid_mid = {s[-12:] for s in valid_src}
    pool = classify_pool(ctx, clock, ctx.rng.sample(bad_pool, min(len(bad_pool), ctx.scale(400, 4000))), valid_src)
    ctx.cover("pool_no_effect", sum(1 for _, k, _ in pool if k == "none"))
    ctx.cover("pool_other_source", sum(1 for _, k, _ in pool if k == "other"))
    ctx.cover("pool_valid_source_excluded", sum(1 for _, k, _ in pool if k == "valid-source"))
    usable = [(f, k, t) for f, k, t in pool if k != "valid-source"]
    for s in range(n_streams):
        facilities, with_ldm = wirings[s % len(wirings)]
        valid = [f for _, f in valid0]
        ctx.rng.shuffle(valid)
        k = ctx.rng.randrange(1, ctx.scale(12, 40))
        bads = [ctx.rng.choice(usable) for _ in range(k)]
        run0 = run_raw_loop(clock, [eth(v) for v in valid], facilities, with_ldm)
        alive0, per0, err0, stn0 = run0
        seq = [("v", v) for v in valid]
        for b, _, _ in bads:
            seq.insert(ctx.rng.randrange(len(seq) + 1), ("b", b))
        run1 = run_raw_loop(clock, [eth(x) for _, x in seq], facilities, with_ldm)
        alive1, per1, err1, stn1 = run1
        ctx.evals(len(seq))
        ctx.cover("loop_streams")
        ctx.cover("loop_bad_frames", k)
        case = {"kind": "loop", "facilities": list(facilities), "ldm": with_ldm,
                "stream": [[t, x.hex()] for t, x in seq]}
        if not alive0:
            ctx.violation(f"receive loop died on valid traffic: {err0}", dict(case, stream=[["v", v.hex()] for v in valid]))
        if not alive1:
            ctx.violation(f"receive loop terminated by a received frame: {err1}", case)
            if run1.hung:
                return
            continue
        got = [d for (t, _), d in zip(seq, per1) if t == "v"]
        if got != per0:
            ctx.violation("deliveries of the valid frames differ from the run without the bad frames", case)
        l0, l1 = loct_snapshot(stn0.gn), loct_snapshot(stn1.gn)
        if restrict(l1, valid_mid) != restrict(l0, valid_mid):
            ctx.violation("location-table entries of the valid sources differ from the run without the bad frames", case)
        allowed = {t for _, kk, ts in bads for t in ts}
        extra = {e[0] for e in l1} - {e[0] for e in l0}
        if not extra <= allowed:
            ctx.violation("location table holds entries that no injected frame creates on its own", case)
        if all(kk == "none" for _, kk, _ in bads) and l1 != l0:
            ctx.violation("location table differs although every injected frame is without effect on its own", case)
        if all(kk == "none" for _, kk, _ in bads) and [x for (t, _), x in zip(seq, run1.sent) if t == "v"] != run0.sent:
            ctx.violation("GN-PDUs forwarded for the valid frames differ from the run without the bad frames although "
                          "every injected frame is without effect on its own", case)
        if run1.hung:
            return
        ctx.nontrivial(("loop", s, k, tuple(facilities), with_ldm))
        if s == 0:
            ctx.sample("loop", {"facilities": list(facilities), "ldm": with_ldm, "n_valid": len(valid), "n_bad": k,
                                "deliveries_per_valid_frame": [len(d) for d in per0]})
    # C-V2X: receive_process + callback loop, per-frame comparison.  Frames as the modem delivers them: family id + GN
    # packet; every stream also carries radio frames at the length boundaries (nothing at all, the family id alone = an
    # EMPTY GN packet, one octet behind it)
    for s in range(ctx.scale(6, 60)):
        valid = [f for _, f in valid0]
        seq = [("v", b"\x03" + x) for x in valid]
        for _ in range(ctx.rng.randrange(1, 10)):
            seq.insert(ctx.rng.randrange(len(seq) + 1), ("b", b"\x03" + ctx.rng.choice(usable)[0]))
        for j in (s, s + 2):
            seq.insert(ctx.rng.randrange(len(seq) + 1), ("b", CV2X_BOUNDARY[j % len(CV2X_BOUNDARY)]))
        ctx.evals(len(seq))
        ctx.cover("cv2x_streams")
        for _, x in seq:
            if len(x) <= 2:
                ctx.cover(f"cv2x_radio_frame_len_{len(x)}")
        if cv2x_stream_case(ctx, clock, seq):
            return


CV2X_BOUNDARY = [b"\x03", b"", b"\x03\x11", b"\x00", b"\x03\x00", b"\xff"]


def cv2x_stream_case(ctx, clock, seq, report=True):
    """seq = [(tag, radio frame)].  -> True iff the property is violated (reported through ctx when `report`)"""
    run0 = run_cv2x_loop(clock, radio=[x for t, x in seq if t == "v"])
    run1 = run_cv2x_loop(clock, radio=[x for _, x in seq])
    case = {"kind": "cv2x", "radio": True, "stream": [[t, x.hex()] for t, x in seq]}
    what = None
    if not run1[0]:
        what = f"C-V2X receive path stopped by a received frame: {run1[2]}"
    else:
        tags = [t for t, x in seq if len(x) > 0]
        got = [d for t, d in zip(tags, run1[1]) if t == "v"]
        got_sent = [d for t, d in zip(tags, run1.sent) if t == "v"]
        valid_mid = {gn_source(x[1:]).hex()[-12:] for t, x in seq if t == "v" and gn_source(x[1:])}
        if got != run0[1]:
            what = "C-V2X: per-frame deliveries of the valid frames differ from the control run"
        elif restrict(loct_snapshot(run1[3].gn), valid_mid) != restrict(loct_snapshot(run0[3].gn), valid_mid):
            what = "C-V2X: location-table entries of the valid sources differ from the control run"
        elif got_sent != run0.sent and loct_snapshot(run1[3].gn) == loct_snapshot(run0[3].gn):
            what = "C-V2X: GN-PDUs forwarded for the valid frames differ from the control run"
    if what and report:
        ctx.violation(what, case)
    if not report:
        print("alive", run1[0], run1[2], "|", what or "same deliveries, location table and forwarded PDUs")
    return what is not None


def split_secured_pool(ctx, clock, world, sec_mut):
    """what each secured mutant does ALONE on a fresh security-enabled receiver: 'bad' = not passed on (discarded),
    'authentic' = passed the gate (a bit flip in the unsigned basic header, hashId, a re-signed payload ...): that is a
    well-formed packet of a valid source - subject of the pair check / C04-KF1, not injected into the streams"""
    bad, authentic = [], []
    pr = Probe(clock, 1, 1, world)
    for tag, f in sec_mut:
        before = pr.state()
        out, exc, discarded, changed, _ = pr.feed(f)
        (bad if discarded else authentic).append((tag, f))
        if pr.state()[0] != before[0]:
            pr = Probe(clock, 1, 1, world)
    ctx.cover("secured_pool_bad", len(bad))
    ctx.cover("secured_pool_authentic_excluded", len(authentic))
    return bad, authentic


def check_secured_pairs(ctx, clock, world, sec_valid, authentic, elog):
    """security enabled: [authentic packet whose payload does not decode / replayed copy, original] vs [original]"""
    by_len = {}
    for kind, v in sec_valid:
        by_len.setdefault(kind, v)
    denm = by_len.get("denm")
    for tag, b in authentic:
        if denm is None or b == denm:
            continue
        alone = Probe(clock, 1, 1, world)
        r_alone = alone.feed(denm)
        both = Probe(clock, 1, 1, world)
        r_b = both.feed(b)
        r_v = both.feed(denm)
        ctx.evals(2)
        if r_b[1] is not None:
            elog.see(r_b[1], b.hex())
        case = {"kind": "secpair", "bad": b.hex(), "good": denm.hex(), "trust": world.trust()}
        ctx.cover("secured_pair_" + tag.split(":")[-1])
        if r_b[2]:
            if r_b[3] and both.state()[0] != alone.state()[0]:
                ctx.violation(f"security enabled: discarded frame ({tag}) changed the location table", case)
        elif r_b[1] is not None and r_v[4] != r_alone[4]:
            ctx.violation(f"security enabled: authentic frame with undecodable payload ({tag}: {type(r_b[1]).__name__}) consumed "
                          f"(source, SN); the well-formed frame that follows is dropped as duplicate", case, "C04-KF1")
            ctx.cover("kf1_region_secured")
        ctx.nontrivial(("secpair", tag, r_b[0], r_b[2], r_v[4] == r_alone[4]))


def check_secured_loops(ctx, clock, world, sec_mut, unsec_bad, elog):
    """(iv) with SECURITY ENABLED: valid secured CAM/VAM/DENM of two senders, bad = secured mutants + unsecured frames"""
    wirings = [("ca", "den", "vru"), ("ca",), ("den", "vru")]
    for s in range(ctx.scale(5, 60)):
        fac = wirings[s % len(wirings)]
        valid = [f for _, f in world.valid_stream()]
        k = ctx.rng.randrange(2, ctx.scale(10, 30))
        bads = []
        for _ in range(k):
            if ctx.rng.random() < 0.75:
                bads.append(ctx.rng.choice(sec_mut))
            else:
                bads.append(("unsecured", ctx.rng.choice(unsec_bad)))
        seq = [("v", "valid", v) for v in valid]
        for tag, b in bads:
            seq.insert(ctx.rng.randrange(len(seq) + 1), ("b", tag, b))
        alive0, per0, err0, stn0 = run_raw_loop(clock, [eth(v) for v in valid], fac, False, world)
        alive1, per1, err1, stn1 = run_raw_loop(clock, [eth(x) for _, _, x in seq], fac, False, world)
        ctx.evals(len(seq))
        ctx.cover("secured_loop_streams")
        ctx.cover("secured_loop_bad_frames", k)
        case = {"kind": "secloop", "facilities": list(fac), "stream": [[t, x.hex()] for t, _, x in seq],
                "trust": world.trust()}
        if not alive0:
            ctx.violation(f"receive loop died on valid secured traffic: {err0}", dict(case, stream=[["v", v.hex()] for v in valid]))
            continue
        if sum(len(d) for d in per0) == 0:
            raise Infra("secured control run delivered nothing: the secured valid stream is not accepted")
        if not alive1:
            ctx.violation(f"receive loop terminated by a received frame (security enabled): {err1}", case)
            continue
        got = [d for (t, _, _), d in zip(seq, per1) if t == "v"]
        if got != per0:
            ctx.violation("security enabled: deliveries of the valid frames differ from the run without the bad frames", case)
        if loct_snapshot(stn1.gn) != loct_snapshot(stn0.gn):
            ctx.violation("security enabled: location table differs from the run without the bad frames "
                          "(no injected frame is authentic)", case)
        s0, s1 = sec_snapshot(stn0.rs), sec_snapshot(stn1.rs)
        if s1[0] != s0[0] or s1[3] != s0[3]:
            ctx.violation("security enabled: root / own certificates differ from the control run", case)
        if not (set(s0[1]) <= set(s1[1]) and set(s0[2]) <= set(s1[2])):
            ctx.violation("security enabled: certificates of the control run missing from the library", case)
        if all((t == "v") or (not envelope_parses(x) or x[0] & 0x0F != 2) for t, _, x in seq) and s1 != s0:
            ctx.violation("security enabled: trust store / P2PCD lists differ although every injected frame is unsecured "
                          "or has an envelope that does not parse", case)
        ctx.nontrivial(("secloop", s, k, fac))
        if s == 0:
            ctx.sample("secloop", {"facilities": list(fac), "n_valid": len(valid), "n_bad": k,
                                   "deliveries_per_valid_frame": [len(d) for d in per0],
                                   "bad_tags": sorted({tag for t, tag, _ in seq if t == "b"})})


# ------------------------------------------------------------------------------------------------ (vii) histories


def gn_request(stn, header_type, subtype, data, **kw):
    from flexstack.geonet.service_access_point import GNDataRequest, PacketTransportType, CommonNH
    stn.gn.gn_data_request(GNDataRequest(
        upper_protocol_entity=CommonNH.BTP_B,
        packet_transport_type=PacketTransportType(header_type=header_type, header_subtype=subtype),
        data=data, length=len(data), **kw))


def forwardables(clock, idxs=(9, 11)):
    """well-formed UNSECURED frames of stations that are neither mutant sources (1, 3) nor senders of the valid / secured
    streams (5, 7): CAM and VAM over SHB (delivered), DENM over GBC with RHL 10 and the receiver inside the area
    (delivered AND re-broadcast by the contention-based forwarder), a multi-hop TSB (delivered and forwarded)"""
    out = []
    with rs.quiet():
        for idx in idxs:
            a = st_mod.Station(idx, clock, with_ldm=False)
            cam = st_mod.emit_cam(a, clock)
            out += [("denm", f) for f in st_mod.emit_denm(a, clock)]
            out += [("cam", f) for f in cam]
            out += [("vam", f) for f in st_mod.emit_vam(a, clock)]
            # multi-hop TSB by header layout (the stack has no TSB source operation): Basic Header RHL 5, Common Header
            # HT 5 / HST 1 / MHL 5, extended header SN + reserved + the SHB's source position vector, same payload
            f = cam[0]
            out.append(("tsb", f[:3] + b"\x05" + f[4:5] + b"\x51" + f[6:10] + b"\x05" + f[11:12]
                        + bytes([1, idx & 0xFF, 0, 0]) + f[12:36] + f[40:]))
    return out


def hop_limit_mutants(valid, tag="field:basic-hop-limit"):
    """the Basic Header is outside the signed part of a secured packet: RHL rewritten on the way.  Such a frame VERIFIES
    and is discarded afterwards (hop limit above the maximum of the signed Common Header), or is a stale copy (RHL 0)"""
    out = []
    for kind, f in valid:
        for v in (0, 2, 5, 255):
            if len(f) > 4 and f[3] != v:
                out.append((tag, f[:3] + bytes([v]) + f[4:]))
    return out


class History:
    """[setup..., X..., G] against [setup..., G] on fresh stations of one configuration.  The clause: a frame that is
    DISCARDED (raised / dropped, nothing delivered, nothing sent, location table as before) leaves no trace: the
    well-formed frame G behind it has the same outcome, the same deliveries, puts the same GN-PDUs on the air and leaves
    the same location table as without X.  (The certificate library may have grown from an AUTHENTIC discarded frame;
    it is compared only when X left it alone.)"""

    def __init__(self, clock, world):
        self.clock, self.world, self.ref = clock, world, {}

    def _run(self, sec, ver, frames):
        pr = Probe(self.clock, sec, ver, self.world if ver else None)
        r = None
        for f in frames:
            r = pr.feed(f)
        return pr, r

    def alone(self, sec, ver, setup, good):
        key = (sec, ver, tuple(setup), good)
        if key not in self.ref:
            pr, r = self._run(sec, ver, list(setup) + [good])
            self.ref[key] = ((r[0], type(r[1]).__name__, r[4], list(pr.last_sent)), pr.state())
        return self.ref[key]

    def case(self, sec, ver, setup, prefix, good):
        """-> (prefix discarded without effect, same, text)"""
        ref, ref_state = self.alone(sec, ver, setup, good)
        pr, _ = self._run(sec, ver, setup)
        disc, sec_same = True, True
        for x in prefix:
            before = pr.state()
            r = pr.feed(x)
            after = pr.state()
            if not r[2] or after[0] != before[0]:
                disc = False
            if after[1] != before[1]:
                sec_same = False
        r = pr.feed(good)
        got = (r[0], type(r[1]).__name__, r[4], list(pr.last_sent))
        st = pr.state()
        same = got == ref and st[0] == ref_state[0] and (not sec_same or st[1] == ref_state[1])
        text = ""
        if not same:
            diff = [n for n, a, b in zip(("outcome", "exception", "deliveries", "forwarded GN-PDUs"), got, ref) if a != b]
            if st[0] != ref_state[0]:
                diff.append("location table")
            if sec_same and st[1] != ref_state[1]:
                diff.append("trust store")
            text = "differs in " + ", ".join(diff)
            if got[3] != ref[3]:
                text += f" (forwarded {[x[:24] + '..' for x in got[3]]} instead of {[x[:24] + '..' for x in ref[3]]})"
        return disc, same, text


def check_histories(ctx, clock, world, sec_valid, sec_mut, unsec_bad, elog):
    """(vii) a discarded frame followed by a well-formed frame that is delivered and / or FORWARDED, for every
    configuration: unsecured station, station WITH a verify service and security disabled (mixed deployment: secured
    and unsecured traffic accepted), security enabled."""
    h = History(clock, world)
    fw = forwardables(clock)
    goods_unsec = [fw[0]] + fw[1:4] + (fw[4:] if ctx.thorough else [])          # DENM (forwarded) first
    sec_cam = next(f for k, f in sec_valid if k == "cam")
    sec_denm = next((f for k, f in sec_valid if k == "denm"), None)
    goods_sec = [((), ("sec-cam", sec_cam))] + ([((sec_cam,), ("sec-denm", sec_denm))] if sec_denm else [])
    hop = [m for m in sec_mut if m[0] == "field:basic-hop-limit"]
    others = [m for m in sec_mut if m[0] != "field:basic-hop-limit"]
    n_other = ctx.scale(10, 120)
    xs_sec = hop + ctx.rng.sample(others, min(len(others), n_other))
    xs_unsec = [("unsecured", f) for f in ctx.rng.sample(unsec_bad, min(len(unsec_bad), ctx.scale(8, 100)))]
    n = 0
    for sec, ver in ((0, 1), (0, 0), (1, 1)):
        xs = (xs_sec + xs_unsec) if ver else xs_unsec + xs_sec[:3]
        for tag, x in xs:
            goods = []
            if not sec:
                goods.append(((), goods_unsec[0]))
                goods.append(((), ctx.rng.choice(goods_unsec[1:])))
                if ctx.thorough:
                    goods += [((), g) for g in goods_unsec[1:]]
            if ver:
                goods.append(ctx.rng.choice(goods_sec))
            for setup, (gk, g) in goods:
                if g == x or x in setup:
                    continue
                disc, same, text = h.case(sec, ver, list(setup), [x], g)
                n += 1
                ctx.evals(2)
                ctx.cover(f"history_{sec}{ver}_{'discarded' if disc else 'not-discarded'}")
                ctx.nontrivial(("history", sec, ver, tag, gk, disc, same))
                if disc and not same:
                    case = {"kind": "history", "sec": sec, "ver": ver, "setup": [f.hex() for f in setup],
                            "prefix": [x.hex()], "good": g.hex()}
                    if ver:
                        case["trust"] = world.trust()
                    ctx.violation(f"well-formed frame ({gk}) received after a discarded frame ({tag}) is not processed as if "
                                  f"the discarded frame had never been received [security {'enabled' if sec else 'disabled'}, "
                                  f"{'with' if ver else 'no'} verify service]: {text}", case)
    ctx.cover("histories", n)


def check_mixed_loops(ctx, clock, world, sec_valid, sec_mut, unsec_pool, elog):
    """(iv) for a station of a mixed deployment (verify service present, itsGnSecurity DISABLED): valid secured AND
    unsecured traffic through the real RawLinkLayer.receive with discarded frames (secured mutants, unsecured garbage) at
    random positions: per valid frame the same deliveries and the same GN-PDUs on the air as in the control run"""
    fw = [f for _, f in forwardables(clock)]
    # bad frames: discarded and without effect ALONE on a fresh station of this configuration
    bads = []
    pr = Probe(clock, 0, 1, world)
    cand = [m for m in sec_mut if m[0] == "field:basic-hop-limit"] + ctx.rng.sample(sec_mut, min(len(sec_mut), ctx.scale(40, 400))) \
        + [("unsecured", f) for f in ctx.rng.sample(unsec_pool, min(len(unsec_pool), ctx.scale(30, 300)))]
    for tag, f in cand:
        before = pr.state()
        r = pr.feed(f)
        ctx.evals()
        if r[2] and pr.state() == before:
            bads.append((tag, f))
        elif pr.state()[0] != before[0]:
            pr = Probe(clock, 0, 1, world)
    ctx.cover("mixed_pool_discarded_no_effect", len(bads))
    for s in range(ctx.scale(3, 40)):
        fac = (("ca", "den", "vru"), ("den",), ("ca", "vru"))[s % 3]
        valid = [f for _, f in world.valid_stream()]
        for f in fw:
            valid.insert(ctx.rng.randrange(len(valid) + 1), f)
        seq = [("v", v) for v in valid]
        for tag, b in [ctx.rng.choice(bads) for _ in range(ctx.rng.randrange(2, ctx.scale(10, 30)))] if bads else []:
            seq.insert(ctx.rng.randrange(len(seq) + 1), ("b", b))
        case = {"kind": "mixedloop", "facilities": list(fac), "stream": [[t, x.hex()] for t, x in seq],
                "trust": world.trust()}
        ctx.evals(len(seq))
        ctx.cover("mixed_loop_streams")
        viol, what, hung = mixed_loop_case(clock, world, fac, seq)
        ctx.nontrivial(("mixedloop", s, len(seq), fac))
        if viol:
            ctx.violation("mixed deployment (verify service, security disabled): " + what, case)
        if hung:
            return


def mixed_loop_case(clock, world, fac, seq):
    def rx():
        return FullSecStation(world, 0x63, fac, False)
    run0 = run_raw_loop(clock, [eth(x) for t, x in seq if t == "v"], fac, False, stn=rx())
    run1 = run_raw_loop(clock, [eth(x) for _, x in seq], fac, False, stn=rx())
    if not run0[0]:
        return True, f"receive loop died on valid traffic: {run0[2]}", run0.hung
    if sum(len(d) for d in run0[1]) == 0:
        raise Infra("mixed control run delivered nothing")
    if not run1[0]:
        return True, f"receive loop terminated by a received frame: {run1[2]}", run1.hung
    got = [d for (t, _), d in zip(seq, run1[1]) if t == "v"]
    got_sent = [d for (t, _), d in zip(seq, run1.sent) if t == "v"]
    if got != run0[1]:
        return True, "deliveries of the valid frames differ from the run without the discarded frames", False
    if got_sent != run0.sent:
        i = next(i for i, (a, b) in enumerate(zip(got_sent, run0.sent)) if a != b)
        return True, (f"GN-PDUs put on the air for valid frame {i} differ from the run without the discarded frames: "
                      f"{[x[:24] + '..' for x in got_sent[i]]} instead of {[x[:24] + '..' for x in run0.sent[i]]}"), False
    if loct_snapshot(run1[3].gn) != loct_snapshot(run0[3].gn):
        return True, "location table differs from the run without the discarded frames", False
    return False, "same deliveries, forwarded PDUs and location table", False


# --- Location Service histories: the application asked for an unknown station, requests are buffered, replies arrive


LS_PEER = 0x21


def ls_station(clock, n_requests, facilities=("ca", "den", "vru"), dest=LS_PEER):
    """station under test with a Location Service pending for `dest` and n_requests GeoUnicast requests queued behind
    it.  -> (station, LS Request frames it broadcast)"""
    from flexstack.geonet.service_access_point import HeaderType, HeaderSubType
    with rs.quiet():
        a = st_mod.Station(0x63, clock, facilities=facilities, with_ldm=False)
        for i in range(n_requests):
            gn_request(a, HeaderType.GEOUNICAST, HeaderSubType.UNSPECIFIED, b"\x07\xd1\x00\x00guc-%d" % i,
                       destination=rs.gn_addr(dest))
    return a, a.ll.take()


def ls_replies(clock, requests, age_ms, dest=LS_PEER):
    """the sought station (a real Router whose position fix is `age_ms` old) answers the LS Requests"""
    from flexstack.geonet.position_vector import LongPositionVector, TST
    with rs.quiet():
        b, ll, _ = rs.make_router(dest)
        b.ego_position_vector = LongPositionVector(
            gn_addr=b.mib.itsGnLocalGnAddr, tst=TST.set_in_normal_timestamp_milliseconds(clock.ms - age_ms),
            latitude=415000500, longitude=21000500, pai=True)
        for f in requests:
            b.gn_data_indicate(f)
    return ll.take()


def ls_history_case(clock, n_requests, facilities, seq):
    """seq = [(tag, GN packet)], tags: "v" valid traffic of other stations, "ls" Location Service replies, "b" bad.
    -> (violated, text, hung): the loop must stay alive and every valid frame must be delivered as in the control run
    (same history, stream without the "ls" / "b" frames)"""
    a0, _ = ls_station(clock, n_requests, facilities)
    run0 = run_raw_loop(clock, [eth(x) for t, x in seq if t == "v"], facilities, False, stn=a0)
    a1, _ = ls_station(clock, n_requests, facilities)
    run1 = run_raw_loop(clock, [eth(x) for _, x in seq], facilities, False, stn=a1)
    if not run0[0]:
        return True, f"receive loop died on valid traffic: {run0[2]}", run0.hung
    if not run1[0]:
        return True, f"receive loop stopped by a received frame: {run1[2]}", run1.hung
    got = [d for (t, _), d in zip(seq, run1[1]) if t == "v"]
    if got != run0[1]:
        return True, "deliveries of the valid frames differ from the run without the Location Service replies", False
    return False, f"alive, same deliveries; GN-PDUs sent per frame {[len(x) for x in run1.sent]}", False


def check_ls_histories(ctx, clock, bad_pool):
    """histories with a pending Location Service: replies whose source position vector is fresh, at the boundaries of
    itsGnLifetimeLocTE, stale (the replier lost its fix / the reply is a replay) or in the future; replies received
    twice, truncated, for a station nobody asked for; 1..3 requests buffered"""
    from flexstack.geonet.mib import MIB
    life = MIB().itsGnLifetimeLocTE * 1000
    ages = [0, 1000, life - 1, life, life + 1, 3 * life, 600_000, -1000]
    valid = [f for _, f in base_frames(clock, n=1, idxs=(5, 7))]
    k = 0
    for n_req in (1, 3) if not ctx.thorough else (1, 2, 3, 5):
        _, reqs = ls_station(clock, n_req)
        if not reqs:
            raise Infra("no LS Request broadcast for a GeoUnicast to an unknown station")
        for age in ages:
            replies = ls_replies(clock, reqs[:1], age)
            if not replies:
                ctx.cover("ls_no_reply")
                continue
            rep = replies[0]
            for variant in ("once", "twice", "truncated-then-genuine", "unasked") if (ctx.thorough or k % 3 == 0) else ("once",):
                n_here = n_req
                if variant == "once":
                    ls = [("ls", rep)]
                elif variant == "twice":
                    ls = [("ls", rep), ("ls", rep)]
                elif variant == "truncated-then-genuine":
                    ls = [("b", rep[:ctx.rng.randrange(12, len(rep))]), ("ls", rep)]
                else:
                    ls, n_here = [("ls", rep)], 0          # nobody asked: no LS pending, nothing buffered
                seq = [("v", v) for v in valid]
                pos = ctx.rng.randrange(len(seq))          # at least one valid frame behind the reply
                for j, item in enumerate(ls):
                    seq.insert(pos + j, item)
                for _ in range(ctx.rng.randrange(0, 3)):
                    seq.insert(ctx.rng.randrange(len(seq) + 1), ("b", ctx.rng.choice(bad_pool)))
                fac = ("ca", "den", "vru")
                viol, text, hung = ls_history_case(clock, n_here, fac, seq)
                k += 1
                ctx.evals(len(seq))
                ctx.cover("ls_histories")
                ctx.cover("ls_reply_pv_" + ("fresh" if 0 <= age < life else "boundary" if age == life else
                                            "future" if age < 0 else "stale"))
                ctx.nontrivial(("lshist", n_here, age, variant))
                if viol:
                    ctx.violation(f"Location Service pending ({n_here} GeoUnicast request(s) buffered), LS Reply with a source "
                                  f"position vector {age} ms old [{variant}]: {text}",
                                  {"kind": "lshist", "n_requests": n_here, "facilities": list(fac), "age_ms": age,
                                   "stream": [[t, x.hex()] for t, x in seq]})
                if hung:
                    return


# ------------------------------------------------------------------------------------------------ (v) fault injection


class BrokenStream(io.TextIOBase):
    def __init__(self, exc):
        self.exc = exc
        self.writes = 0

    def write(self, s):
        self.writes += 1
        raise self.exc

    def flush(self):
        raise self.exc


class broken_std:
    """stdout (and optionally stderr) replaced by streams that raise; logging left ENABLED (no rs.quiet())"""

    def __init__(self, exc, stderr_too):
        self.exc, self.stderr_too = exc, stderr_too

    def __enter__(self):
        # logging.lastResort writes to sys.stderr as it is at emit time
        self.old = (sys.stdout, sys.stderr)
        sys.stdout = BrokenStream(self.exc)
        sys.stderr = BrokenStream(self.exc) if self.stderr_too else io.StringIO()
        return self

    def __exit__(self, *a):
        sys.stdout, sys.stderr = self.old


FAULTS = [("BrokenPipeError", lambda: BrokenPipeError(32, "Broken pipe"), True),
          ("OSError", lambda: OSError(5, "Input/output error"), True),
          ("ValueError", lambda: ValueError("I/O operation on closed file"), False)]


def stdout_fault_case(clock, which, fault, bad_hex):
    """True iff the property is violated: a bad frame received while stdout is broken stops the loop / raises into it"""
    name, mk, err_too = next(f for f in FAULTS if f[0] == fault)
    with rs.quiet():
        good = st_mod.emit_cam(st_mod.Station(5, clock, with_ldm=False), clock)[0]
    bad = bytes.fromhex(bad_hex)
    if which == "raw":
        alive, per, err, stn = run_raw_loop(clock, [eth(good), eth(bad), eth(good)], ("ca",), False,
                                            stdout=broken_std(mk(), err_too))
        return (not alive) or len(per[2]) != 1, f"alive={alive} err={err} deliveries={[len(p) for p in per]}"
    if which == "cv2x":
        alive, per, err, stn = run_cv2x_loop(clock, [good, bad, good], stdout=broken_std(mk(), err_too))
        return (not alive) or len(per[2]) != 1, f"alive={alive} err={err} deliveries={[len(p) for p in per]}"
    if which == "indicate":
        with rs.quiet():
            stn = st_mod.Station(0x63, clock, with_ldm=False)
        try:
            with broken_std(mk(), err_too):
                stn.gn.gn_data_indicate(bad)
            return False, "returned"
        except BaseException as e:  # noqa: BLE001
            return True, f"gn_data_indicate raised {type(e).__name__}: {e}"
    raise Infra(which)


def check_stdout_faults(ctx, clock):
    bads = ["110005", "11000501" + "20f0000000000100", "1100050a" + "2050000000000100" + "00" * 10, ""]
    for which in ("raw", "cv2x", "indicate"):
        for name, _, _ in FAULTS:
            for bad in bads:
                viol, what = stdout_fault_case(clock, which, name, bad)
                ctx.evals()
                ctx.cover("stdout_fault_" + which)
                ctx.nontrivial(("fault", which, name, bad))
                if viol:
                    ctx.violation(f"bad frame received while stdout raises {name} stopped the receive path ({which}): {what}",
                                  {"kind": "stdout-fault", "which": which, "fault": name, "frame": bad})


GUARD_BADS = ["110005", "1300050120500080002d0100", "1100050320500080002d0100", "11000501" + "20f0000000000100",
              "11000501" + "2040000000000100" + "00" * 44, "1200050109", "", "11"]


def loop_guard_case(clock, which, bad_hex):
    """True iff violated: a frame on which the receive callback RAISES ends the loop / later valid frames are lost"""
    with rs.quiet():
        good = st_mod.emit_cam(st_mod.Station(5, clock, with_ldm=False), clock)[0]
    bad = bytes.fromhex(bad_hex)
    if which == "raw":
        alive, per, err, _ = run_raw_loop(clock, [eth(good), eth(bad), eth(good)], ("ca",), False, unguarded=True)
    else:
        alive, per, err, _ = run_cv2x_loop(clock, [good, bad, good], unguarded=True)
    return (not alive) or len(per[2]) != 1, f"alive={alive} err={err} deliveries={[len(p) for p in per]}"


def check_loop_guard(ctx, clock):
    """the link-layer loops on their own (callback without the router's catch-all): every exception class of the
    prologue raised by the callback"""
    for which in ("raw", "cv2x"):
        for bad in GUARD_BADS:
            viol, what = loop_guard_case(clock, which, bad)
            ctx.evals()
            ctx.cover("loop_guard_" + which)
            ctx.nontrivial(("guard", which, bad))
            if viol:
                ctx.violation(f"{which} receive loop ended by an exception of its receive callback: {what}",
                              {"kind": "loop-guard", "which": which, "frame": bad})


# ------------------------------------------------------------------------------------------------ (vi) MAC filter


def check_mac(ctx, clock):
    v = base_frames(clock, n=1, idxs=(5,))[0][1]
    other = bytes([0x02, 0, 0, 0, 0, 0x77])
    for dst, src in ((BCAST, PEER_MAC), (BCAST, OWN_MAC), (OWN_MAC, PEER_MAC), (other, PEER_MAC), (OWN_MAC, OWN_MAC),
                     (PEER_MAC, OWN_MAC), (other, OWN_MAC), (PEER_MAC, PEER_MAC), (bytes(6), PEER_MAC)):
        alive, per, err, _ = run_raw_loop(clock, [eth(v, dst, src)], ("ca", "den", "vru"), False)
        got = 1 if per and per[0] else 0
        ctx.evals()
        # property text: frames sent by the station itself or addressed to another unicast address are ignored
        exp_prop = 0 if (src == OWN_MAC) or (dst not in (OWN_MAC, BCAST)) else 1
        ctx.nontrivial(("mac", dst.hex(), src.hex()))
        if got != exp_prop:
            ctx.violation(f"MAC filter: dst={dst.hex()} src={src.hex()} delivered={got}",
                          {"kind": "mac", "dst": dst.hex(), "src": src.hex()})
        MODEL_BATCH.append(("recv.mac", {"dst": dst.hex(), "src": src.hex()}, str(got),
                            f"mac {OWN_MAC.hex()} {dst.hex()} {src.hex()}"))


def check_cv2x_boundaries(ctx, clock):
    """C-V2X framing boundaries, deterministic: a radio frame of 0, 1 (family id alone: an EMPTY GN packet) or 2 octets
    between two valid frames; the frame behind it must be delivered and the callback thread must still be serving"""
    with rs.quiet():
        goods = st_mod.emit_cam(st_mod.Station(5, clock, with_ldm=False), clock) \
            + st_mod.emit_cam(st_mod.Station(7, clock, with_ldm=False), clock)
    for b in CV2X_BOUNDARY:
        seq = [("v", b"\x03" + goods[0]), ("b", b), ("v", b"\x03" + goods[1])]
        ctx.evals(3)
        ctx.cover(f"cv2x_radio_frame_len_{len(b)}")
        ctx.nontrivial(("cv2x-boundary", b.hex()))
        cv2x_stream_case(ctx, clock, seq)


def check_no_raise(ctx, clock, frames, world=None):
    stn = world.receiver() if world is not None else make_station(clock, ("ca", "den", "vru"), True)
    for f in frames:
        ctx.evals()
        try:
            with rs.quiet():
                stn.gn.gn_data_indicate(f)
        except Exception as e:  # noqa: BLE001
            case = {"kind": "indicate", "frame": f.hex(), "sec": 1 if world is not None else 0}
            if world is not None:
                case["trust"] = world.trust()
            ctx.violation(f"gn_data_indicate raised {type(e).__name__} into the link layer", case)
    ctx.cover("gn_data_indicate_frames" + ("_secured" if world is not None else ""), len(frames))


# ------------------------------------------------------------------------------------------------ (x) header classes

# Extended-header length per (HT, HST) by the packet layouts of EN 302 636-4-1 clause 9.8 (NOT read from the code):
# Beacon = SO PV (24); SHB = SO PV + 4 media-dependent; TSB = SN + reserved + SO PV; GBC / GAC = SN + reserved + SO PV +
# area (lat, lon, a, b, angle, reserved = 16); GUC / LS Reply = SN + reserved + SO PV + DE short PV (20);
# LS Request = SN + reserved + SO PV + sought GN_ADDR (8).
EXT_LEN = {(1, 0): 24, (2, 0): 48, (3, 0): 44, (3, 1): 44, (3, 2): 44, (4, 0): 44, (4, 1): 44, (4, 2): 44,
           (5, 0): 28, (5, 1): 28, (6, 0): 36, (6, 1): 48}
# Scope (finding C04-R6-SHB, unchanged code): Router.gn_data_indicate_shb decodes packet[0:24] and takes packet[28:] as
# the payload without looking at the 4 media-dependent octets, so an SHB frame cut INSIDE that field (24..27 of 28
# octets, nothing behind) is accepted (LocTE created, empty payload indicated).  The oracle therefore demands the
# discard of an SHB only below the end of its SO PV; the four lengths are still generated and reported as coverage
# (`hdrclass_shb_media_dependent_cut_accepted`).
MUST_HAVE = {**EXT_LEN, (5, 0): 24}


def so_offset(ht, hst):
    return 12 if ht == 1 or (ht, hst) == (5, 0) else 16


def must_discard(frame, own):
    """independent oracle, unsecured GN packets (version 1, Basic NH = Common Header) only: the reason why the frame
    MUST be discarded without trace, or None when this oracle makes no claim.  `own` = encoded itsGnLocalGnAddr."""
    if len(frame) < 1 or frame[0] != 0x11:
        return None
    if len(frame) < 12:
        return f"cut inside the Basic / Common Header ({len(frame)} of 12 octets)"
    key = (frame[5] >> 4, frame[5] & 0x0F)
    if key not in EXT_LEN:
        return None
    need = EXT_LEN[key]
    if len(frame) < 12 + MUST_HAVE[key]:
        return f"cut inside the extended header ({len(frame) - 12} of {need} octets, nothing behind)"
    if len(frame) < 12 + need:
        return None                                     # SHB media-dependent field cut: no claim (C04-R6-SHB)
    if frame[3] > frame[10]:
        return f"RHL {frame[3]} above MHL {frame[10]}"
    off = so_offset(*key)
    if frame[off:off + 8] == own:
        return "source GN_ADDR is the station's own address (itsGnLocalGnAddr)"
    return None


def typed_frames(clock, own, idx):
    """one well-formed unsecured frame per packet type, source = station `idx` (its real SO PV), built by header layout
    around the CAM / DENM that station emits.  GUC / LS packets are addressed to the receiver `own`."""
    with rs.quiet():
        a = st_mod.Station(idx, clock, with_ldm=False)
        cam = st_mod.emit_cam(a, clock)[0]
        denm = st_mod.emit_denm(a, clock)[0]
    so, pay = cam[12:36], cam[40:]
    other = so[:7] + bytes([(so[7] + 0x40) & 0xFF])

    def hdr(ht, hst, hl, pl, nh=2):
        return cam[:3] + bytes([hl]) + bytes([nh << 4, (ht << 4) | hst, cam[6], cam[7]]) + pl.to_bytes(2, "big") \
            + bytes([hl, 0])

    def sn(i):
        return bytes([0x20 + i, idx & 0xFF, 0, 0])
    out = [("beacon", hdr(1, 0, 1, 0, nh=0) + so), ("shb", cam),
           ("tsb", hdr(5, 1, 5, len(pay)) + sn(1) + so + pay),
           ("guc", hdr(2, 0, 5, len(pay)) + sn(2) + so + own + so[8:20] + pay),
           ("ls-request", hdr(6, 0, 5, 0, nh=0) + sn(3) + so + own),
           ("ls-request-other", hdr(6, 0, 5, 0, nh=0) + sn(4) + so + other),
           ("ls-reply", hdr(6, 1, 5, 0, nh=0) + sn(5) + so + own + so[8:20])]
    for ht, name in ((4, "gbc"), (3, "gac")):
        for hst, shape in ((0, "circle"), (1, "rect"), (2, "ellipse")):
            # distance b := distance a for rectangle / ellipse (the DENM's circle has b = 0: a zero-sized area)
            out.append((f"{name}-{shape}", denm[:5] + bytes([(ht << 4) | hst]) + denm[6:12] + sn(6 + 3 * (ht - 3) + hst)
                        + denm[16:50] + (denm[48:50] if hst else denm[50:52]) + denm[52:]))
    return out


def header_class_mutants(ctx, tag, g, own):
    """the three classes per packet type: cut at EVERY length inside the headers; own source address; RHL above MHL"""
    key = (g[5] >> 4, g[5] & 0x0F)
    for n in range(0, 12 + EXT_LEN[key]):
        yield "truncated", g[:n]
    off = so_offset(*key)
    yield "own-address", g[:off] + own + g[off + 8:]
    yield "own-address", g[:off] + own + g[off + 8:12 + EXT_LEN[key]]          # ... and no payload
    mhl = g[10]
    for rhl, m in ((mhl + 1, mhl), (255, mhl), (255, 1), (2, 1), (1, 0), (255, 254), (ctx.rng.randrange(2, 256), 1)):
        if rhl > m:
            yield "rhl-above-mhl", g[:3] + bytes([rhl]) + g[4:10] + bytes([m]) + g[11:]


def _feed_all(clock, frames):
    pr = Probe(clock)
    r = None
    for f in frames:
        r = pr.feed(f)
    return pr, r


def must_discard_case(clock, setup, bad, good, ref=None):
    """[setup.., bad, good] against [setup.., good] on fresh unsecured stations -> (violated, text).
    bad MUST be discarded (must_discard): nothing indicated / delivered / sent, location table (neighbours included)
    as before; good is then processed exactly as without bad."""
    pr, _ = _feed_all(clock, setup)
    own = pr.stn.gn.mib.itsGnLocalGnAddr.encode()
    why = must_discard(bad, own)
    if why is None:
        return False, "out of scope: the oracle does not require this frame to be discarded", None
    before, inds0 = pr.state(), pr.n_inds()
    rb = pr.feed(bad)
    after = pr.state()
    trace = []
    if pr.n_inds() > inds0 or rb[4]:
        trace.append(f"indicated to the upper layer ({len(rb[4])} BTP deliveries)")
    if pr.last_sent:
        trace.append(f"{len(pr.last_sent)} GN-PDU(s) sent")
    if after != before:
        b0, a0 = {e[0]: e for e in before[0]}, {e[0]: e for e in after[0]}
        gained = sorted(set(a0) - set(b0))
        chg = sorted(k for k in a0 if k in b0 and a0[k] != b0[k])
        nb = (sum(1 for e in before[0] if e[4]), sum(1 for e in after[0] if e[4]))
        trace.append("location table changed (" + "; ".join(
            ([f"gained {[g[-12:] for g in gained]}" + (" = the station's OWN address" if own.hex() in gained else "")]
             if gained else []) + ([f"entries rewritten {[c[-12:] for c in chg]}"] if chg else [])
            + [f"neighbours {nb[0]} -> {nb[1]}"]) + ")")
    if ref is None:
        p0, r0 = _feed_all(clock, list(setup) + [good])
        ref = ((r0[0], type(r0[1]).__name__, r0[4], list(p0.last_sent)), p0.state())
    rg = pr.feed(good)
    got = ((rg[0], type(rg[1]).__name__, rg[4], list(pr.last_sent)), pr.state())
    if got != ref:
        diff = [n for n, x, y in zip(("outcome", "exception", "deliveries", "GN-PDUs sent"), got[0], ref[0]) if x != y]
        if got[1] != ref[1]:
            diff.append("location table")
        trace.append(f"the complete frame behind it is not processed as if it had never arrived: {got[0][0]}, "
                     f"{len(got[0][2])} deliveries vs {ref[0][0]}, {len(ref[0][2])} alone (differs in {', '.join(diff)})")
    if trace:
        return True, f"{why}: not discarded without trace [{rb[0]}]: " + "; ".join(trace), ref
    return False, f"{why}: discarded without trace [{rb[0]}], frame behind it processed as alone", ref


def check_header_classes(ctx, clock):
    """(x) every packet type x {cut at every length inside its headers, own source address, RHL > MHL}: discarded
    without trace, and the complete / well-formed frame of the same (source, SN) afterwards processed as alone.
    Seeded classes C04-m10 (length guard of one extended header relaxed), -m11 (DAD behind the LocTE update in one
    handler), -m12 (one handler dispatched in front of the hop-limit check)."""
    own = Probe(clock).stn.gn.mib.itsGnLocalGnAddr.encode()
    with rs.quiet():
        neighbour = st_mod.emit_cam(st_mod.Station(0x19, clock, with_ldm=False), clock)[0]
    n, reported = 0, set()
    for tag, g in typed_frames(clock, own, 0x17):
        if must_discard(g, own) is not None:
            raise Infra(f"typed frame {tag} is not well-formed by the layout oracle")
        refs = {}
        muts = list(header_class_mutants(ctx, tag, g, own))
        seen = set()
        for cls, b in muts:
            if b in seen:
                continue
            seen.add(b)
            # histories: empty location table AND one with a neighbour (truncations: alternate, others: both)
            setups = [(neighbour,), ()] if cls != "truncated" else [(neighbour,) if len(b) % 2 else ()]
            if ctx.thorough:
                setups = [(neighbour,), ()]
            if must_discard(b, own) is None:
                ctx.cover(f"hdrclass_{tag}_media_dependent_cut_accepted")
                continue
            for setup in setups:
                viol, text, refs[setup] = must_discard_case(clock, list(setup), b, g, refs.get(setup))
                n += 1
                ctx.evals(2)
                ctx.cover(f"hdrclass_{tag}_{cls}")
                ctx.nontrivial(("hdrclass", tag, cls, len(b) if cls == "truncated" else b[3:11:7].hex(), bool(setup), viol))
                if viol and (tag, cls) not in reported:
                    reported.add((tag, cls))
                    ctx.violation(f"{tag} frame, {cls}: {text}",
                                  {"kind": "mustdiscard", "setup": [x.hex() for x in setup], "bad": b.hex(),
                                   "good": g.hex()})
        ref = refs.get(()) or refs.get((neighbour,))
        ctx.cover(f"hdrclass_{tag}_alone_{ref[0][0]}_{len(ref[0][2])}delivered_{len(ref[0][3])}sent")
    ctx.cover("header_class_cases", n)


# ------------------------------------------------------------------------------------------------ entry points


def check_generated_facts(ctx):
    """the facts of Generated/Except.lean as the harness sees them (evidence; the obligations are in Props/C04)"""
    shapes = {
        "raw": gen_except.loop_shape("linklayer/raw_link_layer.py", "RawLinkLayer", "receive", "receive_callback"),
        "cv2x": gen_except.loop_shape("linklayer/cv2x_link_layer.py", "PythonCV2XLinkLayer", "callback_handler_loop",
                                      "receive_callback"),
        "gn_data_indicate": gen_except.loop_shape("geonet/router.py", "Router", "gn_data_indicate", "process_basic_header"),
    }
    _, t = gen_except.table_names()
    ctx.extra["try_shapes"] = shapes
    ctx.extra["raise_table"] = {"classes": len(t["table"]), "flexstack_modules": t["n_flex_modules"],
                                "third_party_modules": t["n_third_modules"], "unresolved_raise_sites": len(t["unresolved"]),
                                "flex_base_only_sites": t["flex_base_sites"], "third_party_base_only_sites": t["third_base_sites"]}
    return shapes


def timed(ctx, name, fn, *a, **k):
    import time
    t = time.time()
    r = fn(*a, **k)
    ctx.extra.setdefault("section_seconds", {})[name] = round(ctx.extra.get("section_seconds", {}).get(name, 0) + time.time() - t, 1)
    return r


def run(ctx):
    ctx.extra["rule"] = ("frames: grammar-based on the GN header layout (every HT/HST/NH/version, truncation at every "
                         "extended-header boundary, RHL/MHL pairs, station-type octets, zero-sized areas), truncations/bit "
                         "flips/byte substitutions/extensions of CAM, VAM and DENM frames captured from real stations "
                         "(unsecured AND secured with a real PKI), field-level forgeries of the secured envelope, random bytes "
                         "up to the MTU; each classified by the real router (4 security configurations) and the Lean model; "
                         "pair runs [mutant, original]; streams of valid traffic with bad frames at random positions through "
                         "the real RawLinkLayer.receive / C-V2X loop (5 facility wirings unsecured, 3 with security enabled); "
                         "stdout fault injection; histories [discarded frame, forwarded frame] per configuration, mixed "
                         "secured/unsecured loops, Location-Service histories (reply PV age at the itsGnLifetimeLocTE "
                         "boundaries), C-V2X radio frames of 0/1/2 octets, all loops under a watchdog; round 6: one well-formed frame per "
                         "packet type (beacon, SHB, TSB, GUC, LS request/reply, GBC and GAC x 3 shapes) built by header layout, x {cut at "
                         "EVERY length inside its headers, own source GN_ADDR, RHL above MHL}, judged by a layout oracle independent "
                         "of the code: discarded without trace, complete frame behind it processed as alone. distinct_nontrivial = distinct (configuration, outcome, length bucket, "
                         "HT/HST) classes, distinct secured-mutant effects, pairs, streams and fault cases")
    check_generated_facts(ctx)
    elog = ExcLog(ctx)
    with rs.VClock(T0) as clock, vtimers():
        corp = [bytes.fromhex(c["frame"]) for _, c in corpus("C04") if "frame" in c]
        import contextlib
        for name, c in corpus("C04"):
            if c.get("kind") in ("pair", "stdout-fault", "mac", "history", "lshist", "cv2x", "mustdiscard"):
                with contextlib.redirect_stdout(io.StringIO()):
                    bad = replay(ctx, {"case": c})
                ctx.evals()
                if c.get("known"):
                    # run-time variant detection of a known finding: does the code still show the witness?
                    ctx.extra.setdefault("known_finding_variant", {})[c["known"]] = "as-is" if bad else "repaired"
                if bad:
                    ctx.violation(f"corpus case {name} reproduces: {c.get('note', '')[:160]}", c, c.get("known"))
        frames = corp + timed(ctx, "generate_frames", all_bad_frames, ctx, clock)
        ctx.cover("corpus_cases", len(corp))
        world = timed(ctx, "pki", SecWorld, clock)
        sec_valid = world.valid_stream()
        sec_mut = timed(ctx, "secured_mutants", secured_mutants, ctx, world, sec_valid)
        sec_frames = dedup([f for _, f in sec_valid] + [f for _, f in sec_mut])
        timed(ctx, "cv2x_boundaries", check_cv2x_boundaries, ctx, clock)
        timed(ctx, "stdout_faults", check_stdout_faults, ctx, clock)
        timed(ctx, "loop_guard", check_loop_guard, ctx, clock)
        timed(ctx, "mac", check_mac, ctx, clock)
        timed(ctx, "header_classes", check_header_classes, ctx, clock)
        timed(ctx, "classify", check_classify, ctx, clock, frames, world, sec_frames, elog)
        timed(ctx, "model_driver", flush_model, ctx)
        timed(ctx, "secured_effect", check_secured_effect, ctx, clock, world, sec_mut, elog)
        base57 = base_frames(clock, n=1, idxs=(5, 7))
        timed(ctx, "pairs", check_pairs, ctx, clock,
              base57 if ctx.thorough else [b for b in base57 if b[0] in ("denm", "cam")][:3], elog)
        timed(ctx, "no_raise", check_no_raise, ctx, clock, frames if ctx.thorough else frames[::3] + corp)
        timed(ctx, "no_raise_secured", check_no_raise, ctx, clock, sec_frames if ctx.thorough else sec_frames[::2], world)
        timed(ctx, "loops", check_loops, ctx, clock, frames, elog)
        sec_bad, sec_auth = timed(ctx, "secured_pool", split_secured_pool, ctx, clock, world, sec_mut)
        timed(ctx, "secured_pairs", check_secured_pairs, ctx, clock, world, sec_valid, sec_auth, elog)
        timed(ctx, "secured_loops", check_secured_loops, ctx, clock, world, sec_bad, frames, elog)
        timed(ctx, "histories", check_histories, ctx, clock, world, sec_valid, sec_mut, frames, elog)
        timed(ctx, "mixed_loops", check_mixed_loops, ctx, clock, world, sec_valid, sec_mut, frames, elog)
        timed(ctx, "ls_histories", check_ls_histories, ctx, clock, frames)
    ctx.extra["exception_classes_observed"] = sorted(elog.seen.values())
    ctx.extra["receive_threads_hung"] = list(HANGS)


def search(ctx):
    """an obligation / the correspondence broke: look for a concrete failing input on the real code (oracle only)"""
    with rs.VClock(T0) as clock, vtimers():
        ok = ctx.model_ok
        ctx.model_ok = False
        try:
            elog = ExcLog(ctx)
            check_cv2x_boundaries(ctx, clock)
            check_stdout_faults(ctx, clock)
            check_loop_guard(ctx, clock)
            if ctx.violations:
                return
            check_header_classes(ctx, clock)
            if ctx.violations:
                return
            bad0 = all_bad_frames(ctx, clock)
            check_ls_histories(ctx, clock, bad0)
            if ctx.violations:
                return
            world0 = SecWorld(clock)
            sv0 = world0.valid_stream()
            sm0 = secured_mutants(ctx, world0, sv0)
            check_histories(ctx, clock, world0, sv0, sm0, bad0, elog)
            if ctx.violations:
                return
            check_mixed_loops(ctx, clock, world0, sv0, sm0, bad0, elog)
            if ctx.violations:
                return
            # multi-step histories first: every mutant that keeps (source, SN) followed by its original, all kinds
            base = base_frames(clock, n=1, idxs=(5, 7))
            check_pairs(ctx, clock, base, elog)
            if ctx.violations:
                return
            frames = all_bad_frames(ctx, clock) + random_frames(ctx) + random_frames(ctx)
            world = SecWorld(clock)
            sec_valid = world.valid_stream()
            sec_mut = secured_mutants(ctx, world, sec_valid)
            check_no_raise(ctx, clock, frames)
            check_no_raise(ctx, clock, [f for _, f in sec_mut], world)
            check_classify(ctx, clock, frames, world, dedup([f for _, f in sec_mut]), elog)
            check_loops(ctx, clock, frames, elog)
            sec_bad, sec_auth = split_secured_pool(ctx, clock, world, sec_mut)
            check_secured_pairs(ctx, clock, world, sec_valid, sec_auth, elog)
            check_secured_loops(ctx, clock, world, sec_bad, frames, elog)
        finally:
            ctx.model_ok = ok


def replay(ctx, obj):
    case = obj.get("case", obj)
    kind = case["kind"]
    with rs.VClock(T0) as clock, vtimers():
        if kind == "history":
            world = replay_world(case, clock) if case.get("ver") else None
            h = History(clock, world)
            disc, same, text = h.case(case.get("sec", 0), case.get("ver", 0), [bytes.fromhex(x) for x in case.get("setup", [])],
                                      [bytes.fromhex(x) for x in case["prefix"]], bytes.fromhex(case["good"]))
            print("prefix discarded without effect:", disc, "| good frame processed as alone:", same, text)
            return disc and not same
        if kind == "mustdiscard":
            viol, text, _ = must_discard_case(clock, [bytes.fromhex(x) for x in case.get("setup", [])],
                                              bytes.fromhex(case["bad"]), bytes.fromhex(case["good"]))
            print(text)
            return viol
        if kind == "mixedloop":
            world = replay_world(case, clock)
            seq = [(t, bytes.fromhex(x)) for t, x in case["stream"]]
            viol, what, _ = mixed_loop_case(clock, world, tuple(case["facilities"]), seq)
            print(what)
            return viol
        if kind == "lshist":
            seq = [(t, bytes.fromhex(x)) for t, x in case["stream"]]
            viol, what, _ = ls_history_case(clock, case["n_requests"], tuple(case["facilities"]), seq)
            print(what)
            return viol
        if kind in ("classify", "indicate", "effect"):
            f = bytes.fromhex(case["frame"])
            world = replay_world(case, clock) if (case.get("ver") or (kind == "indicate" and case.get("sec"))) else None
            if kind == "indicate":
                stn = world.receiver() if world else make_station(clock, ("ca", "den", "vru"), True)
                try:
                    with rs.quiet():
                        stn.gn.gn_data_indicate(f)
                    return False
                except Exception as e:  # noqa: BLE001
                    print("raised", type(e).__name__, e)
                    return True
            pr = Probe(clock, case.get("sec", 0), case.get("ver", 0), world)
            out, exc, discarded, changed, _ = pr.feed(f)
            print(out, "discarded" if discarded else "indicated/sent", "state changed" if changed else "state unchanged")
            if exc is not None and not isinstance(exc, Exception):
                return True
            if out == "secured":
                return discarded and changed and not envelope_parses(f)
            return discarded and changed
        if kind == "pair":
            b, v = bytes.fromhex(case["bad"]), bytes.fromhex(case["good"])
            alone = Probe(clock)
            r_alone = alone.feed(v)
            sent_alone = list(alone.last_sent)
            both = Probe(clock)
            r_b = both.feed(b)
            r_v = both.feed(v)
            same = (r_v[0], type(r_v[1]).__name__, r_v[4]) == (r_alone[0], type(r_alone[1]).__name__, r_alone[4]) \
                and both.state() == alone.state() and both.last_sent == sent_alone
            print("bad:", r_b[0], "discarded" if r_b[2] else "indicated", "| good after bad:", r_v[0], len(r_v[4]),
                  "deliveries | good alone:", r_alone[0], len(r_alone[4]), "deliveries | same:", same)
            if r_b[2]:
                return r_b[3] or not same
            return r_b[1] is not None and r_v[4] != r_alone[4]
        if kind == "secpair":
            world = replay_world(case, clock)
            b, v = bytes.fromhex(case["bad"]), bytes.fromhex(case["good"])
            alone = Probe(clock, 1, 1, world)
            r_alone = alone.feed(v)
            both = Probe(clock, 1, 1, world)
            r_b = both.feed(b)
            r_v = both.feed(v)
            print("bad:", r_b[0], "discarded" if r_b[2] else "passed on", "| good after bad:", len(r_v[4]),
                  "deliveries | good alone:", len(r_alone[4]))
            if r_b[2]:
                return r_b[3] and both.state()[0] != alone.state()[0]
            return r_b[1] is not None and r_v[4] != r_alone[4]
        if kind == "loop":
            seq = [(t, bytes.fromhex(x)) for t, x in case["stream"]]
            fac, ldm = tuple(case["facilities"]), case["ldm"]
            alive0, per0, _, stn0 = run_raw_loop(clock, [eth(x) for t, x in seq if t == "v"], fac, ldm)
            alive1, per1, err1, stn1 = run_raw_loop(clock, [eth(x) for _, x in seq], fac, ldm)
            got = [d for (t, _), d in zip(seq, per1) if t == "v"]
            valid_mid = {gn_source(x).hex()[-12:] for t, x in seq if t == "v" and gn_source(x)}
            same_loct = restrict(loct_snapshot(stn1.gn), valid_mid) == restrict(loct_snapshot(stn0.gn), valid_mid)
            print("alive", alive1, err1, "same deliveries", got == per0, "same LocT of valid sources", same_loct)
            return (not alive1) or got != per0 or not same_loct
        if kind == "secloop":
            world = replay_world(case, clock)
            seq = [(t, bytes.fromhex(x)) for t, x in case["stream"]]
            fac = tuple(case["facilities"])
            alive0, per0, _, stn0 = run_raw_loop(clock, [eth(x) for t, x in seq if t == "v"], fac, False, world)
            alive1, per1, err1, stn1 = run_raw_loop(clock, [eth(x) for _, x in seq], fac, False, world)
            got = [d for (t, _), d in zip(seq, per1) if t == "v"]
            print("alive", alive1, err1, "same deliveries", got == per0)
            return (not alive1) or got != per0
        if kind == "cv2x":
            seq = [(t, bytes.fromhex(x)) for t, x in case["stream"]]
            if not case.get("radio"):            # older replays hold the GN packets
                seq = [(t, b"\x03" + x) for t, x in seq]
            return cv2x_stream_case(ctx, clock, seq, report=False)
        if kind == "loop-guard":
            viol, what = loop_guard_case(clock, case["which"], case["frame"])
            print(what)
            return viol
        if kind == "stdout-fault":
            viol, what = stdout_fault_case(clock, case["which"], case["fault"], case["frame"])
            print(what)
            return viol
        if kind == "mac":
            v = base_frames(clock, n=1, idxs=(5,))[0][1]
            dst, src = bytes.fromhex(case["dst"]), bytes.fromhex(case["src"])
            alive, per, err, _ = run_raw_loop(clock, [eth(v, dst, src)], ("ca", "den", "vru"), False)
            got = 1 if per and per[0] else 0
            exp = 0 if (src == OWN_MAC) or (dst not in (OWN_MAC, BCAST)) else 1
            print("delivered", got, "expected", exp)
            return got != exp
    raise Infra(f"unknown replay kind {kind}")

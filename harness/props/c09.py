"""C09 — Trust store closure and signer authorisation.

Theorems: lean/Props/C09.lean about lean/FlexModel/Sec/{Cert,Store,Verify,Sign}.lean.
Tie: abstraction-based differential correspondence of the model with the REAL CertificateLibrary / Certificate /
OwnCertificate / VerifyService using REAL ECDSA: histories of add-root/add-AA/add-AT/add-own/verify-chain calls and
received messages mixing genuine certificates with forged, re-signed, permission-escalated, wrongly-issued and
expired ones; after every op the four dictionaries (ids + attached issuers, in dict order) and every return value
are compared.  The issuing API (initialize_certificate / issue_certificate / set_chain_length_issue_permissions)
is compared over issuer/subject PSID sets and chain budgets.
Oracle (independent of the repository's verify path: `ecdsa` + own OER coder): every stored AA/AT chains to a
configured root with signatures by the named issuer and permissions contained; an accepted message has its ITS-AID
in the ticket's appPermissions and its generationTime within the validity period; an issued certificate that
verifies has contained permissions and an issuer whose chain budget is >= 1.
"""
from __future__ import annotations

import copy

from common import Infra, corpus
import realstack as rs
import sec_common as sc

from flexstack.security.certificate import Certificate, OwnCertificate

MODULES = ["Props.C09"]
DRIVERS = ["Sec"]
TRUSTED = [
    "modelled rather than verified: ECDSA P-256 / SHA-256 (python `ecdsa`, `hashlib`) as a perfect signature relation "
    "(`sigBy`), the asn1tools OER codec (encode/decode of certificates and signed data)",
    "harness/sec_common.py: abstraction of real certificates/messages to model inputs (field reads + ECDSA public-key "
    "recovery to find the signing key), independent chain checker",
]
ASSUMPTIONS = [
    "HashedId8 is injective on the certificates of a history (theorem hypothesis IdInj); HashedId3 collisions are modelled",
    "configured roots = whatever passed add_root_certificate (configuration API)",
    "validity: start*1e6 <= generationTime <= start*1e6 + duration (us), a year = 31556952 s (IEEE 1609.2)",
]

T0 = 1_700_000_000_000     # virtual clock, ms
UNIVERSE = [36, 37, 638, 99]


# ------------------------------------------------------------------------------------------------ world


class World:
    """a genuine PKI, a second configured root, an attacker PKI and the mis-signed certificates, built once"""

    def __init__(self, rng):
        self.rng = rng
        p = self.pki = sc.PKI()
        now = self.now = sc.its_now_s(T0)
        live = dict(start=now - 1000, duration=("hours", 100))
        self.root = p.root("root", issue=[sc.perm_all(rng.choice([2, 3]))], **live)
        # issuing permissions split over 1-3 explicit groups in random order: the issuing scope is their union
        self.root2 = p.root("root2", issue=sc.split_groups([36, 37], rng, 2), app=[36], **live)
        self.aa1 = p.issue(self.root, "aa1", issue=sc.split_groups([36, 37, 638], rng, 1), **live)
        self.aa2 = p.issue(self.root, "aa2", issue=sc.split_groups([36], rng, 1, with_all=True), app=[36], **live)
        self.aa3 = p.issue(self.root2, "aa3", issue=[sc.perm_explicit([36], 1)], **live)       # no appPermissions
        self.at_a = p.issue(self.aa1, app=[36, 37], **live)
        self.at_b = p.issue(self.aa1, app=[36], **live)
        self.at_x = p.issue(self.aa1, app=[638, 36], **live)           # ITS-AIDs across the issuer's groups
        self.at_y = p.issue(self.aa1, app=[37, 638], **live)
        self.at_c = p.issue(self.aa2, app=[99, 638], **live)
        self.at_d = p.issue(self.aa3, app=[36], **live)
        self.at_r = p.issue(self.root, app=[36, 37], **live)                                    # ticket straight from the root
        self.at_exp = p.issue(self.aa1, app=[36], start=now - 100000, duration=("seconds", 3600))
        self.at_fut = p.issue(self.aa1, app=[36], start=now + 5000, duration=("minutes", 10))
        self.at_refused = p.issue(self.aa1, app=[36, 99], **live)                              # API refuses: stays unsigned
        # an authority whose validity has ended and a live ticket under it (expiry of CA certificates is not checked by
        # the library and not demanded by the property text: exercised, compared with the model, judged by the chain oracle)
        self.aa_exp = p.issue(self.root, "aa-expired", issue=[sc.perm_explicit([36, 37], 1)], start=now - 100000,
                              duration=("seconds", 3600))
        self.at_xaa = p.issue(self.aa_exp, app=[36], **live)
        # validity periods in every other IEEE 1609.2 Duration unit (the receiver converts each with its own factor; the
        # message generator below places generation times at start / end -1, 0, +1 us of the TRUE period): a one-year
        # ticket in its final hour, sixtyHours, and the sub-second units (long expired)
        self.at_yr = p.issue(self.aa1, app=[36], start=now - sc.YEAR_S + 3600, duration=("years", 1))
        self.at_yr3 = p.issue(self.aa1, app=[36, 37], start=now - 2 * sc.YEAR_S, duration=("years", 3))
        self.at_60h = p.issue(self.aa1, app=[36], start=now - 100, duration=("sixtyHours", 1))
        self.at_ms = p.issue(self.aa1, app=[36], start=now - 10, duration=("milliseconds", 500))
        self.at_us = p.issue(self.aa1, app=[36], start=now, duration=("microseconds", 65535))
        # appPermissions entries WITH Service Specific Permissions (authorisation is by ITS-AID)
        self.at_ssp = p.issue(self.aa1, app=[{"psid": 36, "ssp": ("bitmapSsp", b"\x01\xff\xfc")},
                                             {"psid": 37, "ssp": ("opaque", b"\x01\x02")}, {"psid": 638}], **live)
        units = [self.at_yr, self.at_yr3, self.at_60h, self.at_ms, self.at_us, self.at_ssp]
        # attacker PKI
        self.eroot = p.root("evil-root", issue=[sc.perm_all(3)], **live)
        self.eaa = p.issue(self.eroot, "evil-aa", issue=[sc.perm_all(1)], **live)
        self.eat = p.issue(self.eaa, app=[36, 37], **live)
        own = [self.at_a, self.at_b, self.at_x, self.at_y, self.at_c, self.at_d, self.at_r, self.at_exp, self.at_fut, self.eat,
               self.at_xaa] + units
        self.units = units
        self.honest = [self.aa1, self.aa2, self.aa3, self.at_a, self.at_b, self.at_x, self.at_y, self.at_c, self.at_d,
                       self.at_r, self.at_exp, self.at_fut, self.aa_exp, self.at_xaa] + units
        self.signers = own                      # tickets whose private key the harness holds
        aa1d = ("sha256AndDigest", self.aa1.as_hashedid8())
        raw = []

        def mk(tbs_kw, issuer_field, signer_key, attached, typ="explicit"):
            d, k = p.blank(sc.tbs(**tbs_kw), issuer_field)
            d["type"] = typ
            c = p.raw(signer_key, d, attached, own_key_id=k)
            raw.append(c)
            return c
        # forged: names aa1 as issuer, signed by the attacker
        self.forged = mk(dict(app=[36], **live), aa1d, self.eat.key_id, self.aa1)
        # re-signed: genuine ticket body, attacker signature
        self.resigned = p.raw(self.eaa.key_id, self.at_a.certificate, self.aa1, own_key_id=self.at_a.key_id)
        raw.append(self.resigned)
        # wrongly issued by the genuine aa1 key: application permission outside aa1's list
        self.escal = mk(dict(app=[36, 99], **live), aa1d, self.aa1.key_id, self.aa1)
        # wrongly issued sub-CA with the `all` issuing permission under the explicit aa1
        self.suball = mk(dict(name="sub-all", app=[36], issue=[sc.perm_all(5)], **live), aa1d, self.aa1.key_id, self.aa1)
        # wrongly issued sub-CAs whose issuing permissions MIX an explicit group (inside aa1's scope) with an `all` group,
        # in both orders: requesting `all` in ANY group exceeds an explicit issuer
        self.submix1 = mk(dict(name="sub-mix1", issue=[sc.perm_explicit([36], 1), sc.perm_all(1)], **live), aa1d,
                          self.aa1.key_id, self.aa1)
        self.submix2 = mk(dict(name="sub-mix2", app=[36], issue=[sc.perm_all(1), sc.perm_explicit([36], 1)], **live), aa1d,
                          self.aa1.key_id, self.aa1)
        self.at_submix = mk(dict(app=[99], **live), ("sha256AndDigest", self.submix1.as_hashedid8()), self.submix1.key_id,
                            self.submix1)
        # genuine sub-CA under aa1 (explicit subset, no appPermissions) and a ticket below it
        self.subok = mk(dict(name="sub-ok", issue=[sc.perm_explicit([36], 1)], **live), aa1d, self.aa1.key_id, self.aa1)
        self.at_sub = mk(dict(app=[36], **live), ("sha256AndDigest", self.subok.as_hashedid8()), self.subok.key_id, self.subok)
        self.at_suball = mk(dict(app=[99], **live), ("sha256AndDigest", self.suball.as_hashedid8()), self.suball.key_id, self.suball)
        # AA "issued" by a ticket
        self.aa_by_at = mk(dict(name="aa-by-at", issue=[sc.perm_explicit([36], 1)], app=[36], **live),
                           ("sha256AndDigest", self.at_a.as_hashedid8()), self.at_a.key_id, self.at_a)
        # issuer hash names aa1 but the signature is aa2's (and aa2 attached)
        self.wrongiss = mk(dict(app=[36], **live), aa1d, self.aa2.key_id, self.aa2)
        # implicit type with a verification key; sha384 issuer; self-signed with sha384
        self.implicit = mk(dict(app=[36], **live), aa1d, self.aa1.key_id, self.aa1, typ="implicit")
        self.sha384 = mk(dict(app=[36], **live), ("sha384AndDigest", b"\x07" * 48), self.aa1.key_id, self.aa1)
        self.selfx = mk(dict(name="self384", issue=[sc.perm_all(2)], **live), ("self", "sha384"), self.eroot.key_id, None)
        # empty appPermissions list
        self.emptyapp = mk(dict(app=[], **live), aa1d, self.aa1.key_id, self.aa1)
        self.raw = raw
        self.cas = [self.root, self.root2, self.aa1, self.aa2, self.aa3, self.eroot, self.eaa, self.subok, self.suball,
                    self.aa_exp, self.submix1, self.submix2]
        self.objs = [self.root, self.root2, self.aa1, self.aa2, self.aa3, self.eroot, self.eaa, self.aa_exp] + own + [self.at_refused] + raw
        self.A = sc.Abs()
        self.A.register_backend(p.backend)
        for o in self.objs:
            self.A.cert(o.certificate)

    def variant(self, obj):
        """the object as it is, or re-attached to None / to a different issuer object"""
        r = self.rng.random()
        if r < 0.7:
            return obj
        att = None if r < 0.82 else self.rng.choice(self.cas)
        return Certificate(certificate=obj.certificate, issuer=att)

    def pick(self, pool=None):
        return self.variant(self.rng.choice(pool or self.objs))


def honest_world(ctx, w):
    """every honest certificate obtained from the issuing API (permissions inside the UNION of the issuer's groups)
    must come back signed and chain to its root -- judged by the independent chain checker"""
    roots = {sc.hid8(r.certificate): r.certificate for r in (w.root, w.root2)}
    cas = {sc.hid8(a.certificate): a.certificate for a in (w.aa1, w.aa2, w.aa3, w.aa_exp)}
    for c in w.honest:
        ok, why = sc.chain_ok(c.certificate, roots, cas)
        ctx.evals()
        if not ok or not c.verify(w.pki.backend):
            iss = roots.get(bytes(c.certificate["issuer"][1])) or cas.get(bytes(c.certificate["issuer"][1]))
            ctx.violation(f"issuing API / Certificate.verify refuse an honest certificate whose permissions "
                          f"{c.certificate['toBeSigned'].get('appPermissions')} lie within its issuer's groups "
                          f"{iss['toBeSigned'].get('certIssuePermissions') if iss else None} ({why})",
                          {"witness": "groups"})


def att_tok(A, obj):
    return str(A.cert(obj.issuer.certificate)) if obj.issuer is not None else "-"


# ------------------------------------------------------------------------------------------------ oracle


def oracle_store(ctx, lib, offered_roots, what, case):
    """closure of the REAL dictionaries, judged by the independent chain checker"""
    roots = {h: c.certificate for h, c in lib.known_root_certificates.items()}
    cas = {h: c.certificate for h, c in lib.known_authorization_authorities.items()}
    for h in roots:
        if h not in offered_roots:
            ctx.violation(f"{what}: root dictionary holds a certificate never offered through add_root", case)
    for name, dct in (("AA", lib.known_authorization_authorities), ("AT", lib.known_authorization_tickets)):
        for h, c in dct.items():
            ok, why = sc.chain_ok(c.certificate, roots, cas)
            if not ok:
                fid = None
                ctx.violation(f"{what}: stored {name} {h.hex()} does not chain to a configured root ({why})", case, fid)
                return False
            if sc.hid8(c.certificate) != h:
                ctx.violation(f"{what}: dictionary key differs from the certificate's HashedId8", case)
                return False
    return True


def oracle_accept(ctx, lib, conf, sd, what, case):
    """a SUCCESS confirm: ITS-AID among the ticket's appPermissions, generationTime within validity, ticket chained"""
    at = lib.known_authorization_tickets.get(conf.certificate_id)
    if at is None:
        ctx.violation(f"{what}: accepted under a ticket that is not in the store", case)
        return
    hi = sd["tbsData"]["headerInfo"]
    app = [e["psid"] for e in at.certificate["toBeSigned"].get("appPermissions", [])]
    if hi["psid"] not in app:
        ctx.violation(f"{what}: accepted message with ITS-AID {hi['psid']} outside the ticket's appPermissions {app}", case)
    lo, hi_us = sc.validity_us(at.certificate)
    gt = hi.get("generationTime")
    if gt is None or gt < lo or gt > hi_us:
        ctx.violation(f"{what}: accepted message with generationTime {gt} outside the ticket's validity [{lo},{hi_us}]", case)


# ------------------------------------------------------------------------------------------------ histories


def gen_time(rng, w, at_obj):
    lo, hi = sc.validity_us(at_obj.certificate)
    return rng.choice([lo - 1, lo, lo + 1, hi - 1, hi, hi + 1, (lo + hi) // 2, max(0, lo - 10**9), hi + 10**9,
                       (w.now + 5) * 10**6, (w.now + 5) * 10**6 + rng.randrange(10**6)])


def gen_history(ctx, w, n_ops):
    """list of op descriptors (pure data + object references)"""
    rng = ctx.rng
    ops = []
    roots = [r for r in (w.root, w.root2, w.eroot) if rng.random() < (0.75 if r is not w.eroot else 0.08)]
    aas = [a for a in (w.aa1, w.aa2, w.aa3) if rng.random() < 0.65]
    ats = [a for a in (w.at_a, w.at_c) if rng.random() < 0.2]
    ops.append(("new", roots, aas, ats))
    genuine_chain = [(w.at_a, w.aa1, w.root), (w.at_b, w.aa1, w.root), (w.at_x, w.aa1, w.root), (w.at_y, w.aa1, w.root), (w.at_c, w.aa2, w.root), (w.at_d, w.aa3, w.root2),
                     (w.eat, w.eaa, w.eroot), (w.at_sub, w.subok, w.aa1), (w.escal, w.aa1, w.root),
                     (w.suball, w.aa1, w.root), (w.at_exp, w.aa1, w.root), (w.forged, w.aa1, w.root),
                     (w.at_xaa, w.aa_exp, w.root), (w.submix1, w.aa1, w.root), (w.submix2, w.aa1, w.root),
                     (w.at_submix, w.submix1, w.aa1)]
    for _ in range(n_ops):
        r = rng.random()
        if r < 0.07:
            ops.append(("addroot", w.pick([w.root, w.root2, w.eroot, w.aa1, w.selfx, w.eaa, w.at_a] if rng.random() < 0.8 else None)))
        elif r < 0.27:
            ops.append(("addaa", w.pick(w.cas + [w.aa_by_at, w.at_a, w.sha384] if rng.random() < 0.8 else None)))
        elif r < 0.47:
            ops.append(("addat", w.pick()))
        elif r < 0.52:
            ops.append(("addown", w.pick(w.signers + [w.forged, w.sha384, w.aa1])))
        elif r < 0.72:
            k = rng.choice([0, 1, 1, 1, 2, 2, 2, 3, 3, 4])
            if rng.random() < 0.7 and 1 <= k <= 3:
                ch = list(rng.choice(genuine_chain))[:k]
                if rng.random() < 0.2:
                    ch[rng.randrange(len(ch))] = rng.choice(w.objs)
            else:
                ch = [rng.choice(w.objs) for _ in range(k)]
            ops.append(("vseq", [c.certificate for c in ch]))
        else:
            r2 = rng.random()
            if r2 < 0.5:
                at = rng.choice([w.at_a, w.at_b, w.at_x, w.at_y, w.at_c, w.at_r])
            elif r2 < 0.65:
                at = rng.choice(w.units)
            else:
                at = rng.choice(w.signers + [w.forged, w.escal, w.at_sub, w.emptyapp, w.at_suball])
            own_app = [e["psid"] for e in at.certificate["toBeSigned"].get("appPermissions", [])] or UNIVERSE
            psid = rng.choice(own_app) if rng.random() < 0.6 else rng.choice(UNIVERSE + [36, 36, 37])
            gt = (w.now + 5) * 10**6 + rng.randrange(10**6) if rng.random() < (0.45 if at not in w.units else 0.2) else gen_time(rng, w, at)
            hi = {"psid": psid, "generationTime": gt}
            if psid == 37 and rng.random() < 0.8:
                hi["generationLocation"] = {"latitude": 415000000, "longitude": 21000000, "elevation": 0xF000}
            kind = rng.choice(["digest", "cert", "cert", "cert", "cert", "cert2"] if psid != 37 else ["cert", "cert", "cert", "digest"])
            if kind == "digest":
                signer = ("digest", at.as_hashedid8())
            elif kind == "cert":
                signer = ("certificate", [at.certificate])
            else:
                signer = ("certificate", [at.certificate, w.aa1.certificate])
            key = at.key_id if rng.random() < 0.9 else w.eat.key_id
            ops.append(("msg", sc.make_signed(w.pki.backend, key, hi, bytes([rng.randrange(256)]) * 3, signer)))
    return ops


def run_history(ctx, w, ops, case_id):
    """executes `ops` on the real classes; returns (model lines, real lines); oracle judged along the way"""
    A = w.A
    lines, reals = ["reset"] + A.all_lines(), []
    reals += ["ok"] * len(lines)
    st = None
    offered = set()
    for i, op in enumerate(ops):
        kind = op[0]
        case = {"kind": "history", "id": case_id, "upto": i}
        if kind == "new":
            _, roots, aas, ats = op
            st = sc.RealStation(w.pki.backend, roots, aas, ats)
            offered |= {r.as_hashedid8() for r in roots}
            ls = sc.new_station_lines(A, 1, roots, aas, ats)
            lines += ls
            reals += [None] * (len(ls) - 1) + (["ok " + A.dump_store(st.lib)] if len(ls) > 1 else [None])
        elif kind in ("addroot", "addaa", "addat", "addown"):
            obj = op[1]
            fn = {"addroot": st.lib.add_root_certificate, "addaa": st.lib.add_authorization_authority,
                  "addat": st.lib.add_authorization_ticket, "addown": st.lib.add_own_certificate}[kind]
            if kind == "addroot":
                offered.add(obj.as_hashedid8())
            lines.append(f"{kind} 1 {A.cert(obj.certificate)} {att_tok(A, obj)}")
            try:
                fn(obj)
                reals.append("ok " + A.dump_store(st.lib))
            except Exception as e:  # noqa: BLE001
                reals.append(f"err:{type(e).__name__} " + A.dump_store(st.lib))
            ctx.cover("op_" + kind)
        elif kind == "vseq":
            dicts = op[1]
            lines.append("vseq 1 " + (",".join(str(A.cert(d)) for d in dicts) or "-"))
            try:
                r = st.lib.verify_sequence_of_certificates(dicts, w.pki.backend)
                reals.append(f"ret:{A.obj(r)} " + A.dump_store(st.lib))
                ctx.cover(f"vseq_len{len(dicts)}_{'hit' if r is not None else 'none'}")
            except Exception as e:  # noqa: BLE001
                reals.append(f"err:{type(e).__name__} " + A.dump_store(st.lib))
                ctx.cover("vseq_raise_" + type(e).__name__)
        elif kind == "msg":
            data = op[1]
            dec = sc.decode_signed(data)
            real_line, conf = sc.verify_line(A, st, data)
            lines.append("verify 1 " + sc.abs_msg(A, *dec))
            reals.append(real_line)
            if not isinstance(conf, Exception):
                ctx.cover("report_" + conf.report.name)
                if conf.report.value == 0:
                    oracle_accept(ctx, st.lib, conf, dec[0], "message verify", case)
            else:
                ctx.cover("verify_raise_" + type(conf).__name__)
        ctx.evals()
        if not oracle_store(ctx, st.lib, offered, kind, case):
            break

    return lines, reals


def play(ctx, w, ops, case_id):
    # certificates first seen while running get their definition lines appended BEFORE use: run twice is wasteful,
    # so all dicts of the ops are abstracted up front
    for op in ops:
        if op[0] == "vseq":
            for d in op[1]:
                w.A.cert(d)
        elif op[0] == "msg":
            dec = sc.decode_signed(op[1])
            if dec:
                sc.abs_msg(w.A, *dec)
        elif op[0] in ("addroot", "addaa", "addat", "addown"):
            w.A.cert(op[1].certificate)
            if op[1].issuer is not None:
                w.A.cert(op[1].issuer.certificate)
    w.A.take_lines()
    return run_history(ctx, w, ops, case_id)


def compare(ctx, stream, batches):
    """batches: list of (id, lines, reals); one driver call for all"""
    if not ctx.model_ok:
        return
    all_lines = [l for _, ls, _ in batches for l in ls]
    out = ctx.model("Sec", all_lines)
    pos = 0
    for cid, ls, reals in batches:
        for j, (l, r) in enumerate(zip(ls, reals)):
            mo = out[pos + j]
            if r is not None and mo != r:
                ctx.mismatch(stream, {"history": cid, "line": l}, r, mo)
                break
        pos += len(ls)


def check_histories(ctx, w, n_hist, n_ops, tag):
    batches = []
    for h in range(n_hist):
        ops = gen_history(ctx, w, n_ops)
        lines, reals = play(ctx, w, ops, f"{tag}{h}")
        batches.append((f"{tag}{h}", lines, reals))
        ctx.nontrivial(tuple(l for l in lines if not l.startswith("cert ")))
    compare(ctx, "library", batches)
    if batches:
        ctx.sample("history", {"ops": [l for l in batches[0][1] if not l.startswith("cert ")][:8], "real": [r for r in batches[0][2] if r and r != "ok"][:4]})


# ------------------------------------------------------------------------------------------------ issuing API


def check_issuing(ctx, n):
    rng = ctx.rng
    p = sc.PKI()
    now = sc.its_now_s(T0)
    live = dict(start=now - 1000, duration=("hours", 100))

    def rand_issue(allow_none=True):
        r = rng.random()
        if allow_none and r < 0.3:
            return None
        perms = []
        for _ in range(rng.choice([1, 1, 2, 2, 3])):
            ch = rng.choice([0, 1, 1, 2, 2, 3])
            if rng.random() < 0.35:
                perms.append(sc.perm_all(ch))
            else:
                perms.append(sc.perm_explicit(rng.sample(UNIVERSE, rng.randrange(0, 4)), ch))
        return perms

    def rand_app(allow_none):
        r = rng.random()
        if allow_none and r < 0.25:
            return None
        return rng.sample(UNIVERSE, rng.randrange(0 if allow_none else 1, 4))
    issuers = []
    for _ in range(max(4, n // 12)):
        isu = rand_issue(allow_none=False)
        d, k = p.blank(sc.tbs("ca", app=rand_app(True), issue=isu, **live), ("self", "sha256"))
        issuers.append(p.raw(k, d, None, own_key_id=k))        # self-signed root with arbitrary budgets (incl. 0)
    # second-level issuers obtained through the API
    for i in list(issuers):
        try:
            c = OwnCertificate.initialize_certificate(p.backend, sc.tbs("sub", app=rand_app(True), issue=rand_issue(False), **live), i)
            if c.verify(p.backend):
                issuers.append(c)
        except Exception:  # noqa: BLE001
            pass
    A = sc.Abs()
    lines, reals, cases = [], [], []
    for t in range(n):
        i = rng.choice(issuers)
        app, isu = rand_app(True), rand_issue(True)
        if app is None and isu is None:
            app = [36]
        t_sub = sc.tbs(None if isu is None else "x", app=app, issue=isu, **live)
        api = rng.choice(["init", "issue", "setchain"])
        A.register_backend(p.backend)
        ni = A.cert(i.certificate)
        blank, bk = p.blank(t_sub, ("sha256AndDigest", b"\x00" * 8))
        blank["signature"] = ("ecdsaNistP256Signature", {"rSig": ("fill", None), "sSig": b"\x00" * 32})
        nb = A.cert(blank)
        case = {"kind": "issuing", "api": api, "issuer_issue": copy.deepcopy(i.certificate["toBeSigned"].get("certIssuePermissions")),
                "app": app, "issue": isu}
        try:
            if api == "init":
                res = OwnCertificate.initialize_certificate(p.backend, t_sub, i)
                lines.append(f"initcert {ni} 1 {nb} 0")
            elif api == "issue":
                res = i.issue_certificate(p.backend, Certificate(certificate=blank, issuer=None))
                lines.append(f"issue {ni} {nb} 0")
            else:
                res = Certificate(certificate=blank, issuer=None).set_chain_length_issue_permissions(i)
                lines.append(f"setchain {nb} {ni}")
            A.register_backend(p.backend)
            nr = A.cert(res.certificate)
            f = A.certs[sc.CODER.encode_etsi_ts_103097_certificate(res.certificate)][1].split()
            if api == "setchain":
                reals.append(f[11])
            else:
                reals.append(f"issuer:{f[3]} issue:{f[11]} sigBy:{f[15]}")
                oracle_issued(ctx, p, i, res, case)
            ctx.cover("issuing_" + api + ("_signed" if api != "setchain" and f[15] != "-" else ""))
        except Exception as e:  # noqa: BLE001
            reals.append(f"err:{type(e).__name__}")
            ctx.cover("issuing_raise_" + type(e).__name__)
        cases.append(case)
        ctx.evals()
        ctx.nontrivial(("issuing", api, str(case["issuer_issue"]), str(app), str(isu)))
    if ctx.model_ok:
        defs = A.all_lines()
        out = ctx.model("Sec", ["reset"] + defs + lines)[1 + len(defs):]
        for l, r, mo, case in zip(lines, reals, out, cases):
            if r != mo:
                ctx.mismatch("issuing", {"line": l, **case}, r, mo)
    if cases:
        ctx.sample("issuing", {"case": cases[0], "real": reals[0]})


def oracle_issued(ctx, p, issuer, res, case):
    """issued certificate verifies under its issuer only if permissions contained and the issuer's budget allows it"""
    d = res.certificate
    if d["issuer"][0] != "sha256AndDigest" or bytes(d["issuer"][1]) != issuer.as_hashedid8():
        return
    if not sc.sig_ok(sc.vk_of(issuer.certificate), sc.CODER.encode_ToBeSignedCertificate(d["toBeSigned"]), d["signature"]):
        return
    if not sc.perms_within(d, issuer.certificate):
        ctx.violation("issuing API produced a certificate that verifies under its issuer with permissions exceeding the issuer's", case)
    budget = [q["minChainLength"] for q in issuer.certificate["toBeSigned"].get("certIssuePermissions", [])]
    if any(b < 1 for b in budget):
        ctx.violation(f"issuing API issued under an issuer whose chain budget is exhausted {budget}", case)
    al, _ = sc.issuing_scope(issuer.certificate)
    for q in d["toBeSigned"].get("certIssuePermissions", []):
        if q["minChainLength"] < 1 or q["minChainLength"] > max(budget, default=0) - 1:
            ctx.violation(f"issued certificate has chain budget {q['minChainLength']} not below its issuer's {budget}", case)


# ------------------------------------------------------------------------------------------------ witnesses / corpus


def witness(kind):
    """the four repaired defects as self-contained cases on the REAL code; returns list of violation strings"""
    bad = []
    with rs.VClock(T0):
        p = sc.PKI()
        now = sc.its_now_s(T0)
        live = dict(start=now - 1000, duration=("hours", 100))
        root = p.root("root", **live)
        aa = p.issue(root, "aa", issue=[sc.perm_explicit([36, 37], 1)], **live)
        at = p.issue(aa, app=[36], **live)
        st = sc.RealStation(p.backend, [root], [aa], [])
        gt = (now + 5) * 10**6
        if kind == "psid":
            m = sc.make_signed(p.backend, at.key_id, {"psid": 99, "generationTime": gt}, b"abc", ("certificate", [at.certificate]))
            if st.verify(m).report.value == 0:
                bad.append("message with ITS-AID 99 accepted under a ticket whose appPermissions are [36]")
        elif kind == "time":
            for t in (gt + 101 * 3600 * 10**6, (now - 2000) * 10**6):
                m = sc.make_signed(p.backend, at.key_id, {"psid": 36, "generationTime": t}, b"abc", ("certificate", [at.certificate]))
                if st.verify(m).report.value == 0:
                    bad.append(f"message with generationTime {t} outside the ticket's validity accepted")
        elif kind == "allperm":
            d, k = p.blank(sc.tbs("sub", app=[36], issue=[sc.perm_all(5)], **live), ("sha256AndDigest", aa.as_hashedid8()))
            sub = p.raw(aa.key_id, d, aa)
            st.lib.add_authorization_authority(sub)
            if sub.as_hashedid8() in st.lib.known_authorization_authorities:
                bad.append("sub-CA with the `all` issuing permission stored under an issuer limited to [36,37]")
        elif kind == "noapp":
            root2 = p.root("root2", issue=[sc.perm_explicit([36], 2)], **live)
            st2 = sc.RealStation(p.backend, [root2], [], [])
            d, k = p.blank(sc.tbs("aa-noapp", issue=[sc.perm_explicit([36], 1)], **live), ("sha256AndDigest", root2.as_hashedid8()))
            a2 = p.raw(root2.key_id, d, root2)
            try:
                st2.lib.add_authorization_authority(a2)
                if a2.as_hashedid8() not in st2.lib.known_authorization_authorities:
                    bad.append("genuine AA without appPermissions under an explicit root not admitted")
            except KeyError as e:
                bad.append(f"genuine AA without appPermissions under an explicit root raises KeyError({e})")
        elif kind == "groups":
            aa2 = p.issue(root, "aa-groups", issue=[sc.perm_explicit([36, 37], 1), sc.perm_explicit([638], 1)], **live)
            for app in ([36, 638], [36], [638]):
                t = p.issue(aa2, app=app, **live)
                ok, why = sc.chain_ok(t.certificate, {sc.hid8(root.certificate): root.certificate},
                                      {sc.hid8(aa2.certificate): aa2.certificate})
                if not ok or not t.verify(p.backend):
                    bad.append(f"honest ticket for {app} under an AA with groups {{36,37}},{{638}} refused ({why})")
                else:
                    st2 = sc.RealStation(p.backend, [root], [aa2], [])
                    m = sc.make_signed(p.backend, t.key_id, {"psid": app[0], "generationTime": gt}, b"abc", ("certificate", [t.certificate]))
                    if st2.verify(m).report.value != 0:
                        bad.append(f"message of the honest ticket for {app} rejected")
        elif kind == "mixall":
            # sub-CA whose issuing permissions mix an explicit group with an `all` group (both orders) under an AA limited
            # to {36,37}: requesting `all` in ANY group exceeds the issuer
            for groups in ([sc.perm_explicit([36], 1), sc.perm_all(1)], [sc.perm_all(1), sc.perm_explicit([36], 1)]):
                d, k = p.blank(sc.tbs("sub-mix", issue=groups, **live), ("sha256AndDigest", aa.as_hashedid8()))
                sub = p.raw(aa.key_id, d, aa)
                if sub.verify(p.backend):
                    bad.append(f"Certificate.verify accepts a sub-CA with issuing permissions {[g['subjectPermissions'][0] for g in groups]} "
                               "under an issuer limited to [36,37]")
                st.lib.add_authorization_authority(sub)
                if sub.as_hashedid8() in st.lib.known_authorization_authorities:
                    bad.append(f"sub-CA with issuing permissions {[g['subjectPermissions'][0] for g in groups]} stored as trusted AA "
                               "under an issuer limited to [36,37]")
        elif kind == "emptyapp":
            # a ticket whose appPermissions list is present but EMPTY authorises nothing
            t0_ = p.issue(aa, app=[], **live)
            for psid in (36, 37, 638, 0):
                hi = {"psid": psid, "generationTime": gt}
                if psid == 37:
                    hi["generationLocation"] = {"latitude": 415000000, "longitude": 21000000, "elevation": 0xF000}
                m = sc.make_signed(p.backend, t0_.key_id, hi, b"abc", ("certificate", [t0_.certificate]))
                try:
                    if st.verify(m).report.value == 0:
                        bad.append(f"message with ITS-AID {psid} accepted under a ticket whose appPermissions are []")
                except Exception:  # noqa: BLE001 - raising is not accepting
                    pass
        elif kind == "time_after_accept":
            # histories on ONE VerifyService: an in-validity message of a ticket first (accepted: whatever the service
            # remembers about the ticket now), then messages of the SAME ticket generated outside its validity --
            # digest and certificate signer, before start / 1 us after end / a day after
            lo, hi_us = sc.validity_us(at.certificate)
            for first in (("certificate", [at.certificate]), None):
                st1 = sc.RealStation(p.backend, [root], [aa], [] if first else [at])
                m0 = sc.make_signed(p.backend, at.key_id, {"psid": 36, "generationTime": gt}, b"in", first or ("digest", at.as_hashedid8()))
                if st1.verify(m0).report.value != 0:
                    continue          # not this clause (C05)
                for t in (lo - 1, hi_us + 1, hi_us + 86400 * 10**6, max(0, lo - 10**12)):
                    for signer in (("digest", at.as_hashedid8()), ("certificate", [at.certificate])):
                        m = sc.make_signed(p.backend, at.key_id, {"psid": 36, "generationTime": t}, b"out", signer)
                        if st1.verify(m).report.value == 0:
                            bad.append(f"after one in-validity message of the ticket, its message with generationTime {t} outside "
                                       f"the validity [{lo},{hi_us}] ({signer[0]} signer) is accepted")
        elif kind == "units":
            # one ticket per IEEE 1609.2 Duration unit: 1 us before the start and 1 us after the end of the TRUE period
            # (a year = 31556952 s) are outside
            for unit, cnt in (("microseconds", 65535), ("milliseconds", 500), ("seconds", 7200), ("minutes", 90), ("hours", 5),
                              ("sixtyHours", 2), ("years", 1), ("years", 3)):
                t_ = p.issue(aa, app=[36], start=now - 50, duration=(unit, cnt))
                lo, hi_us = sc.validity_us(t_.certificate)
                for t in (lo - 1, hi_us + 1):
                    m = sc.make_signed(p.backend, t_.key_id, {"psid": 36, "generationTime": t}, b"abc", ("certificate", [t_.certificate]))
                    if st.verify(m).report.value == 0:
                        bad.append(f"message with generationTime {t} accepted under a ticket valid [{lo},{hi_us}] ({cnt} {unit})")
        elif kind == "foreignatt":
            # a ticket NAMING the trusted AA as issuer, signed by an attacker CA, offered with that CA attached
            eroot = p.root("evil-root", **live)
            eaa = p.issue(eroot, "evil-aa", issue=[sc.perm_all(1)], **live)
            d, k = p.blank(sc.tbs(app=[36], **live), ("sha256AndDigest", aa.as_hashedid8()))
            forged = p.raw(eaa.key_id, d, eaa, own_key_id=k)
            for name, fn, dct in (("add_authorization_ticket", st.lib.add_authorization_ticket, st.lib.known_authorization_tickets),
                                  ("add_own_certificate", st.lib.add_own_certificate, st.lib.own_certificates)):
                fn(forged)
                if forged.as_hashedid8() in dct:
                    bad.append(f"{name} stores a ticket that names the trusted AA but is signed by (and attached to) a foreign CA")
            d2, k2 = p.blank(sc.tbs("fake-aa", issue=[sc.perm_explicit([36], 1)], **live), ("sha256AndDigest", root.as_hashedid8()))
            fake_aa = p.raw(eroot.key_id, d2, eroot)
            st.lib.add_authorization_authority(fake_aa)
            if fake_aa.as_hashedid8() in st.lib.known_authorization_authorities:
                bad.append("add_authorization_authority stores an AA that names the trusted root but is signed by a foreign root")
            m = sc.make_signed(p.backend, k, {"psid": 36, "generationTime": gt}, b"abc", ("digest", forged.as_hashedid8()))
            if st.verify(m).report.value == 0:
                bad.append("message signed with the forged ticket accepted")
        else:
            raise Infra(f"unknown witness {kind}")
    return bad


def run(ctx):
    ctx.extra["rule"] = ("histories of <=25 library ops (add_root/aa/at/own, verify_sequence 0-4 certificates, received messages) "
                         "over a world of ~35 genuine/forged/re-signed/escalated/wrongly-issued/expired certificates with real ECDSA; "
                         "issuing-API cases over issuer/subject PSID sets x chain budgets 0..3. distinct_nontrivial counts distinct "
                         "op streams and distinct issuing cases")
    for name, c in corpus("C09"):
        for b in witness(c["witness"]) if "witness" in c else []:
            ctx.violation(f"{name}: {b}", c)
        ctx.cover("corpus_cases")
    with rs.VClock(T0), rs.quiet():
        worlds = ctx.scale(1, 6)
        per = ctx.scale(130, 500)
        for wi in range(worlds):
            try:
                w = World(ctx.rng)
            except Exception as e:  # noqa: BLE001 - the honest PKI is built through the repository's issuing API
                ctx.violation(f"building an honest PKI (root -> AA without appPermissions -> ticket) through the issuing API "
                              f"raised {type(e).__name__}: {e}", {"witness": "noapp"})
                break
            honest_world(ctx, w)
            check_histories(ctx, w, per, 25, f"w{wi}h")
        check_issuing(ctx, ctx.scale(300, 5000))


def search(ctx):
    ok = ctx.model_ok
    ctx.model_ok = False
    try:
        with rs.VClock(T0), rs.quiet():
            for wi in range(3):
                w = World(ctx.rng)
                check_histories(ctx, w, ctx.scale(130, 400), 25, f"s{wi}h")
            check_issuing(ctx, ctx.scale(900, 6000))
    finally:
        ctx.model_ok = ok


def replay(ctx, obj):
    case = obj.get("case", obj)
    if "witness" in case:
        bad = witness(case["witness"])
        print(bad or "ok")
        return bool(bad)
    if case.get("kind") == "history":
        # histories are regenerated from the seed recorded in the replay file
        import random
        seed = obj.get("seed", 1)
        ctx.rng = random.Random(seed * 1000003 + 9)
        ctx.tier = obj.get("tier", "quick")
        ctx.model_ok = False
        run(ctx)
        for v in ctx.violations:
            print(v["what"])
        return bool(ctx.violations)
    if case.get("kind") == "issuing":
        import random
        ctx.rng = random.Random(obj.get("seed", 1) * 1000003 + 9)
        ctx.model_ok = False
        with rs.VClock(T0), rs.quiet():
            check_issuing(ctx, 900)
        for v in ctx.violations:
            print(v["what"])
        return bool(ctx.violations)
    raise Infra("unknown replay kind")

"""C06 — Multi-hop packets: at-most-once delivery and forwarding, shrinking hop budget, CBF cancellation, termination.

Theorems: lean/Props/C06.lean about lean/FlexModel/Geo/{Router,LocT}.lean.
Tie: real encoded frames (TSB, GBC, GAC, GUC, LS request, LS reply, plus SHB/beacons for neighbour state) are fed to the
receive handlers of real Routers under a virtual clock with virtual CBF timers whose expiry the harness triggers; the
action log of every operation (link-layer sends decoded again, indications, timers armed/cancelled) is compared with the
Lean model run on the same decoded packets.  Geometry, PDR gate, greedy outcome and CBF timeout enter the model as
opaque inputs recorded from the real run.  Small line/mesh topologies of 3-5 real routers share an in-memory ether.
Oracle: `StationOracle` (per (SO,SN) window bookkeeping independent of the code, byte-diff of every forwarded copy
against its cause, RHL rules, CBF rule) and a global transmission bound for the topologies.

Round 4: stations WITH a verify service (real PKI, real ECDSA, `sec_common`).  Histories mix unsecured frames with secured
ones (Basic Header NH = 2 + EtsiTs103097Data-Signed around common header + extended header + payload: signer digest /
certificate, false signature, unknown signer, undecodable), with processing aborted AFTER verification (hop limit > MHL,
indication callback raising), on two persistent receive threads and nested (a reception on another thread while the first
thread sits in its indication callback).  The model side is the wire-level model `RouterSec.lean` (`wcfg / wrx / wfire`);
every forwarded frame - immediate or from the CBF buffer - is byte-compared with the frame that caused it, secured ones
octet for octet behind the RHL.

Round 5: every CBF timer expiry runs on a dedicated timer thread of the station; nothing is read out of the Timer objects
except a finished PDU when they hold one; exceptions raised by the real code are logged and judged.  Two-thread scenarios
(`gen_conc / ConcRun / check_conc`): two link-layer receive threads on one real router under harness/dsched.py, schedules
enumerated at lock-section granularity (<= 1 pre-emption) + PCT, counting oracle; the lock shape of
`LocationTable.refresh_table` (Generated/Locks.lean) is an obligation of Props.C06 (`refresh_table_is_one_section`).

Round 6: (a) CBF buffer under two receive threads - `gen_conc(focus="cbf")`: both threads get copies of one GBC packet, all
schedules with <= 1 pre-emption INSIDE `gn_area_cbf_forwarding` (dsched focus), rule `ConcRun._judge_cbf` (a duplicate handled
after the other thread's "already buffered?" test must drop the copy); obligation `cbf_test_and_insert_is_one_section`.
(b) fault class "the link layer refuses a frame": `lf` option of rx / fire ops - `_LL.send` logs the attempt, then raises
SendingException; followed by copies of the packet (oracle unchanged: at-most-once); obligation `dpl_touched_by_dpd_only`.
"""
from __future__ import annotations

import queue
import re
import threading
import zlib

from common import Infra, corpus
import realstack as rs
import sec_common as sc
from props import c08
from props.c08 import addr_of, addr_int, lpv, spv, frame, mid_of, W, HALF, ITS_EPOCH_MS

from flexstack.geonet.basic_header import BasicHeader
from flexstack.geonet.common_header import CommonHeader
from flexstack.geonet.gn_address import ST
from flexstack.geonet.service_access_point import (HeaderType, TopoBroadcastHST, LocationServiceHST, GNDataRequest,
                                                    PacketTransportType)
from flexstack.geonet.tsb_extended_header import TSBExtendedHeader
from flexstack.geonet.gbc_extended_header import GBCExtendedHeader
from flexstack.geonet.guc_extended_header import GUCExtendedHeader
from flexstack.geonet.ls_extended_header import LSRequestExtendedHeader, LSReplyExtendedHeader
from flexstack.geonet.position_vector import LongPositionVector
from flexstack.geonet.mib import MIB, AreaForwardingAlgorithm, GnSecurity
from flexstack.geonet.router import Router
import flexstack.geonet.router as router_mod
from flexstack.linklayer.exceptions import SendingException

MODULES = ["Props.C06"]
DRIVERS = ["GeoRouter"]
TRUSTED = [
    "modelled rather than verified: geometry (F >= 0 at ego / at the sender, area size), the PDR gate, the outcome of "
    "greedy forwarding and the CBF timeout are opaque inputs of the model, recorded from the real run by wrapping "
    "gn_geometric_function_f, _compute_area_size_m2, gn_greedy_forwarding and the Timer class",
    "decoded-packet level: the wire codecs are covered by C02; here every forwarded frame is decoded with the repository's "
    "decoders and additionally byte-compared with its cause",
    "threading.Timer is replaced by a virtual timer fired by the harness (arbitrary expiry points)",
    "wire level: SN-VERIFY is an opaque input of the model (outcome recorded from the real VerifyService of the station; "
    "the verify path itself is the subject of C09-C12); a secured message is an opaque identity (its octets are "
    "byte-compared by the oracle); the receive context is modelled per receive thread; in the wire-level histories receptions of "
    "different threads are serialised by the harness (one inside the other's indication callback at most)",
    "two receive threads: real threads under the deterministic scheduler harness/dsched.py (scheduler-aware Lock/RLock in "
    "router.py and location_table.py, pre-emption at lock boundaries, lines and shared-state bytecodes); schedules with at "
    "most one pre-emption are enumerated (capped), others sampled (PCT); unsecured stations, frozen clock",
    "regenerated lock shape of LocationTable.refresh_table (harness/gen_locks.py -> Generated/Locks.lean): one loc_t_lock "
    "section",
    "regenerated structural facts (harness/gen_router.py -> Generated/RouterRx.lean): the receive context is a "
    "threading.local written by process_security_header only, reset in a finally around the dispatch, read by "
    "_forward_pdu only, which only forwarders call",
]
ASSUMPTIONS = [
    "the LS retransmit timer (_ls_retransmit: resend / give up) is not modelled and never fired by the harness; what "
    "gn_data_request_guc does with a re-submitted request (sequence number, greedy forwarding, frame) is outside the model "
    "(action origguc)",
    "known finding C06-KF1: the duplicate packet list lives in the source's location table entry; when that entry expires "
    "(position timestamp + itsGnLifetimeLocTE < clock) the list is lost - in particular immediately for a packet whose SO "
    "position vector is already older than the LocTE lifetime - and a replay of the same (SO,SN) is delivered/forwarded again",
]

MULTI = ("tsb", "gbc", "gac", "guc", "ls_request", "ls_reply")
TIMER_THREAD = 99     # station thread on which expired CBF timers run (receive threads: 0, 1, 2, ...)
EGO = (415000000, 21000000)
FAR = (EGO[0] + 200000, EGO[1] + 200000)     # about 2.8 km away: outside every area centred at EGO used here


# ------------------------------------------------------------------------------------------------ virtual timers

class VTimer:
    """stand-in for threading.Timer inside flexstack.geonet.router: never fires by itself"""
    stations = {}

    def __init__(self, interval, function, args=None, kwargs=None):
        self.interval, self.function, self.args = interval, function, list(args or [])
        self.daemon = True
        self.active = False
        self.cancelled = False      # threading.Timer: cancel() before start() -> the function is never called
        self.station = VTimer.stations.get(id(getattr(function, "__self__", None)))
        self.is_cbf = getattr(function, "__name__", "") == "_cbf_timeout"

    def key(self):
        k = self.args[0]
        return (k[0].encode_to_int(), k[1])

    def start(self):
        if self.cancelled:
            return
        self.active = True
        if self.station is not None and self.is_cbf:
            self.station.log.append(("arm", self.key(), int(round(self.interval * 1e6))))
            self.station.timers[self.key()] = self

    def cancel(self):
        if self.station is not None and self.is_cbf and self.active:
            self.station.log.append(("cancel", self.key()))
            if self.station.timers.get(self.key()) is self:
                del self.station.timers[self.key()]
            self.station.dead[self.key()] = self     # may still "fire" (race: expiry already under way when cancelled)
        self.active = False
        self.cancelled = True

    def fire(self):
        self.active = False
        self.function(*self.args)


class _LL(rs.LinkLayer):
    def __init__(self, station):
        super().__init__(lambda b: None)
        self.station = station

    def send(self, packet: bytes) -> None:
        # the ATTEMPT is the action judged (and the model's `send`); with the fault armed the link layer then refuses the
        # frame as a real one does when its queue is full / the interface is down
        self.station.log.append(("send", bytes(packet)))
        if self.station.ll_fail:
            self.station.ll_failed.append(bytes(packet))
            raise SendingException("link layer refused the frame (fault injected by the harness)")


_AREA_CALLS = []
_ORIG_AREA = None


def _install_area_spy():
    global _ORIG_AREA
    _ORIG_AREA = Router.__dict__["_compute_area_size_m2"]
    f = _ORIG_AREA.__func__

    def spy(*a, **k):
        r = f(*a, **k)
        _AREA_CALLS.append(r)
        return r
    Router._compute_area_size_m2 = staticmethod(spy)


def _remove_area_spy():
    if _ORIG_AREA is not None:
        Router._compute_area_size_m2 = _ORIG_AREA


# ------------------------------------------------------------------------------------------------ secured frames

SEC_OK = ("d", "c")                 # modes whose verification must succeed at a station holding the world's trust anchors
SEC_MODES = ("d", "c", "bad", "unk", "junk")


class SecWorld:
    """one PKI per process (root -> AA -> authorization tickets, real ECDSA): `at1` is stored at every verifying station
    (signer = digest), `at2` is presented as signer certificate, `at3` is unknown to the stations.  Secured messages are
    cached per (plain message, mode, generation time) so that an exact duplicate of a secured frame is byte-identical."""
    _inst = None

    @classmethod
    def get(cls):
        if cls._inst is None:
            cls._inst = cls()
        return cls._inst

    def __init__(self):
        with rs.quiet():
            self.pki = sc.PKI()
            live = dict(start=0, duration=("years", 100))
            self.root = self.pki.root("root", **live)
            self.aa = self.pki.issue(self.root, "aa", issue=[sc.perm_all(1)], **live)
            self.at1, self.at2, self.at3 = (self.pki.issue(self.aa, app=[36, 37, 99], **live) for _ in range(3))
        self.cache = {}

    def secure(self, plain_fr: bytes, mode: str, gen_ms: int) -> bytes:
        """the secured version of an unsecured frame: same Basic Header with NH = 2, then the secured message"""
        inner = bytes(plain_fr[4:])
        ck = (inner, mode, gen_ms)
        if ck not in self.cache:
            hi = {"psid": 99, "generationTime": max(gen_ms, 1) * 1000}
            be = self.pki.backend
            if mode == "d":
                m = sc.make_signed(be, self.at1.key_id, hi, inner, ("digest", self.at1.as_hashedid8()))
            elif mode == "c":
                m = sc.make_signed(be, self.at2.key_id, hi, inner, ("certificate", [self.at2.certificate]))
            elif mode == "bad":      # the signature of ANOTHER message by the same ticket
                other = sc.decode_signed(sc.make_signed(be, self.at1.key_id, hi, inner + b"x", ("digest", self.at1.as_hashedid8())))
                m = sc.make_signed(be, self.at1.key_id, hi, inner, ("digest", self.at1.as_hashedid8()),
                                   signature=other[0]["signature"])
            elif mode == "unk":
                m = sc.make_signed(be, self.at3.key_id, hi, inner, ("digest", self.at3.as_hashedid8()))
            elif mode == "junk":
                m = b"\x03\x81\x00" + bytes((zlib.crc32(inner) >> s) & 255 for s in (0, 8, 16, 24)) * 3
            else:
                raise Infra(f"unknown secured mode {mode}")
            self.cache[ck] = m
            if len(self.cache) > 20000:
                self.cache.clear()
                self.cache[ck] = m
        return bytes([(plain_fr[0] & 0xF0) | 2]) + bytes(plain_fr[1:4]) + self.cache[ck]

    def station(self):
        return sc.RealStation(self.pki.backend, [self.root], [self.aa], [self.at1])


def plain_view(fr: bytes):
    """(unsecured view of a frame: Basic Header with NH = 1 + the plain message, received secured?) - the plain message of a
    secured frame is taken out by the independent coder of sec_common, not by the verify path"""
    if fr[0] & 0x0F == 2:
        dec = sc.decode_signed(bytes(fr[4:]))
        if dec is None:
            raise Infra("undecodable secured frame in harness")
        content = dec[0]["tbsData"]["payload"]["data"]["content"]
        return bytes([(fr[0] & 0xF0) | 1]) + bytes(fr[1:4]) + bytes(content[1]), True
    return bytes(fr), False


# ------------------------------------------------------------------------------------------------ decode

def decode(fr: bytes):
    """decoded-packet view of a frame (the model's `Pkt`), via the repository's decoders; a secured frame is viewed through
    its plain message (`sec` = 1)"""
    fr, was_sec = plain_view(fr)
    bh = BasicHeader.decode_from_bytes(fr[0:4])
    ch = CommonHeader.decode_from_bytes(fr[4:12])
    ext = fr[12:]
    d = dict(rhl=bh.rhl, mhl=ch.mhl, scf=int(bool(ch.tc.scf)), sn=0, de=0, detst=0, delat=0, delon=0, sec=int(was_sec))
    zero = bytearray(fr)
    zero[3] = 0
    if ch.ht == HeaderType.BEACON:
        kind, so = "beacon", LongPositionVector.decode(ext[0:24])
    elif ch.ht == HeaderType.TSB and ch.hst == TopoBroadcastHST.SINGLE_HOP:
        kind, so = "shb", LongPositionVector.decode(ext[0:24])
    elif ch.ht == HeaderType.TSB:
        h = TSBExtendedHeader.decode(ext[0:28])
        kind, so, d["sn"] = "tsb", h.so_pv, h.sn
    elif ch.ht in (HeaderType.GEOBROADCAST, HeaderType.GEOANYCAST):
        h = GBCExtendedHeader.decode(ext[0:44])
        kind, so, d["sn"] = ("gbc" if ch.ht == HeaderType.GEOBROADCAST else "gac"), h.so_pv, h.sn
    elif ch.ht == HeaderType.GEOUNICAST:
        h = GUCExtendedHeader.decode(ext[0:48])
        kind, so, d["sn"] = "guc", h.so_pv, h.sn
        d.update(de=h.de_pv.gn_addr.encode_to_int(), detst=h.de_pv.tst.msec, delat=h.de_pv.latitude, delon=h.de_pv.longitude)
        zero[40:60] = bytes(20)
    elif ch.ht == HeaderType.LS and ch.hst == LocationServiceHST.LS_REQUEST:
        h = LSRequestExtendedHeader.decode(ext[0:36])
        kind, so, d["sn"] = "ls_request", h.so_pv, h.sn
        d["de"] = h.request_gn_addr.encode_to_int()
    elif ch.ht == HeaderType.LS:
        h = LSReplyExtendedHeader.decode(ext[0:48])
        kind, so, d["sn"] = "ls_reply", h.so_pv, h.sn
        d.update(de=h.de_pv.gn_addr.encode_to_int(), detst=h.de_pv.tst.msec, delat=h.de_pv.latitude, delon=h.de_pv.longitude)
        zero[40:60] = bytes(20)
    else:
        raise Infra("undecodable frame in harness")
    d.update(kind=kind, so=so.gn_addr.encode_to_int(), tst=so.tst.msec, lat=so.latitude, lon=so.longitude,
             body=zlib.crc32(bytes(zero)))
    return d


def try_decode(fr: bytes):
    try:
        return decode(fr)
    except Exception:  # noqa: BLE001 - a frame put on the link layer that does not even decode
        return None


def pkt_str(d):
    return (f"{d['kind']} {d['rhl']} {d['mhl']} {d['so']} {d['tst']} {d['lat']} {d['lon']} {d['sn']} {d['de']} "
            f"{d['detst']} {d['delat']} {d['delon']} {d['scf']} {d['body']}")


# ------------------------------------------------------------------------------------------------ real station

class CallbackFault(RuntimeError):
    """raised by the upper layer's indication callback (fault injection)"""


class Worker:
    """a persistent receive thread: callables are executed one at a time on it, the caller waits for the result (the
    thread keeps its `threading.local` state from one reception to the next, as a link layer's receive loop does)"""

    def __init__(self):
        self.q = queue.Queue()
        self.t = threading.Thread(target=self._loop, daemon=True)
        self.t.start()

    def _loop(self):
        while True:
            item = self.q.get()
            if item is None:
                return
            fn, box, done = item
            try:
                box.append(("ok", fn()))
            except BaseException as e:  # noqa: BLE001 - handed to the caller
                box.append(("err", e))
            done.set()

    def call(self, fn):
        box, done = [], threading.Event()
        self.q.put((fn, box, done))
        if not done.wait(120):
            raise Infra("receive thread of the harness did not return")
        if box[0][0] == "err":
            raise box[0][1]
        return box[0][1]

    def close(self):
        self.q.put(None)
        self.t.join(5)


class Station:
    def __init__(self, clock, cfg, self_addr, pos=EGO):
        self.clock, self.cfg, self.self_addr = clock, cfg, self_addr
        self.has_verify, self.enabled = (int(x) for x in cfg.get("sec", (0, 0)))
        mib = MIB(itsGnLocalGnAddr=addr_of(self_addr), itsGnLifetimeLocTE=cfg["lifetime_s"], itsGnDPLLength=cfg["dpl"],
                  itsGnAreaForwardingAlgorithm=AreaForwardingAlgorithm.CBF if cfg["cbf"] else AreaForwardingAlgorithm.SIMPLE,
                  itsGnMaxPacketDataRate=cfg["pdr_max"],
                  itsGnSecurity=GnSecurity.ENABLED if self.enabled else GnSecurity.DISABLED)
        self.verdicts = []
        vs = None
        if self.has_verify:
            with rs.quiet():
                self.sec = SecWorld.get().station()
            vs = self.sec.vs
            orig_verify = vs.verify

            def spy_verify(request):
                self.verdicts.append(None)
                conf = orig_verify(request)
                self.verdicts[-1] = conf.report
                return conf
            vs.verify = spy_verify
        self.r = Router(mib, verify_service=vs)
        self.log, self.timers, self.dead = [], {}, {}
        self.r.link_layer = _LL(self)
        self.ll_fail, self.ll_failed = False, []   # fault: LinkLayer.send raises SendingException (`lf` option of rx / fire)
        self.cb_raises = False
        self.nested = None            # a reception to perform on another thread from inside the indication callback
        self.nested_result = None
        self.snap = None
        self.cur_so = None

        def callback(ind):
            self.log.append(("deliver", ind))
            raises, self.cb_raises = self.cb_raises, False
            if self.nested is not None:
                job, self.nested = self.nested, None
                # what the reception in progress has done so far (the callback is the last step of the dispatch)
                snap = (self.buf_str(True), self.pdr_bit(self.cur_so))
                res = job()
                self.snap, self.nested_result = snap, res
            if raises:
                raise CallbackFault("upper layer failed while handling the indication")
        self.r.register_indication_callback(callback)
        self.r.ego_position_vector = lpv(self_addr, cfg["base"], pos[0], pos[1])
        VTimer.stations[id(self.r)] = self
        self.f_calls, self.greedy_calls = [], []
        self.mids = {}                # secured message (octets behind the Basic Header) -> small identity for the model
        self.workers = {}
        gf, gg = self.r.gn_geometric_function_f, self.r.gn_greedy_forwarding

        def spy_f(*a, **k):
            v = gf(*a, **k)
            self.f_calls.append(v)
            return v

        def spy_g(*a, **k):
            v = gg(*a, **k)
            self.greedy_calls.append(v)
            return v
        self.r.gn_geometric_function_f, self.r.gn_greedy_forwarding = spy_f, spy_g
        greq, glsr = self.r.gn_data_request_guc, self.r.gn_ls_request

        def spy_greq(request, *a, **k):
            self.log.append(("gucreq", request.destination.encode_to_int()))
            return greq(request, *a, **k)

        def spy_lsr(sought, buffered_request=None):
            self.log.append(("lsreq", sought.encode_to_int()))
            return glsr(sought, buffered_request)
        self.r.gn_data_request_guc, self.r.gn_ls_request = spy_greq, spy_lsr

    def close(self):
        for w in self.workers.values():
            w.close()
        self.workers = {}

    def on_thread(self, thr, fn):
        """thread 0 is the caller's thread; every other receive thread is a persistent worker of this station"""
        if not thr:
            return fn()
        if thr not in self.workers:
            self.workers[thr] = Worker()
        return self.workers[thr].call(fn)

    def mid(self, msg: bytes) -> int:
        return self.mids.setdefault(bytes(msg), len(self.mids) + 1)

    def set_now(self, now):
        self.clock.ms = now + ITS_EPOCH_MS - 5000

    def ego(self, lat, lon, pai, via, now):
        """move the station / toggle its position-accuracy flag between receptions (no packet involved)"""
        self.set_now(now)
        if via == "tpv":
            import datetime
            iso = datetime.datetime.fromtimestamp(self.clock.ms / 1000.0, datetime.timezone.utc).isoformat()
            self.r.refresh_ego_position_vector({"lat": lat / 1e7, "lon": lon / 1e7, "speed": 0.0, "track": 0.0, "time": iso})
        else:
            old = self.r.ego_position_vector
            self.r.ego_position_vector = LongPositionVector(gn_addr=old.gn_addr, tst=old.tst, latitude=lat, longitude=lon,
                                                            pai=bool(pai), s=old.s, h=old.h)

    def lsreq(self, a, req, now):
        """the station itself starts / joins a Location Service for `a` (source operations, §10.3.7.1.2)"""
        self.set_now(now)
        self.log = []
        request = GNDataRequest(packet_transport_type=PacketTransportType(header_type=HeaderType.GEOUNICAST),
                                destination=addr_of(a), data=b"wait") if req else None
        with rs.quiet():
            self.r.gn_ls_request(addr_of(a), request)
        entries = self.log
        self.log = []
        return self.canon(entries, None), entries, f"lsreq {a} {int(bool(req))}"

    def dump(self):
        """location table in the format of the model's `Table.str` (same as the C08 correspondence)"""
        rows = []
        for gn, e in self.r.location_table.loc_t.items():
            pv = e.position_vector
            rows.append((gn.encode_to_int(), f"{gn.encode_to_int()}:{pv.tst.msec}:{pv.latitude}:{pv.longitude}:"
                         f"{1 if e.is_neighbour else 0}:{1 if e.ls_pending else 0}:" + ",".join(str(x) for x in e.dpl_deque)))
        rows.sort()
        return " ".join(r[1] for r in rows) if rows else "-"

    def pdr_bit(self, so):
        e = self.r.location_table.get_entry(addr_of(so))
        return int(e is not None and e.pdr > self.r.mib.itsGnMaxPacketDataRate * 1000)

    def buf_str(self, wire):
        out = []
        for k, t in self.r._cbf_buffer.items():
            x = f"{k[0].encode_to_int()}:{k[1]}"
            if wire:
                # kind of the finished PDU the timer holds - when it holds one: what a Timer keeps in its arguments is a
                # representation detail of the code (it may keep headers and assemble at expiry); then the kind is
                # unknown here ("?", compared as a wildcard) and only the frame sent at expiry is judged
                a = getattr(t, "args", None)
                pdu = a[1] if isinstance(a, (list, tuple)) and len(a) > 1 else None
                if isinstance(pdu, (bytes, bytearray, memoryview)) and len(pdu) >= 4:
                    pdu = bytes(pdu)
                    x += ":" + (f"S{self.mid(pdu[4:])}" if pdu[0] & 0x0F == 2 else "P")
                else:
                    x += ":?"
            out.append(x)
        return " ".join(out)

    def canon(self, entries, d, wire=False, buf=None):
        out = []
        for idx, e in enumerate(entries):
            if e[0] == "send":
                if wire and e[1][0] & 0x0F == 2:
                    # what `_forward_pdu` builds for a packet received secured: Basic Header + a secured message
                    out.append(f"sends {e[1][3]} {self.mid(e[1][4:])}")
                    continue
                q = decode(e[1])
                if q["so"] == self.self_addr and q["kind"] == "ls_reply":
                    out.append(f"reply {q['de']}")
                elif q["so"] == self.self_addr and q["kind"] == "ls_request":
                    out.append(f"lssend {q['de']}")
                elif q["so"] == self.self_addr and q["kind"] == "guc":
                    pass     # originated by the GUC source operations for a re-submitted request (`origguc`)
                else:
                    out.append("send " + pkt_str(q))
            elif e[0] == "gucreq":
                nxt = entries[idx + 1] if idx + 1 < len(entries) else None
                if not (nxt is not None and nxt[0] == "lsreq"):
                    out.append(f"origguc {e[1]}")
            elif e[0] == "deliver":
                ind = e[1]
                so = ind.source_position_vector.gn_addr.encode_to_int() if ind.source_position_vector else -1
                ht = ind.packet_transport_type.header_type
                hst = ind.packet_transport_type.header_subtype
                k = {HeaderType.GEOUNICAST: "guc", HeaderType.GEOANYCAST: "gac", HeaderType.GEOBROADCAST: "gbc"}.get(ht)
                if k is None and ht == HeaderType.TSB:
                    k = "shb" if hst == TopoBroadcastHST.SINGLE_HOP else "tsb"
                sn = d["sn"] if (d is not None and k == d["kind"] and so == d["so"]) else -1
                out.append(f"deliver {k} {so} {sn}")
            elif e[0] == "arm":
                out.append(f"arm {e[1][0]} {e[1][1]} {e[2]}")
            elif e[0] == "cancel":
                out.append(f"cancel {e[1][0]} {e[1][1]}")
            elif e[0] == "exc":
                out.append(f"exc {e[1]} {e[2]}")      # never an output of the model
        return (" | ".join(out) if out else "-") + " # " + (self.buf_str(wire) if buf is None else buf)

    def wire_frame(self, plain_fr: bytes, mode, gen_ms):
        return SecWorld.get().secure(plain_fr, mode, gen_ms) if mode else bytes(plain_fr)

    def rx(self, fr, now, opts=None):
        """one frame from the link layer.  `fr` is the unsecured form of the frame unless it already carries NH = 2;
        `opts`: sec (None or a mode of SEC_MODES: the frame is received secured), cb (the indication callback raises), lf
        (every LinkLayer.send during this reception raises SendingException after the attempt was logged), thr
        (receive thread), nest (a second reception [frame hex, T, opts] performed on ANOTHER thread while this one sits in
        its indication callback).  Returns (canonical output, raw log entries, model line, decoded packet); the result of a
        nested reception is left in `self.nested_result`.  Re-entrant."""
        opts = opts or {}
        self.set_now(now)
        if fr[0] & 0x0F == 2:
            wire_fr = bytes(fr)                         # put on the ether by another station (topologies)
        else:
            wire_fr = self.wire_frame(fr, opts.get("sec"), opts.get("gen", now))
        sec = int(wire_fr[0] & 0x0F == 2)
        d = decode(fr)
        d["sec"] = sec
        d["wire"] = wire_fr
        # expectation BY CONSTRUCTION (independent of the code): is the frame handed to the handlers?
        d["gate"] = int((self.has_verify and (opts.get("sec") in SEC_OK or (fr[0] & 0x0F == 2))) if sec else not self.enabled)
        saved = (self.log, self.f_calls, self.greedy_calls, list(_AREA_CALLS), self.verdicts)
        self.log, self.f_calls, self.greedy_calls, self.verdicts = [], [], [], []
        del _AREA_CALLS[:]
        self.cb_raises = bool(opts.get("cb"))
        saved_lf, self.ll_fail = self.ll_fail, bool(opts.get("lf"))
        self.nested_result, self.snap, self.cur_so = None, None, d["so"]
        thr = int(opts.get("thr", 0))
        nest = opts.get("nest")
        if nest:
            nfr, nopts = bytes.fromhex(nest[0]), dict(nest[2] or {})
            nopts.pop("nest", None)
            if int(nopts.get("thr", 0)) in (0, thr):
                nopts["thr"] = thr + 1          # a nested reception runs on a receive thread of its own
            self.nested = lambda: self.rx(nfr, now, nopts)
        with rs.quiet():
            try:
                self.on_thread(thr, lambda: self.r.gn_data_indicate(wire_fr))
            except Infra:
                raise
            except Exception as e:  # noqa: BLE001 - whatever the real code raises into the receive loop is an observation
                self.log.append(("exc", "rx", type(e).__name__))
        self.ll_fail = saved_lf
        inner = self.nested_result if self.nested is None else None     # None when the callback was never reached
        snap = self.snap
        self.nested, self.snap = None, None
        self.cb_raises = False
        entries = self.log
        inside = int(bool(self.f_calls) and self.f_calls[0] >= 0) if d["kind"] in ("gbc", "gac") else 0
        extra = self.f_calls[2:] if d["kind"] == "gbc" else self.f_calls[1:]
        sin = int(bool(extra) and extra[-1] >= 0)
        big = int(bool(_AREA_CALLS) and _AREA_CALLS[-1] > self.r.mib.itsGnMaxGeoAreaSize * 1_000_000)
        pdr = self.pdr_bit(d["so"]) if snap is None or inner is None else snap[1]
        greedy = int(self.greedy_calls[-1]) if self.greedy_calls else 1
        ms = next((x[2] for x in entries if x[0] == "arm"), 0)
        vok = int(bool(self.verdicts) and self.verdicts[0] is not None and getattr(self.verdicts[0], "value", 1) == 0)
        self.log, self.f_calls, self.greedy_calls, area_calls, self.verdicts = saved
        _AREA_CALLS[:] = area_calls
        d["pdr"] = pdr
        d["env"] = f"{inside} {big} {pdr} {sin} {greedy} {ms}"
        d["vok"] = vok
        m = self.mid(wire_fr[4:]) if sec else 0
        line = f"wrx {thr} {sec} {m} {vok} {int(bool(opts.get('cb')))} {pkt_str(d)} {d['env']} {now}"
        self.nested_result = inner
        return self.canon(entries, d, wire=True, buf=snap[0] if (snap is not None and inner is not None) else None), entries, line, d

    def fire(self, key, wire=True, lf=False):
        self.log = []
        self.ll_fail = bool(lf)
        t = self.timers.pop(key, None)
        if t is None:
            t = self.dead.pop(key, None)      # expiry racing with a cancellation: _cbf_timeout must find nothing to send
        if t is not None:
            # threading.Timer runs the callback on a thread of its own: never a receive thread, so whatever the receive
            # path keeps per thread (the receive context of process_security_header) is not there at expiry
            with rs.quiet():
                try:
                    self.on_thread(TIMER_THREAD, t.fire)
                except Infra:
                    raise
                except Exception as e:  # noqa: BLE001 - an exception kills the timer thread: judged, not a harness crash
                    self.log.append(("exc", "timer", type(e).__name__))
        self.ll_fail = False
        entries = self.log
        self.log = []
        return self.canon(entries, None, wire=wire), entries, f"wfire {key[0]} {key[1]}"


# ------------------------------------------------------------------------------------------------ oracle

class StationOracle:
    """Judges the action log of one station, independently of the code:
    * per source the last L accepted sequence numbers (annex A.2) - a packet inside that window must cause nothing but,
      under CBF, the cancellation of its buffered copy; the location-table reference of C08 says whether the source's
      entry expired in between (then the case falls under known finding C06-KF1);
    * own-address packets cause nothing;
    * a forwarded copy is byte-identical to its cause except RHL (exactly one lower, cause RHL >= 2, <= MHL) and, for
      GUC / LS reply, a DE position vector that was received from DE and is strictly newer;
    * CBF: one timer per accepted GBC, fired copy = buffered cause, nothing is sent after a cancellation."""

    def __init__(self, self_addr, cfg):
        self.me, self.cfg = self_addr, cfg
        self.L = cfg["dpl"]
        self.loct = c08.Oracle(self_addr, cfg["lifetime_s"] * 1000, cfg["dpl"])
        self.window = {}      # so -> list of (sn, epoch) of the last L accepted sequence numbers
        self.epoch = {}       # so -> number of lives (creations) of the source's reference location table entry
        self.armed = {}       # key -> cause frame
        self.cancelled = set()
        self.pvs = {}         # addr -> list of (T, lat, lon) received as SO PV
        self.count = {}       # (so, sn) -> [deliveries, forwards]
        self.bad = []
        self.ls_wait = {}     # sought address -> GUC requests waiting for its LS reply
        self.pdr = {}         # so -> [PDR (bytes/s, annex B.2 EMA), position timestamp of the last update]
        self.pdr_skips = 0
        self.pdr_checked = 0
        self.pdr_bad = []
        self.sec_msgs = {}    # secured message received -> (so, sn) of the packet it belongs to
        self.gate_bad = []    # SN-VERIFY outcome recorded from the run differs from what the frame was built to be

    EXT_LEN = {"beacon": 24, "shb": 28, "tsb": 28, "gbc": 44, "gac": 44, "guc": 48, "ls_request": 36, "ls_reply": 48}

    def lsreq(self, a, req):
        if req:
            self.ls_wait[a] = self.ls_wait.get(a, 0) + 1

    def pdr_ref(self, fr, d, was_alive, pdr_bit):
        """annex B.2: PDR <- beta * PDR + (1 - beta) * size / (time since the last update), beta = 0.9, time taken from the
        position timestamps (as the code does), on every packet that updates the source's entry; a new entry starts with
        PDR 0 and timestamp 0.  Compares the gate `PDR > itsGnMaxPacketDataRate * 1000` with the bit recorded from the run."""
        so = d["so"]
        if not was_alive or so not in self.pdr:
            self.pdr[so] = [0.0, 0]
        st = self.pdr[so]
        dt = ((d["tst"] - st[1]) % W) / 1000.0
        st[1] = d["tst"]
        size = len(fr) - 12 - self.EXT_LEN[d["kind"]] + 12
        if dt > 0:
            st[0] = 0.9 * st[0] + 0.1 * size / dt
        alive_after = so in self.loct.ent
        thr = self.cfg["pdr_max"] * 1000
        if pdr_bit is None:
            return
        if alive_after and abs(st[0] - thr) <= 1e-9 * max(1.0, thr):
            self.pdr_skips += 1
            return
        self.pdr_checked += 1
        ref = int(alive_after and st[0] > thr)
        if ref != pdr_bit:
            self.pdr_bad.append(f"PDR gate of {so}: reference {ref} (PDR {st[0]:.3f} B/s, limit {thr}), recorded from the run {pdr_bit}")

    def flag(self, what, kf=None):
        self.bad.append((what, kf))

    def rx(self, fr, d, T_so, now, entries, pdr_bit=None):
        """`fr`: the frame as received from the link layer (secured: Basic Header + secured message), `d`: its decoded view"""
        so, sn, kind = d["so"], d["sn"], d["kind"]
        key = (so, sn)
        acts = [e[0] for e in entries]
        if d.get("sec") and "vok" in d and int(d["vok"]) != int(d["gate"]):
            self.gate_bad.append(f"secured {kind} ({so},{sn}): built to be {'accepted' if d['gate'] else 'rejected'}, "
                                 f"SN-VERIFY of the station reported {'SUCCESS' if d['vok'] else 'no success'}")
        if not d.get("gate", 1):
            return  # not handed to the handlers (itsGnSecurity gate / verification): no claim of C06; the model says 'nothing'
        self.loct.expire(now)
        if d.get("sec"):
            self.sec_msgs.setdefault(bytes(fr[4:]), key)
        if mid_of(so) == mid_of(self.me):
            if entries:
                self.flag(f"packet bearing the station's own address caused {acts}")
            return
        if d["rhl"] > d["mhl"]:
            return  # discarded by the hop-limit sanity check (C20); no claim here
        # location table reference (newest PV, expiry): a source whose entry is gone starts a new life
        self.pvs.setdefault(so, []).append((T_so, d["lat"], d["lon"]))
        was_alive = so in self.loct.ent
        if not was_alive:
            self.epoch[so] = self.epoch.get(so, 0) + 1
        ep = self.epoch[so]
        self.loct.pkt(kind, so, T_so, d["lat"], d["lon"], sn, now)
        if kind not in MULTI:
            self.pdr_ref(plain_view(fr)[0] if d.get("sec") else fr, d, was_alive, pdr_bit)
            return
        win = self.window.setdefault(so, [])
        hit = next((x for x in win if x[0] == sn), None)
        if hit is not None:
            same_life = was_alive and hit[1] == ep
            for e in entries:
                if e[0] in ("deliver", "send", "arm"):
                    self.flag(f"{kind} ({so},{sn}) inside the duplicate window caused {e[0]}"
                              + ("" if same_life else " after its source's location table entry had expired"),
                              None if same_life else "C06-KF1")
                    break
            if same_life:
                if key in self.armed:
                    if "cancel" not in acts:
                        self.flag(f"duplicate of ({so},{sn}) overheard while its copy waits in the CBF buffer: not cancelled")
                    self.cancelled.add(key)
                    del self.armed[key]
                return
            win.remove(hit)
        win.append((sn, ep))
        del win[:-self.L]
        self.pdr_ref(plain_view(fr)[0] if d.get("sec") else fr, d, was_alive, pdr_bit)
        # accepted (or re-accepted under KF1): judge the actions
        c = self.count.setdefault(key, [0, 0])
        sends = [e for e in entries if e[0] == "send"]
        own = [e for e in sends if (try_decode(e[1]) or {}).get("so") == self.me and e[1][0] & 0x0F != 2]
        sends = [e for e in sends if e not in own]
        to_me = mid_of(d["de"]) == mid_of(self.me)
        if own and not (kind in ("ls_request", "ls_reply") and to_me):
            self.flag(f"station originated a packet while handling a {kind}")
        resub = [i for i, e in enumerate(entries) if e[0] == "gucreq"]
        if kind == "ls_reply" and to_me:
            # §10.3.7.1.4: every GUC request that waited for this source is re-submitted exactly once
            waiting = self.ls_wait.pop(so, 0)
            if len(resub) != waiting or any(e[1] != so for e in entries if e[0] == "gucreq"):
                self.flag(f"LS reply of {so} at the requester re-submitted {len(resub)} request(s), {waiting} were waiting")
            back = sum(1 for i in resub if i + 1 < len(entries) and entries[i + 1][0] == "lsreq")
            if back:
                self.ls_wait[so] = back      # the entry had expired at once: back to the Location Service
            if sends or [e for e in entries if e[0] in ("deliver", "arm")]:
                self.flag("LS reply addressed to this station was delivered / forwarded")
        elif resub:
            self.flag(f"{kind} re-submitted buffered GUC requests")
        delivers = [e for e in entries if e[0] == "deliver"]
        arms = [e for e in entries if e[0] == "arm"]
        c[0] += len(delivers)
        c[1] += len(sends) + len(arms)
        if len(delivers) > 1 or len(sends) + len(arms) > 1:
            self.flag(f"{kind} ({so},{sn}): {len(delivers)} deliveries, {len(sends)} sends, {len(arms)} timers for one reception")
        if kind in ("ls_request", "ls_reply") and delivers:
            self.flag(f"{kind} delivered to the upper layer")
        for e in sends:
            self.check_copy(fr, d, e[1], now, "forwarded")
        for e in arms:
            if d["rhl"] <= 1:
                self.flag(f"CBF timer armed for a packet received with RHL {d['rhl']}")
            if e[1] != key:
                self.flag(f"CBF timer armed under key {e[1]} for packet {key}")
            self.armed[key] = fr
            self.cancelled.discard(key)
        for e in entries:
            if e[0] == "cancel":
                # a non-duplicate reception that finds its key buffered (window exceeded): buffered copy is dropped
                self.armed.pop(e[1], None)
                self.cancelled.add(e[1])

    def check_copy(self, cause, d, sent, now, what):
        if d["rhl"] <= 1:
            self.flag(f"{what} a {d['kind']} received with RHL {d['rhl']} (sent RHL {sent[3]})")
            return
        if len(sent) != len(cause) or (sent[0] & 0x0F) != (cause[0] & 0x0F):
            stale = self.sec_msgs.get(bytes(sent[4:])) if sent[0] & 0x0F == 2 else None
            self.flag(f"{what} copy of {d['kind']} ({d['so']},{d['sn']}) is not the received packet: {len(sent)} octets with "
                      f"Basic Header NH {sent[0] & 15}, received {len(cause)} octets with NH {cause[0] & 15}"
                      + (f" - behind the Basic Header it carries the secured message of the earlier packet {stale}"
                         if stale is not None and stale != (d['so'], d['sn']) else ""))
            return
        if sent[3] != d["rhl"] - 1:
            self.flag(f"{what} copy has RHL {sent[3]}, received {d['rhl']}")
        if sent[3] > d["mhl"]:
            self.flag(f"{what} copy has RHL {sent[3]} > MHL {d['mhl']}")
        diff = [i for i in range(len(sent)) if sent[i] != cause[i] and i != 3]
        if not diff:
            return
        if d.get("sec"):
            self.flag(f"{what} copy of a packet received secured differs from it at byte offsets {diff[:8]} (only the RHL of "
                      f"the Basic Header may change; everything behind it is signed)")
            return
        if d["kind"] in ("guc", "ls_reply") and all(40 <= i < 60 for i in diff):
            q = decode(sent)
            if q["de"] != d["de"]:
                self.flag(f"{what} copy changes the DE address")
                return
            cand = [p for p in self.pvs.get(d["de"], []) if (p[0] % W, p[1], p[2]) == (q["detst"], q["delat"], q["delon"])]
            newer = 0 < (q["detst"] - d["detst"]) % W <= HALF
            if not cand or not newer:
                self.flag(f"{what} copy carries DE PV {(q['detst'], q['delat'], q['delon'])} which is "
                          + ("not newer than the received one" if cand else "not a position vector received from DE"))
            return
        self.flag(f"{what} copy differs from its cause at byte offsets {diff[:8]}")

    def fire(self, key, entries):
        sends = [e for e in entries if e[0] == "send"]
        for e in entries:
            if e[0] == "exc" and key in self.armed:
                self.flag(f"CBF timer of {key} expired: the callback raised {e[2]} - the buffered copy is lost with the timer thread")
        if key in self.armed:
            cause = self.armed.pop(key)
            if len(sends) != 1:
                self.flag(f"CBF timer of {key} expired: {len(sends)} frames sent")
            else:
                self.check_copy(cause, decode(cause), sends[0][1], None, "CBF-forwarded")
        elif sends:
            self.flag(f"CBF timer of {key} expired after " + ("cancellation" if key in self.cancelled else "nothing was buffered")
                      + f": {len(sends)} frame(s) sent")


# ------------------------------------------------------------------------------------------------ single-station histories

def gen_single(rng, n_ops):
    lifetime_s = rng.choice([2, 5, 20])
    L = lifetime_s * 1000
    cfg = dict(lifetime_s=lifetime_s, dpl=rng.choice([1, 2, 3, 4, 8, 16, rng.randrange(1, 17)]), cbf=rng.randrange(2),
               pdr_max=rng.choice([10**9, 10**9, 10**9, 0, 1, 20, 200]),
               base=rng.choice([rng.randrange(10**9, 10**12), rng.randrange(3, 99) * W - rng.randrange(0, 3 * L)]))
    # security: [verify service configured, itsGnSecurity ENABLED]; a station with a verify service and itsGnSecurity
    # DISABLED accepts secured and unsecured packets side by side
    cfg["sec"] = rng.choice([[0, 0], [0, 0], [0, 0], [1, 0], [1, 0], [1, 0], [1, 1]])
    secure_p = {(0, 0): 0.04, (1, 0): 0.4, (1, 1): 0.75}[tuple(cfg["sec"])]
    me = addr_int(1)
    n_src = rng.randrange(2, 6)
    srcs = [addr_int(10 + i) for i in range(n_src)]
    # where the scene is: Barcelona, or around / south-west of (0, 0) so that latitudes and longitudes are negative
    EGO = rng.choice([globals()["EGO"], globals()["EGO"], (12000, -25000), (-337000000, -705000000)])
    FAR = (EGO[0] + 200000, EGO[1] + 200000)
    pos = {a: (EGO[0] + rng.randrange(-30000, 60000), EGO[1] + rng.randrange(-30000, 60000)) for a in srcs}
    others = srcs + [addr_int(10, st=ST.CYCLIST)]
    pos[others[-1]] = pos[srcs[0]]
    own = [me, addr_int(1, st=ST.BUS)]
    third = addr_int(77)
    next_sn = {a: rng.choice([0, 65530, rng.randrange(65536)]) for a in others + own + [third]}
    ops, sent, now = [], [], cfg["base"]

    def fresh(kind, a, rhl, mhl, T, inside):
        la, lo = pos.get(a, EGO)
        kw = dict(sn=next_sn[a], rhl=rhl, mhl=mhl, payload=b"r4", scf=rng.random() < 0.15)
        next_sn[a] = (next_sn[a] + 1) % 65536
        if kind in ("gbc", "gac"):
            c = EGO if inside else FAR
            kw["area"] = (c[0], c[1], 500, 500, 0)
        if kind in ("guc", "ls_reply"):
            kw["de"] = spv(rng.choice(srcs + [third]), now + rng.randrange(-3000, 3000), 7, 8)
        if kind == "ls_request":
            kw["de"] = rng.choice(srcs + [third])
        fr = frame(kind, lpv(a, T, la, lo), **kw)
        if kind in MULTI:
            sent.append((fr.hex(), [a, kw["sn"]], T))
        return fr, kw["sn"]

    for _ in range(n_ops):
        x = rng.random()
        if cfg["sec"][0] and rng.random() < 0.10:
            # a VERIFIED secured packet whose dispatch is aborted after the verification (indication callback raises / hop
            # limit above MHL) or not, then the next packet(s): unsecured or secured, on the same or on the other receive
            # thread, possibly INSIDE the indication callback of the first one (on another thread), CBF copies fired later
            t1 = rng.randrange(2)
            a = rng.choice(srcs)
            k1 = rng.choice(["tsb", "tsb", "gbc", "shb", "guc", "gac", "ls_request"])
            fault = rng.choice(["cb", "cb", "mhl", "none"])
            rhl1 = rng.choice([2, 3, 5])
            if rng.random() < 0.5:
                ops.append(["ego", EGO[0], EGO[1], 1, "swap", now])
            T1 = now - rng.randrange(0, 300)
            fr1, sn1 = fresh(k1, a, rhl1, rhl1 - 1 if fault == "mhl" else 10, T1, True)
            o1 = {"sec": rng.choice(["d", "c"]), "gen": now, "thr": t1}
            if fault == "cb":
                o1["cb"] = 1
            first = ["rx", fr1.hex(), T1, now, o1]
            ops.append(first)
            later = []
            for j in range(rng.randrange(1, 3)):
                b = rng.choice([z for z in srcs if z != a])
                k2 = rng.choice(["tsb", "tsb", "gbc", "gbc", "guc", "ls_request", "ls_reply", "gac"])
                T2 = now - rng.randrange(0, 300)
                fr2, sn2 = fresh(k2, b, rng.choice([2, 3, 4, 10]), 10, T2, rng.random() < 0.7)
                o2 = {"thr": rng.choice([t1, t1, 1 - t1])}
                if rng.random() < 0.25:
                    o2.update(sec=rng.choice(["d", "c", "bad"]), gen=now)
                if rng.random() < 0.15:
                    o2["cb"] = 1
                if j == 0 and rng.random() < 0.3:
                    o1["nest"] = [fr2.hex(), T2, dict(o2, thr=2)]
                else:
                    now += rng.randrange(0, 50)
                    ops.append(["rx", fr2.hex(), T2, now, o2])
                if k2 == "gbc":
                    later.append(["fire", [b, sn2]])
            if k1 == "gbc":
                later.append(["fire", [a, sn1]])
            rng.shuffle(later)
            ops += [z for z in later if rng.random() < 0.8]
            continue
        if x < 0.12:
            now += rng.choice([0, 1, rng.randrange(0, 500), rng.randrange(0, 500), rng.randrange(0, 3 * L)])
            continue
        if x < 0.24 and sent:
            ops.append(["fire", rng.choice(sent)[1]])
            continue
        if rng.random() < 0.05:
            # the station moves (inside <-> far outside the areas used below) or loses / regains position accuracy
            ops.append(["ego", *rng.choice([EGO, FAR, (EGO[0] + 30000, EGO[1])]), rng.randrange(2), rng.choice(["swap", "tpv"]), now])
            continue
        if rng.random() < 0.04:
            # Location Service at the requester: the station asks for `a` (with / without GUC requests to be buffered), other
            # traffic may pass, the LS reply of `a` arrives (fresh, stale or repeated), the station may ask again
            a = rng.choice(srcs + [third])
            for _ in range(rng.randrange(1, 4)):
                ops.append(["lsreq", a, rng.randrange(2), now])
            for _ in range(rng.randrange(0, 3)):
                now += rng.randrange(0, 200)
                b = rng.choice(srcs)
                fr = frame("tsb", lpv(b, now, *pos[b]), sn=next_sn[b], rhl=rng.choice([1, 3]), mhl=10, payload=b"x")
                next_sn[b] = (next_sn[b] + 1) % 65536
                sent.append((fr.hex(), [b, fr and decode(fr)["sn"]], now))
                ops.append(["rx", fr.hex(), now, now])
            for _ in range(rng.randrange(1, 3)):
                now += rng.randrange(0, 300)
                T = now - rng.choice([0, 10, 500, L - 1, L + 1, 2 * L])
                la, lo = pos.get(a, EGO)
                fr = frame("ls_reply", lpv(a, T, la, lo), sn=next_sn[a], rhl=rng.choice([1, 5, 10]), mhl=10,
                           de=spv(rng.choice([me, me, me, own[1], third]), now, -7, 8))
                next_sn[a] = (next_sn[a] + 1) % 65536
                sent.append((fr.hex(), [a, decode(fr)["sn"]], T))
                ops.append(["rx", fr.hex(), T, now])
                if rng.random() < 0.4:
                    ops.append(["rx", fr.hex(), T, now + 1])
                if rng.random() < 0.3:
                    ops.append(["lsreq", a, rng.randrange(2), now])
            continue
        if rng.random() < 0.05:
            # link-layer fault (round 6): a multi-hop packet is received and the link layer REFUSES its re-transmission
            # (LinkLayer.send raises SendingException: immediate forwarding, or the CBF copy at expiry); then the packet is
            # overheard again - the exact frame or the copy of another forwarder (lower RHL), at once or a little later.
            # The failed send changes nothing about what the station has seen: the copies are duplicates.
            a = rng.choice(srcs)
            kind = rng.choice(["tsb", "tsb", "gbc", "gbc", "gac", "guc", "ls_request", "ls_reply"])
            T = now - rng.randrange(0, 800)
            rhl = rng.choice([2, 3, 5, 10])
            fr, sn = fresh(kind, a, rhl, 10, T, rng.random() < 0.7)
            if rng.random() < 0.5:
                ops.append(["rx", frame("beacon", lpv(srcs[-1], now, *pos[srcs[-1]]), payload=b"").hex(), now, now])
            ops.append(["rx", fr.hex(), T, now, {"lf": 1}])
            if kind == "gbc" and rng.random() < 0.6:
                ops.append(["fire", [a, sn], {"lf": rng.randrange(2)}])
            for _ in range(rng.randrange(1, 4)):
                now += rng.choice([0, 0, rng.randrange(0, 300)])
                cp = bytearray(fr)
                cp[3] = rng.choice([rhl, rhl - 1, max(1, rhl - 2)])
                o = {"lf": 1} if rng.random() < 0.2 else {}
                if rng.random() < 0.2:
                    o["thr"] = 1
                ops.append(["rx", bytes(cp).hex(), T, now, o])
            if kind == "gbc":
                ops.append(["fire", [a, sn]])
            continue
        if cfg["cbf"] and rng.random() < 0.2:
            # contention scenario: GBC into an area around EGO received while the station is inside it; before the timer
            # expires the station may move out of the area / toggle PAI, and the packet is overheard again (or not)
            a = rng.choice(srcs)
            T = now - rng.randrange(0, 1000)
            sn = next_sn[a]
            next_sn[a] = (sn + 1) % 65536
            fr = frame("gbc", lpv(a, T, *pos[a]), sn=sn, rhl=rng.choice([2, 3, 10]), mhl=10,
                       area=(EGO[0], EGO[1], 500, 500, 0), payload=b"cbf")
            sent.append((fr.hex(), [a, sn], T))
            ops.append(["ego", EGO[0], EGO[1], 1, "swap", now])
            ops.append(["rx", fr.hex(), T, now])
            for _ in range(rng.randrange(0, 4)):
                now += rng.randrange(0, 50)
                z = rng.random()
                if z < 0.35:
                    where = rng.choice([FAR, FAR, EGO])
                    ops.append(["ego", where[0], where[1], rng.choice([1, 1, 0]), rng.choice(["swap", "tpv"]), now])
                elif z < 0.85:
                    ops.append(["rx", fr.hex(), T, now])
                else:
                    ops.append(["fire", [a, sn]])
            ops.append(["fire", [a, sn]])
            if rng.random() < 0.5:
                ops.append(["ego", EGO[0], EGO[1], 1, "swap", now])
            continue
        if x < 0.40 and sent:                      # exact duplicate / replay of an earlier frame
            j = rng.randrange(len(sent)) if rng.random() < 0.4 else max(0, len(sent) - 1 - rng.randrange(3))
            ops.append(["rx", sent[j][0], sent[j][2], now])
            continue
        a = rng.choice(own) if rng.random() < 0.06 else rng.choice(others)
        y = rng.random()
        d = rng.randrange(-1500, 1) if y < 0.6 else rng.randrange(1, 3000) if y < 0.8 else -rng.choice([L - 1, L, L + 1, 2 * L])
        T = now + d
        if x < 0.52:
            kind = rng.choice(["shb", "beacon"])
        else:
            kind = rng.choice(MULTI)
        rhl = rng.choice([0, 1, 2, 3, 10, 255, rng.randrange(256)])
        mhl = rng.choice([rhl, rhl, 255, max(rhl, 10), rng.randrange(256)])
        la, lo = pos.get(a, EGO)
        so = lpv(a, T, la, lo)
        kw = dict(sn=next_sn[a], rhl=rhl, mhl=mhl, scf=rng.random() < 0.3, payload=bytes([rng.randrange(256) for _ in range(rng.randrange(0, 6))]))
        if kind in MULTI:
            next_sn[a] = (next_sn[a] + 1) % 65536
        if kind in ("gbc", "gac"):
            centre = rng.choice([EGO, (EGO[0] + 200000, EGO[1] + 200000), (la, lo)])
            kw["area"] = (centre[0], centre[1], rng.choice([50, 300, 1500, 2500]), rng.choice([50, 300, 1500, 2500]), 0)
        if kind in ("guc", "ls_reply"):
            de = rng.choice([me, own[1], rng.choice(srcs), third])
            kw["de"] = spv(de, now + rng.randrange(-3000, 3000), rng.choice([7, -7]), rng.choice([8, -80000]))
        if kind == "ls_request":
            kw["de"] = rng.choice([me, own[1], rng.choice(srcs), third])
        fr = frame(kind, so, **kw)
        if kind in MULTI:
            sent.append((fr.hex(), [a, kw["sn"]], T))
        ops.append(["rx", fr.hex(), T, now])
    for k in sorted({tuple(s[1]) for s in sent[-4:]}):
        ops.append(["fire", list(k)])
    # which frames arrive secured (decided once per distinct frame so that an exact duplicate is the same secured frame,
    # now and then per reception: the same packet once with, once without its envelope), faults, receive thread
    sec_of = {}
    for op in ops:
        if op[0] != "rx" or len(op) > 4:
            continue
        if op[1] not in sec_of or rng.random() < 0.1:
            sec_of[op[1]] = ({"sec": rng.choice(["d", "d", "d", "c", "c", "bad", "unk", "junk"]), "gen": op[3]}
                             if rng.random() < secure_p else {})
        o = dict(sec_of[op[1]])
        if rng.random() < 0.1:
            o["cb"] = 1
        if rng.random() < 0.1:
            o["thr"] = 1
        if rng.random() < 0.04:
            o["lf"] = 1
        if o:
            op.append(o)
    return {"kind": "single", "cfg": cfg, "self": me, "ops": ops, "ego": list(EGO)}


def run_single(case, clock, with_oracle=True):
    """returns (real outputs, model lines, oracle findings [(op index, what, kf)])"""
    VTimer.stations.clear()
    st = Station(clock, case["cfg"], case["self"], tuple(case.get("ego", EGO)))
    orc = StationOracle(case["self"], case["cfg"])
    outs, lines, bad = [], [], []
    cfg = case["cfg"]
    lines.append(f"wcfg {case['self']} {cfg['lifetime_s'] * 1000} {cfg['dpl']} {cfg['cbf']} {st.has_verify} {st.enabled}")
    outs.append("ok")
    try:
        for i, op in enumerate(case["ops"]):
            if op[0] == "ego":
                st.ego(op[1], op[2], op[3], op[4], op[5])
                continue
            table = False
            if op[0] == "rx":
                fr = bytes.fromhex(op[1])
                opts = op[4] if len(op) > 4 else None
                res = st.rx(fr, op[3], opts)
                steps = [(res, op[2])]
                if st.nested_result is not None:
                    # a second reception happened on another thread inside the indication callback of the first one
                    steps.append((st.nested_result, opts["nest"][1]))
                for (out, entries, line, d), T in steps:
                    if with_oracle:
                        orc.rx(d["wire"], d, T, op[3], entries, d["pdr"])
                    outs.append(out)
                    lines.append(line)
                    table = table or d["kind"] == "ls_reply"
                table = table or (i * 7 + len(op[1])) % 19 == 0
            elif op[0] == "lsreq":
                out, entries, line = st.lsreq(op[1], op[2], op[3])
                if with_oracle:
                    orc.lsreq(op[1], op[2])
                table = True
                outs.append(out)
                lines.append(line)
            else:
                key = (op[1][0], op[1][1])
                out, entries, line = st.fire(key, lf=bool(len(op) > 2 and op[2] and op[2].get("lf")))
                if with_oracle:
                    orc.fire(key, entries)
                outs.append(out)
                lines.append(line)
            if table:
                # location table (incl. the ls_pending flags) after Location Service steps and now and then otherwise
                outs.append(st.dump())
                lines.append("table")
            for what, kf in orc.bad:
                bad.append((i, what, kf))
            orc.bad = []
    finally:
        orc.ll_refused = len(st.ll_failed)
        st.close()
    return outs, lines, bad, orc


def first_bad(case, clock):
    try:
        _, _, bad, _ = run_single(case, clock)
    except Exception:
        return None
    return next(((i, w) for i, w, kf in bad if kf is None), None)


def shrink(case, clock):
    ops = list(case["ops"])
    i, budget = len(ops) - 1, 150
    while i >= 0 and budget > 0:
        trial = dict(case, ops=ops[:i] + ops[i + 1:])
        budget -= 1
        if first_bad(trial, clock) is not None:
            ops = trial["ops"]
        i -= 1
    # then the options of the remaining receptions: nested reception, fault, thread
    for i, op in enumerate(ops):
        if op[0] != "rx" or len(op) < 5:
            continue
        for k in ("nest", "cb", "thr"):
            if k in op[4] and budget > 0:
                budget -= 1
                o = {a: b for a, b in op[4].items() if a != k}
                trial_ops = ops[:i] + [op[:4] + ([o] if o else [])] + ops[i + 1:]
                if first_bad(dict(case, ops=trial_ops), clock) is not None:
                    ops = trial_ops
                    op = ops[i]
                    if len(op) < 5:
                        break
    return dict(case, ops=ops)


def check_single(ctx, case, clock, use_model=True):
    outs, lines, bad, orc = run_single(case, clock)
    ctx.evals(len(case["ops"]))
    reported = False
    for i, what, kf in bad:
        if kf is None and not reported:
            small = dict(case, ops=case["ops"][:i + 1])
            if len(ctx.violations) < 3:          # only the first three are written out: do not shrink the rest
                small = shrink(small, clock)
            fb = first_bad(small, clock)
            ctx.violation(fb[1] if fb else what, small)
            reported = True
        elif kf is not None:
            ctx.violation(what, dict(case, ops=case["ops"][:i + 1]), kf)
    if use_model and ctx.model_ok:
        ctx.extra.setdefault("_batch", []).append((case, outs, lines))
    ctx.cover("op_ego", sum(1 for op in case["ops"] if op[0] == "ego"))
    ctx.cover("pdr_reference_checked", orc.pdr_checked)
    ctx.cover("tolerance_skips", orc.pdr_skips)
    for w in orc.pdr_bad[:1]:
        ctx.mismatch("router.pdr_reference", {"case": case}, w, "annex B.2 reference")
    for w in orc.gate_bad[:1]:
        ctx.mismatch("router.verify_outcome", {"case": case}, w, "outcome by construction of the secured message")
    if tuple(case.get("ego", EGO))[1] < 0:
        ctx.cover("scene_negative_coordinates")
    for line, out in zip(lines[1:], outs[1:]):
        t = line.split(" ")
        if t[0] == "table":
            ctx.cover("op_table")
            continue
        if t[0] == "lsreq":
            ctx.cover("op_lsreq")
            for a in out.split(" # ")[0].split(" | "):
                ctx.cover("act_" + a.split(" ")[0])
            continue
        ctx.cover("op_" + (t[6] if t[0] == "wrx" else "fire"))
        if t[0] == "wfire":
            # the CBF timer path on the timer thread: the copy of a packet received secured must leave with its envelope
            acts = out.split(" # ")[0]
            if "sends " in acts:
                ctx.cover("cbf_expiry_sends_secured_copy")
            elif "send " in acts:
                ctx.cover("cbf_expiry_sends_plain_copy")
        for a in out.split(" # ")[0].split(" | "):
            ctx.cover("act_" + a.split(" ")[0])
        if t[0] == "wrx":
            ctx.cover(f"rhl_{t[7] if int(t[7]) < 3 else '3+'}")
            if t[2] == "1":
                ctx.cover("rx_secured_" + ("verified" if t[4] == "1" else "rejected"))
            if t[5] == "1":
                ctx.cover("fault_callback_raises" + ("_secured" if t[2] == "1" and t[4] == "1" else ""))
            if t[2] == "1" and t[4] == "1" and int(t[7]) > int(t[8]):
                ctx.cover("fault_hop_limit_after_verification")
            if t[1] != "0":
                ctx.cover("rx_on_second_thread")
    # the class the seeded change C06-m6 lives in: a verified secured packet whose dispatch was aborted, then a forwarded
    # unsecured packet on the same thread
    aborted = {}
    for line, out in zip(lines[1:], outs[1:]):
        t = line.split(" ")
        if t[0] != "wrx":
            continue
        acts = out.split(" # ")[0]
        if t[2] == "1" and t[4] == "1":
            aborted[t[1]] = int(t[7]) > int(t[8]) or (t[5] == "1" and "deliver" in acts)
        elif t[2] == "0":
            if aborted.get(t[1]) and "send " in acts:
                ctx.cover("unsecured_forward_after_aborted_secured_same_thread")
            aborted[t[1]] = False
    lf_keys = set()
    for op in case["ops"]:
        if op[0] == "rx":
            dd = decode(bytes.fromhex(op[1]))
            k = (dd.get("so"), dd.get("sn")) if dd["kind"] in MULTI else None
            if k is not None and k in lf_keys:
                ctx.cover("fault_ll_send_refused_then_copy_received")
            if len(op) > 4 and op[4] and op[4].get("lf"):
                ctx.cover("fault_ll_send_refused_rx_" + dd["kind"])
                if k is not None:
                    lf_keys.add(k)
        elif op[0] == "fire" and len(op) > 2 and op[2] and op[2].get("lf"):
            ctx.cover("fault_ll_send_refused_at_cbf_expiry")
    ctx.cover("fault_ll_send_refused_attempts", orc.ll_refused)
    ctx.cover("op_nested_rx", sum(1 for op in case["ops"] if op[0] == "rx" and len(op) > 4 and op[4].get("nest")))
    ctx.cover("cfg_sec_%d%d" % tuple(int(x) for x in case["cfg"].get("sec", (0, 0))))
    ctx.cover("cfg_cbf" if case["cfg"]["cbf"] else "cfg_simple")
    ctx.cover(f"dpl_len_{case['cfg']['dpl']}")
    n1 = sum(1 for v in orc.count.values() if v[0] > 0)
    ctx.cover("distinct_so_sn_delivered", n1)
    ctx.nontrivial(("single", case["cfg"]["base"], len(case["ops"]), case["cfg"]["dpl"], case["cfg"]["cbf"]))


_BUF_KIND = re.compile(r"(\d+:\d+):(?:P|S\d+)")


def flush_model(ctx):
    batch = ctx.extra.pop("_batch", [])
    if not batch or not ctx.model_ok:
        return
    lines = []
    for b in batch:
        lines += b[2]
    mo = ctx.model("GeoRouter", lines)
    k = 0
    for case, outs, ls in batch:
        for i, r in enumerate(outs):
            m = mo[k + i]
            if ":?" in r.partition(" # ")[2] and " # " in m:
                # the real timer does not hold a finished PDU (see Station.buf_str): compare the buffer keys only
                m = m.partition(" # ")[0] + " # " + _BUF_KIND.sub(r"\1:?", m.partition(" # ")[2])
            if r != m:
                ctx.mismatch("router.history", {"case": case,
                                                "line": ls[i]}, r, mo[k + i])
                break
        k += len(outs)


# ------------------------------------------------------------------------------------------------ topologies

def gen_topo(rng):
    n = rng.randrange(3, 6)
    shape = rng.choice(["line", "mesh", "ring"])
    if shape == "mesh":
        adj = {i: [j for j in range(n) if j != i] for i in range(n)}
    elif shape == "line":
        adj = {i: [j for j in (i - 1, i + 1) if 0 <= j < n] for i in range(n)}
    else:
        adj = {i: sorted({(i - 1) % n, (i + 1) % n} - {i}) for i in range(n)}
    cfg = dict(lifetime_s=20, dpl=rng.choice([1, 2, 8]), cbf=rng.randrange(2), pdr_max=10**9, base=rng.randrange(10**9, 10**12))
    # a quarter of the networks consists of stations with a verify service (itsGnSecurity DISABLED: secured and unsecured
    # floods side by side); their secured floods are forwarded hop by hop WITH the envelope and verified again at every hop
    secure = rng.random() < 0.25
    if secure:
        cfg["sec"] = [1, 0]
    floods = []
    for o in rng.sample(range(n), rng.randrange(1, 4)):
        floods.append(dict(kind=rng.choice(["tsb", "gbc", "tsb", "gbc", "ls_request"]), origin=o, sn=rng.randrange(65536),
                           rhl=rng.choice([1, 2, 3, n, 10, 255]), dup_origin=rng.random() < 0.3))
        if secure and rng.random() < 0.6:
            floods[-1]["sec"] = rng.choice(["d", "c"])
    if rng.random() < 0.2:
        # a second packet of the same origin: with a short duplicate packet list the window hypothesis of the network
        # theorem fails at stations that hear both, and the global bounds are then not claimed
        f0 = floods[0]
        floods.append(dict(kind=rng.choice(["tsb", "gbc"]), origin=f0["origin"], sn=(f0["sn"] + 1) % 65536,
                           rhl=rng.choice([2, 3, n, 10]), dup_origin=False))
    medium = rng.choice(["ideal", "ideal", "ideal", "lossy", "dup"])
    return {"kind": "topo", "n": n, "shape": shape, "adj": {str(k): v for k, v in adj.items()}, "cfg": cfg, "floods": floods,
            "seed": rng.randrange(1 << 30), "beacons": rng.random() < 0.7, "medium": medium}


def flood_hyp(n, dpl, lifetime_ms, a, sn, B, lim, rx_log):
    """the hypotheses of Props.C06.network_flood_at_most_once (FloodHyp), transcribed independently of the model for stations
    that start with empty tables and buffers: every reception happens inside the clock window [B, B + 2^31) and not after
    `lim`; every packet of `a` carries a position timestamp T in the window with lim <= T + lifetime (the entry of `a` cannot
    expire before `lim`); every station receives at most dpl - 1 multi-hop packets of `a` with another sequence number"""
    for j in range(n):
        others = 0
        for d, T, now in rx_log[j]:
            if not (B <= now < B + HALF and now <= lim):
                return False
            if d["so"] == a:
                if not (B <= T < B + HALF and lim <= T + lifetime_ms):
                    return False
                if d["kind"] in MULTI and d["sn"] != sn:
                    others += 1
        if dpl < 1 or others > dpl - 1:
            return False
    return True


def run_topo(case, clock):
    """Runs the flood(s) on real routers over an in-memory ether that has exactly the structure of the Lean network model
    (`FlexModel/Geo/Net.lean`): the air is a list of (destination, frame, hops made); one step delivers the j-th entry, fires
    a CBF timer or loses an entry; every frame a station transmits is appended once per receiver chosen by the medium.
    Returns (expected model outputs, model lines, findings, stats)."""
    import random as _random
    rng = _random.Random(case["seed"])
    VTimer.stations.clear()
    n, cfg = case["n"], case["cfg"]
    medium = case.get("medium", "ideal")
    adj = {int(k): v for k, v in case["adj"].items()}
    addrs = [addr_int(20 + i) for i in range(n)]
    pos = [(EGO[0] + 25000 * i, EGO[1]) for i in range(n)]
    sts = [Station(clock, cfg, addrs[i], pos[i]) for i in range(n)]
    orcs = [StationOracle(addrs[i], cfg) for i in range(n)]
    life = cfg["lifetime_s"] * 1000
    outs = ["ok"] + ["ok"] * n
    lines = ["nreset"] + [f"nnode {addrs[i]} {life} {cfg['dpl']} {cfg['cbf']}" for i in range(n)]
    bad, now = [], cfg["base"]
    air = []             # entries [dest, frame, hops, real time of the SO PV]
    buf_hops = {}        # (station, key) -> hops the buffered copy will have made when sent
    tx_count, dl_count = {}, {}   # (station, so, sn) -> transmissions / deliveries to the upper layer
    rx_log = [[] for _ in range(n)]
    B = cfg["base"] - 10000

    def receivers(i):
        r = list(adj[i])
        if medium == "lossy":
            r = [j for j in r if rng.random() < 0.8]
        elif medium == "dup" and r and rng.random() < 0.3:
            r.insert(rng.randrange(len(r) + 1), rng.choice(r))
        return r

    def originate(fr, o, T):
        d = decode(fr)
        for j in adj[o]:
            air.append([j, fr, 0, T])
            lines.append(f"nair {j} " + pkt_str(dict(d, tst=T)))
            outs.append("ok")

    if case["beacons"]:
        for i in range(n):
            originate(frame("beacon", lpv(addrs[i], now, pos[i][0], pos[i][1])), i, now)
    limit = 0
    floods = []
    for fl in case["floods"]:
        o = fl["origin"]
        kw = dict(sn=fl["sn"], rhl=fl["rhl"], mhl=max(fl["rhl"], 10), payload=b"flood")
        if fl["kind"] == "gbc":
            mid_lat = EGO[0] + 25000 * (n // 2)
            kw["area"] = (mid_lat, EGO[1], 1500, 1500, 0)
        if fl["kind"] == "ls_request":
            kw["de"] = addr_int(999)
        fr = frame(fl["kind"], lpv(addrs[o], now, pos[o][0], pos[o][1]), **kw)
        if fl.get("sec"):
            fr = SecWorld.get().secure(fr, fl["sec"], now)
        originate(fr, o, now)
        if fl["dup_origin"]:
            originate(fr, o, now)
        floods.append((addrs[o], fl["sn"], fl["rhl"], o))
        limit += n * (4 * n * (fl["rhl"] + 2) + 20)
    limit += 50 + 2 * n * n
    flood_h = {(a, sn): h for a, sn, h, _ in floods}

    def hop_check(d, hops, what):
        h = flood_h.get((d["so"], d["sn"]))
        if h is not None and d["kind"] in MULTI and d["rhl"] + hops != h:
            bad.append((f"{what}: copy of ({d['so']},{d['sn']}) carries RHL {d['rhl']} after {hops} hop(s), originated with {h}", None))

    def put_on_air(i, entries, hops, T):
        new = []
        rcv = receivers(i)
        for e in entries:
            if e[0] != "send":
                continue
            q = decode(e[1])
            if q["so"] == addrs[i]:
                continue                  # originated by the station itself (LS reply): not part of the network model
            k = (i, q["so"], q["sn"])
            tx_count[k] = tx_count.get(k, 0) + 1
            hop_check(q, hops, f"station {i} transmitted")
            for j in rcv:
                air.append([j, e[1], hops, T])
                new.append(f"{j}:{hops}")
        return rcv, " ".join(new)

    def hops_query():
        for a, sn, h, _ in floods:
            ok = all(not (decode(x[1])["so"] == a and decode(x[1])["sn"] == sn) or decode(x[1])["rhl"] + x[2] == h for x in air)
            for i in range(n):
                cause = orcs[i].armed.get((a, sn))
                if cause is not None and cause[3] - 1 + buf_hops.get((i, (a, sn)), 0) != h:
                    ok = False
            lines.append(f"nhops {a} {sn} {h}")
            outs.append(str(int(ok)))

    steps = 0
    query_at = rng.randrange(1, 12)
    while steps < limit:
        pending = [(i, k) for i in range(n) for k in list(sts[i].timers)]
        dead = [(i, k) for i in range(n) for k in list(sts[i].dead)]
        if (not air and not pending) or bad:
            break                  # quiescent - or the oracle already has a finding (the rest of the run adds nothing)
        steps += 1
        if steps == query_at:
            hops_query()
        x = rng.random()
        if air and medium == "lossy" and x < 0.05:
            j = rng.randrange(len(air))
            air.pop(j)
            lines.append(f"nlose {j}")
            outs.append(f"none | air {len(air)}")
        elif air and (not pending or x < 0.7):
            j = rng.randrange(len(air)) if rng.random() < 0.3 else 0
            i, fr, hops, T = air.pop(j)
            now += rng.randrange(0, 3)
            _, entries, line, d = sts[i].rx(fr, now)
            out = sts[i].canon(entries, d)
            orcs[i].rx(fr, d, T, now, entries)
            rx_log[i].append((d, T, now))
            hop_check(d, hops, f"station {i} received")
            for e in entries:
                if e[0] == "arm":
                    buf_hops[(i, e[1])] = hops + 1
            k = (i, d["so"], d["sn"])
            if d["kind"] in MULTI:
                dl_count[k] = dl_count.get(k, 0) + sum(1 for e in entries if e[0] == "deliver")
            rcv, new = put_on_air(i, entries, hops + 1, T)
            env = d["env"]
            lines.append(f"nrx {j} {env} {now} " + " ".join(map(str, rcv)))
            outs.append(f"st {i} | rx {pkt_str(d)} hops {hops} | {out} | new {new} | air {len(air)} | "
                        f"tx {tx_count.get(k, 0)} dl {dl_count.get(k, 0)}")
        else:
            # a pending timer expires - or, now and then, one that was cancelled (expiry racing with the cancellation)
            i, key = dead[rng.randrange(len(dead))] if dead and (not pending or rng.random() < 0.15) else pending[rng.randrange(len(pending))]
            out, entries, line = sts[i].fire(key, wire=False)
            orcs[i].fire(key, entries)
            rcv, new = put_on_air(i, entries, buf_hops.get((i, key), 0), now)
            k = (i, key[0], key[1])
            lines.append(f"nfire {i} {key[0]} {key[1]} " + " ".join(map(str, rcv)))
            outs.append(f"st {i} | fire {key[0]} {key[1]} | {out} | new {new} | air {len(air)} | "
                        f"tx {tx_count.get(k, 0)} dl {dl_count.get(k, 0)}")
        for i in range(n):
            for what, kf in orcs[i].bad:
                bad.append((what, kf))
            orcs[i].bad = []
    if not bad and (air or any(sts[i].timers for i in range(n))):
        bad.append((f"flood did not terminate within {limit} ether steps ({len(air)} frames still in flight)", None))
    hops_query()
    # the network-level claim (Props.C06.network_flood_at_most_once), judged on the real routers
    lim = now
    hyp_true = attained = 0
    for a, sn, h, o in floods:
        hyp = flood_hyp(n, cfg["dpl"], life, a, sn, B, lim, rx_log)
        hyp_true += hyp
        tx = [tx_count.get((j, a, sn), 0) for j in range(n)]
        dl = [dl_count.get((j, a, sn), 0) for j in range(n)]
        lines.append(f"ncount {a} {sn}")
        outs.append("tx " + " ".join(map(str, tx)) + " | dl " + " ".join(map(str, dl)) + f" | total {sum(tx)}")
        lines.append(f"nhyp {a} {sn} {B} {lim}")
        outs.append(str(int(hyp)))
        if tx[o] or dl[o]:
            bad.append((f"station {o} re-transmitted / delivered its own packet ({a},{sn}): tx {tx[o]}, deliveries {dl[o]}", None))
        if hyp:
            for j in range(n):
                if tx[j] > 1:
                    bad.append((f"station {j} transmitted ({a},{sn}) {tx[j]} times", None))
                if dl[j] > 1:
                    bad.append((f"station {j} delivered ({a},{sn}) {dl[j]} times", None))
            attained += sum(tx) == n - 1
            if sum(tx) > n - 1:
                bad.append((f"flood ({a},{sn}): {sum(tx)} re-transmissions in a network of {n} stations", None))
    return outs, lines, bad, dict(steps=steps, tx=sum(tx_count.values()), hyp_true=hyp_true, hyp_false=len(floods) - hyp_true,
                                 attained=attained)


def check_topo(ctx, case, clock, use_model=True):
    outs, lines, bad, stats = run_topo(case, clock)
    ctx.evals(stats["steps"])
    for what, kf in bad[:1]:
        ctx.violation(what, case, kf)
    if use_model and ctx.model_ok:
        ctx.extra.setdefault("_batch", []).append((case, outs, lines))
    ctx.cover(f"topo_{case['shape']}_{case['n']}")
    ctx.cover(f"topo_medium_{case.get('medium', 'ideal')}")
    if case["cfg"].get("sec"):
        ctx.cover("topo_verifying_stations")
        ctx.cover("topo_secured_floods", sum(1 for f in case["floods"] if f.get("sec")))
    ctx.cover("topo_transmissions", stats["tx"])
    ctx.cover("flood_hyp_true", stats["hyp_true"])
    ctx.cover("flood_hyp_false", stats["hyp_false"])
    ctx.cover("flood_bound_n_minus_1_attained", stats["attained"])
    ctx.nontrivial(("topo", case["seed"]))


# ------------------------------------------------------------------------------------------------ two receive threads

def _loct_mod():
    import flexstack.geonet.location_table as loct_mod
    return loct_mod


def conc_codes():
    """code objects traced at opcode granularity: every method of the location table and of its entries (the rest of
    router.py / location_table.py is pre-empted at line granularity and at every lock boundary)"""
    lm = _loct_mod()
    out = []
    for cls in (lm.LocationTable, lm.LocationTableEntry):
        for f in vars(cls).values():
            f = getattr(f, "__func__", f)
            if hasattr(f, "__code__"):
                out.append(f.__code__)
    return out


def gen_conc(rng, focus=None):
    """Two link-layer receive threads on ONE router (each reception = `gn_data_indicate` as a link layer's receive loop calls
    it), then - sequentially - exact duplicates of everything, then the CBF timers.  Thread B receives the FIRST multi-hop
    packet(s) of a source the station may never have heard of (its LocTE and duplicate packet list are created by that
    reception); thread A receives beacons / SHBs / multi-hop packets of other sources (every reception purges the location
    table twice) or the very same frame as B.  The clock stands still and every position vector is fresh: nothing expires,
    and no source sends more distinct sequence numbers than the duplicate packet list holds - so EVERY (SO,SN) is inside
    the duplicate-detection window for the whole case.
    `focus="cbf"` (round 6): contention-based forwarding, one thread receives a GBC packet inside the destination area (it
    is buffered), the other thread overhears a copy of the SAME packet (same RHL or the lower one of a faster forwarder),
    possibly after a beacon / another packet; schedules are enumerated with pre-emption at every line / lock boundary
    INSIDE `Router.gn_area_cbf_forwarding` (and its callees) only - see `ConcRun` for the rule judged."""
    cfg = dict(lifetime_s=rng.choice([5, 20]), dpl=rng.choice([2, 4, 8]), cbf=1 if focus == "cbf" else rng.randrange(2),
               pdr_max=10**9, base=rng.randrange(10**9, 10**12), sec=[0, 0])
    me, S, N, third = addr_int(1), addr_int(31), addr_int(32), addr_int(77)
    now = cfg["base"]
    sn = {S: rng.choice([0, 100, 65535]), N: rng.randrange(65536)}
    pos = {S: (EGO[0] + 9000, EGO[1] - 4000), N: (EGO[0] - 7000, EGO[1] + 12000)}

    def multi(a, kind=None):
        kind = kind or rng.choice(["tsb", "tsb", "gbc", "gbc", "gac", "ls_request", "guc"])
        k = sn[a]
        sn[a] = (k + 1) % 65536
        kw = dict(sn=k, rhl=rng.choice([2, 3, 10]), mhl=10, payload=b"c" + bytes([k >> 8, k & 255]))
        if kind == "gbc":
            kw["area"] = (EGO[0], EGO[1], 800, 800, 0)
        if kind == "gac":
            kw["area"] = (FAR[0], FAR[1], 300, 300, 0)
        if kind == "guc":
            kw["de"] = spv(third, now, 7, 8)
        if kind == "ls_request":
            kw["de"] = third
        T = now - rng.randrange(0, 900)
        return ["rx", frame(kind, lpv(a, T, *pos[a]), **kw).hex(), T, now]

    def single(a):
        T = now - rng.randrange(0, 900)
        return ["rx", frame(rng.choice(["beacon", "shb"]), lpv(a, T, *pos[a]), payload=b"s").hex(), T, now]

    def overheard(op):
        """the same packet as re-broadcast by another forwarder: only the RHL may differ"""
        b = bytearray.fromhex(op[1])
        b[3] = rng.choice([b[3], max(1, b[3] - 1), max(1, b[3] - rng.randrange(1, 4))])
        return [op[0], bytes(b).hex(), op[2], op[3]]

    pre = []
    if rng.random() < 0.3:
        pre.append(single(S) if rng.random() < 0.5 else multi(S))      # S is already known
    if rng.random() < 0.5:
        pre.append(single(N))
    if focus == "cbf":
        tb = [multi(S, "gbc")]
        if rng.random() < 0.3:
            tb.insert(0, multi(S, rng.choice(["gbc", "tsb"])))
        ta = [overheard(tb[-1])]
        if rng.random() < 0.4:
            ta.insert(0, single(N) if rng.random() < 0.5 else multi(N, rng.choice(["gbc", "tsb"])))
        threads = [ta, tb]
        if rng.random() < 0.5:
            threads.reverse()
        dup = [list(op) for th in threads for op in th if decode(bytes.fromhex(op[1]))["kind"] in MULTI]
        rng.shuffle(dup)
        return {"kind": "conc", "focus": "cbf", "cfg": cfg, "self": me, "ego": list(EGO), "pre": pre, "threads": threads,
                "post": dup, "schedule": []}
    tb = [multi(S)]
    if rng.random() < 0.3:
        tb.append(multi(S))
    ta = []
    for _ in range(rng.randrange(1, 3)):
        x = rng.random()
        ta.append(single(N) if x < 0.5 else multi(N) if x < 0.8 else list(rng.choice(tb)))
    threads = [ta, tb]
    if rng.random() < 0.5:
        threads.reverse()
    dup = [list(op) for th in threads for op in th if decode(bytes.fromhex(op[1]))["kind"] in MULTI]
    rng.shuffle(dup)
    return {"kind": "conc", "cfg": cfg, "self": me, "ego": list(EGO), "pre": pre, "threads": threads, "post": dup,
            "schedule": []}


def rle(xs):
    """run-length form of a schedule (a list of thread ids, one per branching step): [[tid, n], ...]"""
    out = []
    for x in xs:
        if out and out[-1][0] == x:
            out[-1][1] += 1
        else:
            out.append([x, 1])
    return out


def unrle(xs):
    out = []
    for x in xs or []:
        if isinstance(x, (list, tuple)):
            out += [x[0]] * x[1]
        else:
            out.append(x)
    return out


class ConcRun:
    """one execution of a `conc` case on a real Router under harness/dsched.py (locks of router.py / location_table.py
    replaced by scheduler-aware ones, exactly one thread runs at a time, pre-emption at lock boundaries, at every line of
    the two files and at every shared-state bytecode of the location table).  Judged by counting, independently of the
    code: every (SO,SN) is inside the duplicate-detection window for the whole case (see gen_conc), so it may be delivered
    at most once and re-transmitted (immediately or at CBF timer expiry) at most once."""

    def __init__(self, case, policy, clock, max_steps=60000):
        import dsched
        lm = _loct_mod()
        VTimer.stations.clear()
        cfg = dict(case["cfg"], sec=[0, 0])
        self.bad, self.abort, self.excs, self.bad_cbf = [], None, [], []
        with dsched.patched([router_mod, lm], extra={"Timer": VTimer}):
            st = Station(clock, cfg, case["self"], tuple(case.get("ego", EGO)))
            try:
                st.set_now(cfg["base"])
                st.log = []
                with rs.quiet():
                    for op in case.get("pre", []):
                        st.r.gn_data_indicate(bytes.fromhex(op[1]))
                focus = None
                if case.get("focus") == "cbf":
                    focus = [Router.gn_area_cbf_forwarding.__code__]
                s = dsched.DSched(policy, line_files=[router_mod.__file__, lm.__file__], opcode_codes=conc_codes(),
                                  max_steps=max_steps, focus_codes=focus)
                ev = self.cbf_ev = []
                self._spy_cbf(st.r, ev)

                def body(ops):
                    def f():
                        for op in ops:
                            st.r.gn_data_indicate(bytes.fromhex(op[1]))
                    return f
                for ti, ops in enumerate(case["threads"]):
                    s.spawn(body(ops), name=f"T{ti}")
                with rs.quiet():
                    s.run(timeout=30.0)
                self.steps = s.steps
                self.choices = [c[0] for c in s.steps]
                self.abort = s.abort_reason
                if s.deadlock:
                    self.abort = f"deadlock {s.deadlock}"
                self.excs = [type(t.exc).__name__ for t in s.threads if t.exc is not None]
                if self.abort is None:
                    self._judge_cbf(st, ev)
                    with rs.quiet():
                        for op in case.get("post", []):
                            st.r.gn_data_indicate(bytes.fromhex(op[1]))
                        for key in list(st.timers):
                            t = st.timers.pop(key, None)
                            if t is not None:
                                try:
                                    st.on_thread(TIMER_THREAD, t.fire)
                                except Infra:
                                    raise
                                except Exception as e:  # noqa: BLE001
                                    self.excs.append(type(e).__name__)
                self.log = st.log
            finally:
                st.close()
        self.bad = self.bad_cbf + self.bad
        ids = {}
        for ph in [case.get("pre", [])] + list(case["threads"]) + [case.get("post", [])]:
            for op in ph:
                d = decode(bytes.fromhex(op[1]))
                if d["kind"] in MULTI:
                    ids[(d["so"], d["sn"])] = d["kind"]
        self.count = {k: [0, 0] for k in ids}
        for e in self.log:
            if e[0] == "send":
                q = try_decode(e[1])
                if q is not None and q["kind"] in MULTI and q["so"] != case["self"] and (q["so"], q["sn"]) in self.count:
                    self.count[(q["so"], q["sn"])][1] += 1
            elif e[0] == "deliver":
                ind = e[1]
                so = ind.source_position_vector.gn_addr.encode_to_int() if ind.source_position_vector else -1
                data = bytes(ind.data or b"")
                if len(data) == 3 and data[0:1] == b"c" and (so, data[1] * 256 + data[2]) in self.count:
                    self.count[(so, data[1] * 256 + data[2])][0] += 1
        for (so, sn), (dl, tx) in sorted(self.count.items()):
            if dl > 1 or tx > 1:
                self.bad.append(f"two receive threads: {ids[(so, sn)]} ({so},{sn}) was delivered {dl} time(s) and re-transmitted "
                                f"{tx} time(s) inside the duplicate-detection window (no entry can have expired: the clock "
                                f"stands still and every position vector is fresh)")


    @staticmethod
    def _spy_cbf(r, ev):
        """event log (total order - one thread runs at a time) of the CBF buffer operations of the router: calls of
        `gn_area_cbf_forwarding` / `_cbf_discard` with the thread that makes them, and every acquisition of `_cbf_lock`"""
        fwd, disc, lock = r.gn_area_cbf_forwarding, r._cbf_discard, r._cbf_lock

        def key_of(k):
            return (k[0].encode_to_int(), k[1])

        class LockSpy:
            def acquire(self, *a, **k):
                got = lock.acquire(*a, **k)
                if got:
                    ev.append(("acq", threading.get_ident()))
                return got

            def release(self):
                return lock.release()

            def locked(self):
                return lock.locked()

            def __enter__(self):
                self.acquire()
                return True

            def __exit__(self, *a):
                self.release()
                return False

        def spy_fwd(basic_header, common_header, ext, packet, *a, **k):
            key = key_of((ext.so_pv.gn_addr, ext.sn))
            ev.append(("fwd_in", threading.get_ident(), key))
            res = None
            try:
                res = fwd(basic_header, common_header, ext, packet, *a, **k)
                return res
            finally:
                ev.append(("fwd_out", threading.get_ident(), key, res))

        def spy_disc(k, *a, **kw):
            res = disc(k, *a, **kw)
            ev.append(("disc_out", threading.get_ident(), key_of(k), res))
            return res
        r.gn_area_cbf_forwarding, r._cbf_discard, r._cbf_lock = spy_fwd, spy_disc, LockSpy()

    def _judge_cbf(self, st, ev):
        """CBF clause, two receive threads (both receptions are complete, no timer has expired - the harness owns the
        timers): once a thread has TESTED whether its copy of (SO,SN) is already buffered (its first `_cbf_lock` section
        inside `gn_area_cbf_forwarding`) and goes on to buffer it, a duplicate overheard by another thread from then on
        (its `_cbf_discard` returns later) must drop the copy - it may not be left waiting in the buffer, to be
        re-broadcast at expiry.  (A duplicate handled BEFORE that test is not judged here: see design notes, round 6.)"""
        for i, e in enumerate(ev):
            if e[0] != "fwd_in":
                continue
            tid, key = e[1], e[2]
            out = next((j for j in range(i + 1, len(ev)) if ev[j][0] == "fwd_out" and ev[j][1] == tid), None)
            if out is None or ev[out][3] is not True:
                continue
            t1 = next((j for j in range(i + 1, out) if ev[j][0] == "acq" and ev[j][1] == tid), None)
            if t1 is None:
                continue
            late = [j for j in range(t1 + 1, len(ev)) if ev[j][0] == "disc_out" and ev[j][1] != tid and ev[j][2] == key]
            t = st.timers.get(key)
            if not late or t is None:
                continue
            n0 = len(st.log)
            st.timers.pop(key, None)
            try:
                with rs.quiet():
                    st.on_thread(TIMER_THREAD, t.fire)
            except Infra:
                raise
            except Exception as e2:  # noqa: BLE001
                self.excs.append(type(e2).__name__)
            sent = [x for x in st.log[n0:] if x[0] == "send"]
            if sent:
                where = "while the copy was being buffered (after the 'already buffered?' test, before the insertion)" \
                    if late[0] < out else "after the copy was buffered"
                self.bad_cbf.append(
                    f"two receive threads, CBF: gbc ({key[0]},{key[1]}) - a duplicate was overheard {where} and handled "
                    f"completely (DPD -> _cbf_discard returned {ev[late[0]][3]}), yet the copy stayed in the CBF buffer and was "
                    f"re-broadcast at timer expiry (RHL {sent[0][1][3]}): a waiting copy must be dropped when a duplicate is overheard")


def check_conc(ctx, case, clock, cap, pct=2, fine_cap=0):
    """coarse schedules (a thread is switched where it takes / releases a lock, starts or ends) with at most one
    pre-emption in breadth-first order, then a few PCT schedules at full granularity; `fine_cap` (failing-input search):
    that many schedules with one pre-emption at ANY point (every line of router.py / location_table.py, every shared-state
    bytecode of the location table) in random order - for races that involve no lock boundary at all"""
    import dsched
    found = []

    def handle(run):
        ctx.evals(1)
        ctx.cover("conc_schedules")
        ctx.cover("conc_preemptions_%d" % min(dsched.preemptions(run.steps), 3))
        if run.abort or run.excs:
            ctx.mismatch("router.conc_abort", {"case": dict(case, schedule=rle(run.choices))}, f"{run.abort} {run.excs}", "both receptions complete")
        if run.bad and not found:
            found.append(run)
            ctx.violation(run.bad[0], dict(case, schedule=rle(run.choices)))
        if any(v[0] for v in run.count.values()):
            ctx.cover("conc_runs_with_delivery")
        return run

    def once(prefix):
        if found:
            return []
        return handle(ConcRun(case, dsched.Replay(prefix), clock)).steps
    if case.get("focus"):
        # pre-emption points exist only inside the focus function: every kind of point (line, lock boundary), <= 1 pre-emption
        dsched.enumerate_schedules(once, 1, cap, ctx.rng, kinds=dsched.BRANCH_KINDS | {"line"}, order="bfs")
        ctx.cover("conc_focus_%s_cases" % case["focus"])
    else:
        dsched.enumerate_schedules(once, 1, cap, ctx.rng, kinds=dsched.COARSE_KINDS, order="bfs")
    if fine_cap and not found:
        dsched.enumerate_schedules(once, 1, fine_cap, ctx.rng)
    est = 400
    for i in range(pct):
        if found:
            break
        r = handle(ConcRun(case, dsched.PCT(ctx.rng, depth=2 + i % 2, est_steps=est), clock))
        est = max(est, len(r.steps))
    ctx.cover("conc_cases")
    ctx.cover("conc_cfg_cbf" if case["cfg"]["cbf"] else "conc_cfg_simple")
    ctx.nontrivial(("conc", case["cfg"]["base"], len(case["post"])))
    return bool(found)


# ------------------------------------------------------------------------------------------------ entry points

class Patched:
    def __enter__(self):
        router_mod.Timer = VTimer
        _install_area_spy()
        self.clock = rs.VClock(1_700_000_000_000).install()
        return self.clock

    def __exit__(self, *a):
        self.clock.uninstall()
        _remove_area_spy()
        router_mod.Timer = threading.Timer
        VTimer.stations.clear()


def run(ctx):
    ctx.extra["rule"] = ("single-station histories (fresh / exact duplicate / replayed frames of 6 multi-hop kinds from 2-5 "
                         "sources incl. own address, RHL 0..255, MHL >=/< RHL, SN wrap, DPL length 1..16, SIMPLE and CBF with "
                         "harness-fired timers, beacons/SHB for neighbour state, clock steps up to 3 lifetimes; stations with / "
                         "without a verify service and itsGnSecurity on/off, frames received unsecured or secured with 5 kinds "
                         "of envelope, dispatch aborted after verification, two receive threads, nested receptions) and floods "
                         "(secured ones too) on line/ring/mesh topologies of 3-5 real routers; two receive threads on one router "
                         "under dsched (schedules with <= 1 pre-emption at lock-section granularity + PCT); "
                         "distinct_nontrivial counts distinct histories/topologies/two-thread cases")
    with Patched() as clock:
        wit = next((k.get("witness") for k in ctx.known if k["id"] == "C06-KF1"), None)
        if wit:
            _, _, wbad, _ = run_single(wit, clock)
            ctx.extra["variant"] = {"C06-KF1": "duplicate list dies with the LocTE (code as is)"
                                    if any(kf == "C06-KF1" for _, _, kf in wbad) else "stale replay suppressed (repaired)"}
        for name, c in corpus("C06"):
            if c.get("kind") == "single":
                check_single(ctx, c, clock)
            elif c.get("kind") == "topo":
                check_topo(ctx, c, clock)
            elif c.get("kind") == "conc":
                replay_conc(ctx, c, clock)
            ctx.cover("corpus_cases")
        for i in range(ctx.scale(250, 9000)):       # (real ECDSA verification on about a third of the receptions)
            case = gen_single(ctx.rng, ctx.rng.randrange(5, ctx.scale(50, 120)))
            check_single(ctx, case, clock)
            if i == 0:
                ctx.sample("single", {"cfg": case["cfg"], "n_ops": len(case["ops"])})
        for i in range(ctx.scale(40, 3000)):
            case = gen_topo(ctx.rng)
            check_topo(ctx, case, clock)
            if i == 0:
                ctx.sample("topology", {k: case[k] for k in ("n", "shape", "floods", "cfg")})
        for i in range(ctx.scale(5, 150)):          # two receive threads under the deterministic scheduler
            case = gen_conc(ctx.rng)
            check_conc(ctx, case, clock, cap=ctx.scale(30, 200), pct=ctx.scale(2, 10))
            if i == 0:
                ctx.sample("conc", {k: case[k] for k in ("cfg", "threads")})
        for i in range(ctx.scale(3, 60)):           # CBF: a duplicate overheard while the other thread buffers its copy
            check_conc(ctx, gen_conc(ctx.rng, focus="cbf"), clock, cap=ctx.scale(30, 150), pct=0)
        flush_model(ctx)


def replay_conc(ctx, case, clock):
    import dsched
    run = ConcRun(case, dsched.Replay(unrle(case.get("schedule", []))), clock)
    ctx.evals(1)
    if run.bad:
        ctx.violation(run.bad[0], case)
    return run


def search(ctx):
    ok = ctx.model_ok
    ctx.model_ok = False
    try:
        with Patched() as clock:
            for m in ctx.mismatches[:5]:
                inp = m.get("input")
                if isinstance(inp, dict) and isinstance(inp.get("case"), dict) and inp["case"].get("kind") == "single":
                    check_single(ctx, inp["case"], clock, use_model=False)
                elif isinstance(inp, dict) and isinstance(inp.get("case"), dict) and inp["case"].get("kind") == "topo":
                    check_topo(ctx, inp["case"], clock, use_model=False)
                elif isinstance(inp, dict) and isinstance(inp.get("case"), dict) and inp["case"].get("kind") == "conc":
                    replay_conc(ctx, inp["case"], clock)
            for _ in range(ctx.scale(750, 12000)):
                if ctx.violations:
                    break
                check_single(ctx, gen_single(ctx.rng, ctx.rng.randrange(5, 60)), clock, use_model=False)
            for _ in range(ctx.scale(15, 300)):
                if ctx.violations:
                    break
                check_conc(ctx, gen_conc(ctx.rng), clock, cap=ctx.scale(90, 400), pct=ctx.scale(6, 20), fine_cap=ctx.scale(100, 800))
            for _ in range(ctx.scale(10, 100)):
                if ctx.violations:
                    break
                check_conc(ctx, gen_conc(ctx.rng, focus="cbf"), clock, cap=ctx.scale(120, 400), pct=0)
            for _ in range(ctx.scale(120, 3000)):
                if ctx.violations:
                    break
                check_topo(ctx, gen_topo(ctx.rng), clock, use_model=False)
    finally:
        ctx.model_ok = ok


def replay(ctx, obj):
    case = obj.get("case", obj)
    known = {k["id"] for k in ctx.known if k.get("status") == "known"}
    with Patched() as clock:
        if case.get("kind") == "single":
            _, _, bad, _ = run_single(case, clock)
            for i, what, kf in bad:
                print(f"op {i}: {what}" + (f" [{kf}]" if kf else ""))
            return any(kf is None or kf not in known for _, _, kf in bad)
        if case.get("kind") == "topo":
            _, _, bad, stats = run_topo(case, clock)
            for what, kf in bad[:20]:
                print(what + (f" [{kf}]" if kf else ""))
            print(stats)
            return any(kf is None or kf not in known for _, kf in bad)
        if case.get("kind") == "conc":
            import dsched
            run = ConcRun(case, dsched.Replay(unrle(case.get("schedule", []))), clock)
            for w in run.bad:
                print(w)
            if run.abort or run.excs:
                print("run aborted:", run.abort, run.excs)
            print({f"{k[0]}:{k[1]}": v for k, v in run.count.items()})
            return bool(run.bad)
    raise Infra(f"unknown replay kind {case.get('kind')}")

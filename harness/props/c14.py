"""C14 — LDM subscriptions notify exactly the matching data, at the requested cadence.

Theorems: lean/Props/C14.lean about lean/FlexModel/Ldm/Subs.lean.
Tie: random histories of register/deregister consumer, subscribe, unsubscribe, add, delete, explicit and reactive
attendance and clock advances through a real LDMFactory facility (LDMServiceReactive; TimeService.time and
time.monotonic virtual) with recording callbacks, line by line against the Lean model.
Oracle: `RefSubs`, a reference subscription model written from the property text; at every attendance it computes,
from the REAL store content, which callbacks must fire and with which objects (C13's brute-force `spec_query`).
"""
from __future__ import annotations

import collections

from common import Infra, corpus
import ldm_common as L
import props.c13 as c13

MODULES = ["Props.C14"]
DRIVERS = ["Ldm"]
TRUSTED = [
    "callbacks are plain recorders (a callback that re-enters the LDM is out of scope); the store content used by the "
    "oracle at an attendance is read back from the real database after the operation (C12 covers the store itself)",
] + c13.TRUSTED[:1]
ASSUMPTIONS = [
    "attendance happens when attend_subscriptions is called explicitly and, reactively, inside add_provider_data of a "
    "registered provider when >= 0.5 s (monotonic) passed since the last reactive attendance (LDMServiceReactive)",
    "the LDM clock has one-second resolution: `now` = whole UTC seconds; a subscription's interval starts at the "
    "subscription and restarts at every notification",
    "several invalid fields in one subscription request: any of the matching refusal codes is accepted by the oracle "
    "(the model and Props.C14.validation_codes pin the code's ladder order)",
    "orders in subscriptions are tuples (a list makes SubscribeDataobjectsReq unhashable: TypeError at subscribe, "
    "compared model-vs-code only); order attributes missing in a selected object fall under C13-KF2",
    "known finding C14-KF1: the subscription id is hash(request), so equal requests share one id and unsubscribing one "
    "removes all of them (pinned by tests/.../test_ldm_service.py::test_delete_subscription)",
]

CFG = c13.CFG
FAR = c13.FAR
MAX_NOTIFY = 4398046511103


class RefSubs:
    """reference subscription model (property text)"""

    def __init__(self):
        self.consumers, self.providers = set(), set()
        self.subs = collections.OrderedDict()       # cb -> dict(req fields, last, issued index)
        self.issued = []                            # cb of every successful subscribe, in order
        self.utc, self.mono = L.UTC0_MS, L.MONO0_MS
        self.last_attend = L.MONO0_MS
        self.dead_twins = {}                        # cb -> reason, for C14-KF1 classification

    def now(self):
        return L.now_its(self.utc)

    def refusal_causes(self, op):
        _, cb, app, types, prio, flt, notify, mult, order = op
        causes = set()
        if app not in self.consumers:
            causes.add(1)
        if any(t not in c13_types() for t in types):
            causes.add(2)
        if prio is not None and not 0 <= prio <= 255:
            causes.add(3)
        if flt == "!":
            causes.add(4)
        if notify is not None and not 0 <= notify <= MAX_NOTIFY:
            causes.add(5)
        if mult is not None and not 0 <= mult <= 255:
            causes.add(6)
        if order == "!":
            causes.add(7)
        return causes

    def attendance(self, stored):
        """expected callbacks {cb: [record tokens]} at an attendance over `stored`; None = undefined (C13-KF2)"""
        expected = {}
        now = self.now()
        for cb, s in list(self.subs.items()):
            if s["app"] not in self.consumers:
                del self.subs[cb]                   # deregistered: never notified again
                continue
            kind, objs = c13.spec_query(stored, set(s["types"]), s["flt"], s["order"])
            if kind != "ok":
                return None
            need = max(1, s["mult"] or 0)
            if len(objs) >= need and now >= s["last"] + (s["notify"] or 0):
                expected[cb] = [L.ser_record(d) for d in objs]
                s["last"] = now
        return expected

    def step(self, op, line, stored):
        bad = []
        n = op[0]
        head, _, calls = L.split_line(line)
        got = {}
        for cb, app, recs in calls:
            if cb in got:
                bad.append((f"callback {cb} invoked twice in one attendance", None))
            got[cb] = (app, recs)
        expected = {}
        attended = False
        if head and head[0] == "x":
            bad.append((f"{n}: exception {head[1]} escaped", "order-undefined"))
        if n == "regc":
            if head == ["c", "0"]:
                self.consumers.add(op[1])
        elif n == "deregc":
            self.consumers.discard(op[1])
            for cb in [cb for cb, s in self.subs.items() if s["app"] == op[1]]:
                del self.subs[cb]
        elif n == "regp":
            if head == ["c", "0"]:
                self.providers.add(op[1])
        elif n == "deregp":
            self.providers.discard(op[1])
        elif n == "adv":
            self.utc += op[1]
            self.mono += op[1]
        elif n == "sub":
            _, cb, app, types, prio, flt, notify, mult, order = op
            causes = self.refusal_causes(op)
            if causes:
                if head[0] != "c" or len(head) != 2 or int(head[1]) not in causes:
                    bad.append((f"invalid subscription (causes {sorted(causes)}) answered {head}", None))
                    if head[:2] == ["c", "0"]:
                        self._store(op)
            elif head[:2] != ["c", "0"]:
                bad.append((f"valid subscription of registered consumer {app} refused: {head}", None))
            else:
                self._store(op)
        elif n == "unsub":
            _, app, j = op
            ok = head == ["c", "0"]
            cb = self.issued[j] if (j is not None and j < len(self.issued)) else None
            alive = cb in self.subs
            if app not in self.consumers:
                if ok:
                    bad.append((f"unsubscribe by unregistered consumer {app} accepted", None))
            elif alive:
                if not ok:
                    if cb in self.dead_twins:
                        bad.append((f"unsubscribe of subscription {cb} refused: it was removed together with the equal "
                                    f"request of subscription {self.dead_twins[cb]}", "C14-KF1"))
                    else:
                        bad.append((f"unsubscribe of live subscription {cb} refused", None))
                del self.subs[cb]
            elif ok:
                # the id no longer denotes a live subscription, yet something was removed
                twins = [c for c, s in self.subs.items() if cb is not None and s["key"] == self.key_of_issued(j)]
                fid = "C14-KF1" if twins else None
                bad.append((f"unsubscribe with the id of subscription {cb} (not active) accepted; removes {twins}", fid))
                for c in twins:
                    del self.subs[c]
            if ok and alive:
                for c in [c for c, s in self.subs.items() if s["key"] == self.key_of_issued(j)]:
                    self.dead_twins[c] = cb         # equal request, same hash id: the code removes it as well
        elif n == "attend":
            attended = True
        elif n == "add":
            if op[1] in self.providers and head and head[0] in ("c", "x") and (head[0] == "x" or int(head[1]) >= 0):
                if self.mono - self.last_attend >= 500:
                    attended = True
                    if head[0] != "x":
                        self.last_attend = self.mono
        if attended:
            expected = self.attendance(stored)
            if expected is None:
                # order undefined for some subscription (C13-KF2): follow the code, judge nothing
                for cb in got:
                    if cb in self.subs:
                        self.subs[cb]["last"] = self.now()
                return [b for b in bad if b[1] != "order-undefined"] + (
                    [("attendance raised on an order attribute missing in a selected object", "C13-KF2x")]
                    if head and head[0] == "x" else [])
        bad = [(w, None if f == "order-undefined" else f) for w, f in bad]
        for cb, recs in expected.items():
            if cb not in got:
                if cb in self.dead_twins:
                    bad.append((f"subscription {cb} no longer notified after an equal request (subscription "
                                f"{self.dead_twins[cb]}) was unsubscribed", "C14-KF1"))
                    del self.subs[cb]
                else:
                    bad.append((f"{n}: subscription {cb} not notified although {len(recs)} objects match and its interval elapsed", None))
            elif got[cb][1] != recs:
                what = "in the wrong order" if sorted(got[cb][1]) == sorted(recs) else "with other objects"
                bad.append((f"{n}: subscription {cb} notified {what}: got {len(got[cb][1])}, specification {len(recs)}", None))
            elif got[cb][0] != self.subs[cb]["app"]:
                bad.append((f"{n}: notification of {cb} carries application id {got[cb][0]}", None))
        for cb in got:
            if cb not in expected:
                why = ("unsubscribed / consumer deregistered" if cb not in self.subs else
                       "fewer matches than multiplicity, interval not elapsed, or no attendance due")
                bad.append((f"{n}: callback {cb} invoked although {why}", None))
        return bad

    def key_of_issued(self, j):
        return self._keys[j] if j is not None and j < len(self.issued) else None

    _keys = None

    def _store(self, op):
        _, cb, app, types, prio, flt, notify, mult, order = op
        if self._keys is None:
            self._keys = []
        key = repr((app, types, prio, flt, notify, mult, order))
        self._keys.append(key)
        self.issued.append(cb)
        self.subs[cb] = dict(app=app, types=types, flt=flt, notify=notify, mult=mult, order=order, last=self.now(), key=key)


_T = {}


def c13_types():
    if not _T:
        import props.c12 as c12
        _T.update(c12.TYPE_TABLE())
    return _T


# ------------------------------------------------------------------------------------ running

def run_real(hist):
    lines, stores = [], []
    with L.RealLdm(hist["cfg"]) as r:
        for op in hist["ops"]:
            lines.append(r.apply(op))
            stores.append(r.stored() if op[0] in ("add", "attend") else None)
    return lines, stores


def judge(hist, lines, stores):
    ref = RefSubs()
    out = []
    for k, (op, line, st) in enumerate(zip(hist["ops"], lines, stores)):
        for what, fid in ref.step(op, line, st):
            if fid == "C13-KF2x":
                continue            # C13's known finding surfacing through a subscription order: not judged here
            out.append((k, what, fid))
    return out


def detect_variants():
    import props.c12 as c12
    v = c12.detect_variants()
    now = L.now_its(L.UTC0_MS)
    obj = L.ser({"cam": {"generationDeltaTime": 1}})
    ops = [["regp", 2, [2]], ["regc", 2, [2]], ["add", 2, now, FAR, 10 ** 6, obj],
           ["sub", 0, 2, [2], None, None, 0, 1, None], ["sub", 1, 2, [2], None, None, 0, 1, None],
           ["unsub", 2, 0], ["attend"]]
    lines, _ = run_real({"cfg": CFG, "ops": ops})
    v["uniqueIds"] = int("@1:" in lines[-1])
    return v


def check_history(ctx, hist, tag, model_lines=None):
    lines, stores = run_real(hist)
    ctx.evals(len(lines))
    for k, what, fid in judge(hist, lines, stores):
        ctx.violation(f"{tag}: op {k} {hist['ops'][k][0]}: {what}",
                      {"kind": "history", "cfg": hist["cfg"], "ops": hist["ops"][:k + 1]}, fid)
    if model_lines is not None:
        for k, (a, b) in enumerate(zip(lines, model_lines)):
            if a != b and b.startswith("x TypeError") and not a.startswith("x "):
                ctx.cover("kf2_repaired_variant_skips")      # C13-KF2 repaired in the code: the model (as is) raises
                break
            if a != b:
                ctx.mismatch("ldm.subscriptions", {"cfg": hist["cfg"], "ops": hist["ops"][:k + 1]}, a[:400], b[:400])
                break
    return lines


def model_outputs(ctx, hists, variants):
    import props.c12 as c12
    return c12.model_outputs(ctx, hists, variants)


# ------------------------------------------------------------------------------------ generation

def msg(rng, t=None):
    t = t or rng.choice(["cam", "cam", "vam", "denm"])
    body = {"header": {"stationId": rng.choice([1, 2, 3, 7])},
            t: {"generationDeltaTime": rng.choice([0, 1, 5, 9, 100]), "speed": rng.choice([0, 10, 20])}}
    if rng.random() < 0.15:
        del body[t]["speed"]
    return body


def gen_sub_filter(rng):
    x = rng.random()
    if x < 0.4:
        return None
    if x < 0.43:
        return "!"
    def st():
        t = rng.choice(["cam", "cam", "vam", "denm"])
        attr = rng.choice(["header.stationId", f"{t}.generationDeltaTime", f"{t}.speed", f"{t}.nothing"])
        op = rng.choice(["eq", "ne", "gt", "lt", "ge", "le", "like", "notlike"])
        ref = rng.choice([0, 1, 2, 5, 7, 9, 10, 20, 100, "5", None])
        return [attr, op, L.ser(ref)]
    if x < 0.75:
        return [st()]
    return [st(), rng.choice("&|"), st()]


def gen_history(rng, n_ops):
    ops = [["regp", 2, [2]], ["regp", 16, [16]], ["regp", 1, [1]]]
    cons_pool = [2, 16, 1, 5, 35]
    registered = set()
    for a in rng.sample(cons_pool[:4], 2):
        ops.append(["regc", a, [a, 1]])
        registered.add(a)
    cb = 0
    issued = []          # (app) per successful-looking subscribe; bookkeeping only biases the choices
    utc = L.UTC0_MS
    next_id = 0
    reqs = []

    def rare(rng, normal, odd, p=0.06):
        return rng.choice(odd) if rng.random() < p else rng.choice(normal)
    while len(ops) < n_ops:
        x = rng.random()
        app = rng.choice(sorted(registered)) if (registered and rng.random() < 0.8) else rng.choice(cons_pool)
        if x < 0.05:
            perms = rng.choice([[app], [app, 1], [app, 1], []])
            ops.append(["regc", app, perms])
            if perms and 1 <= app <= 21:
                registered.add(app)
        elif x < 0.08:
            ops.append(["deregc", app])
            registered.discard(app)
        elif x < 0.30:
            if reqs and rng.random() < 0.15:
                r = list(rng.choice(reqs))                    # an equal request again (shared id, C14-KF1)
            else:
                types = rare(rng, [[2], [16], [2, 16], [1, 2, 16]], [[2, 99], [], [0]])
                prio = rare(rng, [None, None, 0, 255], [256, -1])
                notify = rare(rng, [None, 0, 0, 1, 500, 1000, 1000, 1500, 2000, 5000, MAX_NOTIFY], [-1, MAX_NOTIFY + 1])
                mult = rare(rng, [None, 0, 1, 1, 1, 2, 3, 255], [256, -1])
                order = rare(rng, [None, None, None, {"kind": "U", "keys": [["header.stationId", rng.choice("ad")]]},
                                   {"kind": "U", "keys": [["header.stationId", rng.choice("ad")],
                                                          ["cam.generationDeltaTime", rng.choice("ad")]]}], ["!"])
                if isinstance(order, dict) and len(order["keys"]) == 2 and types != [2] and rng.random() < 0.85:
                    order = {"kind": "U", "keys": order["keys"][:1]}      # keep C13-KF2 (missing order attribute) rare
                r = [app, types, prio, gen_sub_filter(rng), notify, mult, order]
                reqs.append(r)
            ops.append(["sub", cb] + r)
            cb += 1
            if r[0] in registered:
                issued.append(r[0])
        elif x < 0.36:
            j = rng.randrange(0, len(issued) + 1) if issued else None
            ops.append(["unsub", app, rng.choice([None, j, j, j])])
        elif x < 0.62:
            t = rng.choice(["cam", "cam", "vam", "denm"])
            a = {"cam": 2, "vam": 16, "denm": 1}[t] if rng.random() < 0.9 else 5
            ops.append(["add", a, L.now_its(utc) + next_id, dict(FAR, minC=next_id % 3), 10 ** 6, L.ser(msg(rng, t))])
            next_id += 1
        elif x < 0.66:
            ops.append(["del", 2, rng.randrange(0, next_id + 1)])
        elif x < 0.80:
            ops.append(["attend"])
        else:
            ms = rng.choice([125, 250, 375, 500, 500, 875, 1000, 1000, 1125, 2000, 5000])
            utc += ms
            ops.append(["adv", ms])
    ops.append(["adv", 5000])
    ops.append(["attend"])
    return {"cfg": CFG, "ops": ops}


def boundary_histories():
    now = L.now_its(L.UTC0_MS)
    cam = lambda g, sid=1: L.ser({"header": {"stationId": sid}, "cam": {"generationDeltaTime": g}})
    pre = [["regp", 2, [2]], ["regc", 2, [2, 1]], ["regc", 16, [16]]]
    add = lambda k, g=1, sid=1: ["add", 2, now + k, dict(FAR), 10 ** 6, cam(g, sid)]
    out = []
    # interval boundary at the one-second resolution: notify 1000/1500 ms, attendance after 875/1000/1125/1875/2000 ms
    for notify in (0, 1, 1000, 1500, 2000):
        for adv in (0, 875, 1000, 1125, 1875, 2000):
            out.append({"cfg": CFG, "ops": pre + [add(0), ["sub", 0, 2, [2], None, None, notify, 1, None], ["adv", adv],
                                                  ["attend"], ["attend"], ["adv", 1000], ["attend"]]})
    # multiplicity boundary
    for mult in (None, 0, 1, 2, 3):
        out.append({"cfg": CFG, "ops": pre + [["sub", 0, 2, [2], None, None, 0, mult, None], ["attend"], add(0), ["attend"],
                                              add(1), ["attend"], add(2), ["attend"]]})
    # reactive attendance trigger 375 / 500 ms
    for adv in (375, 500, 625):
        out.append({"cfg": CFG, "ops": pre + [["sub", 0, 2, [2], None, None, 0, 1, None], ["adv", adv], add(0), add(1),
                                              ["adv", 500], add(2)]})
    # after unsubscribe / deregistration (also: registering again does not revive the subscription)
    out.append({"cfg": CFG, "ops": pre + [add(0), ["sub", 0, 2, [2], None, None, 0, 1, None], ["sub", 1, 16, [2], None, None, 0, 1, None],
                                          ["attend"], ["unsub", 2, 0], ["attend"], ["deregc", 16], ["attend"], ["regc", 16, [16]],
                                          ["attend"], ["unsub", 2, 0], ["unsub", 35, 1]]})
    # validation ladder, one cause at a time
    for r in ([35, [2], None, None, 0, 1, None], [2, [99], None, None, 0, 1, None], [2, [2], 256, None, 0, 1, None],
              [2, [2], None, "!", 0, 1, None], [2, [2], None, None, -1, 1, None], [2, [2], None, None, 0, 256, None],
              [2, [2], None, None, 0, 1, "!"], [35, [99], 300, "!", -5, 999, "!"]):
        out.append({"cfg": CFG, "ops": pre + [["sub", 0] + r, add(0), ["attend"]]})
    # ordered notification, two overlapping subscriptions
    o = {"kind": "U", "keys": [["header.stationId", "a"], ["cam.generationDeltaTime", "d"]]}
    out.append({"cfg": CFG, "ops": pre + [add(0, 5, 2), add(1, 5, 1), add(2, 9, 1), ["sub", 0, 2, [2], None, None, 0, 1, o],
                                          ["sub", 1, 16, [2], None, [["cam.generationDeltaTime", "ge", L.ser(9)]], 0, 1, None],
                                          ["attend"]]})
    return out


def load_corpus():
    return [(n, c) for n, c in corpus("C14") if c.get("kind") == "history"]


def run(ctx):
    ctx.extra["rule"] = ("one evaluation = one interface operation on the real facility; at every attendance the reference "
                         "model decides, from the real store content, which callbacks must fire with which objects; "
                         "distinct_nontrivial counts distinct (operation, outcome, number of callbacks) triples")
    variants = detect_variants()
    ctx.extra["variant"] = {"C14-KF1": "unique subscription ids" if variants["uniqueIds"] else "id = hash(request) (code as is)"}
    hists = [("corpus:" + n, {"cfg": c["cfg"], "ops": c["ops"]}) for n, c in load_corpus()]
    ctx.cover("corpus_cases", len(hists))
    hists += [(f"boundary:{i}", h) for i, h in enumerate(boundary_histories())]
    for i in range(ctx.scale(300, 9000)):
        n_ops = ctx.rng.choice([15, 30, 60, 120] if not ctx.thorough else [15, 30, 60, 120, 250, 400])
        hists.append((f"random:{i}", gen_history(ctx.rng, n_ops)))
    chunk = 400
    for a in range(0, len(hists), chunk):
        part = hists[a:a + chunk]
        outs = model_outputs(ctx, [h for _, h in part], variants)
        for (tag, h), mo in zip(part, outs):
            lines = check_history(ctx, h, tag, mo)
            for op, ln in zip(h["ops"], lines):
                hd = ln.split(" ")
                ncalls = ln.count(" @")
                outcome = hd[0] + (hd[1] if hd[0] in ("c", "x") and op[0] != "add" and len(hd) > 1 else "")
                ctx.cover(f"op_{op[0]}:{outcome}")
                if ncalls:
                    ctx.cover(f"callbacks_on_{op[0]}", ncalls)
                ctx.nontrivial((op[0], outcome, min(ncalls, 5)))
    if hists:
        h = hists[-1][1]
        ctx.sample("history", {"ops": [op if op[0] != "add" else op[:3] + ["..."] for op in h["ops"][:14]]})


def search(ctx):
    hists = boundary_histories()
    for i in range(ctx.scale(600, 20000)):
        hists.append(gen_history(ctx.rng, ctx.rng.choice([15, 30, 60, 120])))
    for i, h in enumerate(hists):
        check_history(ctx, h, f"search:{i}")
        if len(ctx.violations) >= 3:
            break


def replay(ctx, obj):
    case = obj.get("case", obj)
    if case.get("kind") != "history":
        raise Infra(f"unknown replay kind {case.get('kind')}")
    hist = {"cfg": case["cfg"], "ops": case["ops"]}
    lines, stores = run_real(hist)
    bad = judge(hist, lines, stores)
    for op, ln in list(zip(hist["ops"], lines))[-6:]:
        print("  ", op[0], (op[1:3] if op[0] != "add" else op[1:2]), "->", ln[:100])
    for k, what, fid in bad:
        print(f"  VIOLATED at op {k}: {what}" + (f"  [{fid}]" if fid else ""))
    return bool(bad)
